#!/bin/sh
# usage: tools/build.sh <binary> [-race]   (development helper; checks build through run_check.py)
cd "$(dirname "$0")/.." || exit 1
python3 - "$@" <<'PY'
import sys
sys.path.insert(0, "tools")
import run_check
out, t = run_check.build(sys.argv[1], race=("-race" in sys.argv))
print("built", out, "%.0fs" % t)
sys.exit(0 if out else 1)
PY
