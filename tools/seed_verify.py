#!/usr/bin/env python3
"""Confirm and import sub-agent seeded changes (round 3 format).

For every <src>/<mN>/ (patch.diff, demo_test.go, meta.json, description.md) given on the command
line as  <PROP>:<src-dir>:<name>  this script, in a scratch git worktree of /repo (never /repo itself):
  1. puts the demonstration test in place and runs it on the unchanged tree   -> must pass
  2. applies patch.diff, builds everything that can depend on it               -> must compile
  3. runs the pinned suite modules that can be affected (osmomath / osmoutils / x/epochs)
                                                                                -> must pass
  4. runs the demonstration again                                               -> must fail (not a build failure)
and only then copies the change to /verif/seeded/<PROP>/<name>/ with meta.json extended by
`confirmed` (the commands that were run and their outcome).  The worktree is removed afterwards.

usage: seed_verify.py [--jobs N] PROP:SRC:NAME ...
"""
import json
import os
import shutil
import subprocess
import sys
import threading
from queue import Queue, Empty

VERIF = os.path.dirname(os.path.dirname(os.path.abspath(__file__)))
REPO = "/repo"
ROOT = "/tmp/vsv"


def goenv():
    e = dict(os.environ)
    e.update({"GOPROXY": "off", "GOSUMDB": "off", "GOTOOLCHAIN": "local", "GOFLAGS": "-trimpath"})
    return e


def sh(cmd, cwd=None, timeout=3600, shell=False):
    try:
        p = subprocess.run(cmd, cwd=cwd, env=goenv(), stdout=subprocess.PIPE, stderr=subprocess.STDOUT, text=True, timeout=timeout, shell=shell)
        return p.returncode, p.stdout
    except subprocess.TimeoutExpired as e:
        return "timeout", (e.stdout or "") if isinstance(e.stdout, str) else ""


def affected_pinned(files):
    mods = []
    if any(f.startswith("osmomath/") for f in files):
        mods = ["osmomath", "osmoutils", "x/epochs"]
    elif any(f.startswith("osmoutils/") for f in files):
        mods = ["osmoutils", "x/epochs"]
    elif any(f.startswith("x/epochs/") for f in files):
        mods = ["x/epochs"]
    return mods


def verify(prop, src, name, log, slot=0):
    with open(os.path.join(src, "meta.json")) as fh:
        meta = json.load(fh)
    wt = os.path.join(ROOT, "slot%d" % slot)  # fixed paths keep the Go build cache reusable
    if os.path.isdir(wt):
        sh(["git", "-C", REPO, "worktree", "remove", "--force", wt])
    rc, out = sh(["git", "-C", REPO, "worktree", "add", "--detach", wt, "HEAD"])
    if rc != 0:
        return {"ok": False, "why": "worktree: " + out[-300:]}
    ran = []
    try:
        with open(os.path.join(wt, "client/docs/statik/statik.go"), "w") as fh:
            fh.write("package statik\n")
        demo_path = meta["demo_path"]
        demo_cmd = meta["demo_cmd"]
        os.makedirs(os.path.dirname(os.path.join(wt, demo_path)), exist_ok=True)
        shutil.copy(os.path.join(src, "demo_test.go"), os.path.join(wt, demo_path))
        # 1. demo on the unchanged tree
        rc, out = sh(demo_cmd, cwd=wt, shell=True)
        ran.append({"cmd": demo_cmd, "tree": "unchanged", "exit": rc})
        log("  %s/%s demo on unchanged tree: exit %s" % (prop, name, rc))
        if rc != 0:
            return {"ok": False, "why": "demonstration does not pass on the unchanged tree", "out": out[-1500:], "ran": ran}
        # 2. apply + build (the demonstration is taken away again so that it is not part of the pinned-suite run)
        os.remove(os.path.join(wt, demo_path))
        rc, out = sh(["git", "apply", "--whitespace=nowarn", os.path.join(src, "patch.diff")], cwd=wt)
        if rc != 0:
            return {"ok": False, "why": "patch does not apply", "out": out[-800:], "ran": ran}
        rc, out = sh(["git", "diff", "--name-only"], cwd=wt)
        files = [f for f in out.split() if f != "client/docs/statik/statik.go" and f != demo_path]
        if any(f.endswith("_test.go") for f in files):
            return {"ok": False, "why": "patch edits a test file", "ran": ran}
        builds = []
        for m in ("osmomath", "osmoutils", "x/epochs"):
            if m in affected_pinned(files):
                builds.append(("go build ./... && go test -vet=off -count=1 -run '^$' ./... >/dev/null", os.path.join(wt, m)))
        builds.append(("go build ./app/... ./x/... ./cmd/...", wt))
        for cmd, cwd in builds:
            rc, out = sh(cmd, cwd=cwd, shell=True)
            ran.append({"cmd": cmd, "cwd": os.path.relpath(cwd, wt), "tree": "patched", "exit": rc})
            if rc != 0:
                return {"ok": False, "why": "does not compile", "out": out[-1500:], "ran": ran}
        # 3. pinned suite modules that can be affected
        for m in affected_pinned(files):
            cmd = "go test -vet=off -count=1 -timeout 25m ./..."
            rc, out = sh(cmd, cwd=os.path.join(wt, m), shell=True)
            ran.append({"cmd": cmd, "cwd": m, "tree": "patched", "exit": rc})
            log("  %s/%s pinned %s: exit %s" % (prop, name, m, rc))
            if rc != 0:
                return {"ok": False, "why": "pinned suite fails in " + m, "out": out[-2500:], "ran": ran}
        # 4. demo with the patch
        shutil.copy(os.path.join(src, "demo_test.go"), os.path.join(wt, demo_path))
        rc, out = sh(demo_cmd, cwd=wt, shell=True)
        ran.append({"cmd": demo_cmd, "tree": "patched", "exit": rc})
        log("  %s/%s demo on patched tree: exit %s" % (prop, name, rc))
        if rc == 0:
            return {"ok": False, "why": "demonstration passes with the patch", "ran": ran}
        if "[build failed]" in out or "[setup failed]" in out:
            return {"ok": False, "why": "demonstration does not build with the patch", "out": out[-1500:], "ran": ran}
        return {"ok": True, "files": files, "ran": ran, "pinned_modules_run": affected_pinned(files)}
    finally:
        sh(["git", "-C", REPO, "worktree", "remove", "--force", wt])
        shutil.rmtree(wt, ignore_errors=True)


def main():
    args = sys.argv[1:]
    jobs = 3
    if args and args[0] == "--jobs":
        jobs = int(args[1])
        args = args[2:]
    q = Queue()
    for a in args:
        q.put(a.split(":"))
    lock = threading.Lock()

    def log(s):
        with lock:
            print(s, flush=True)

    def worker(slot):
        while True:
            try:
                prop, src, name = q.get_nowait()
            except Empty:
                return
            try:
                r = verify(prop, src, name, log, slot)
            except Exception as e:  # noqa
                r = {"ok": False, "why": repr(e)}
            if r["ok"]:
                dd = os.path.join(VERIF, "seeded", prop, name)
                os.makedirs(dd, exist_ok=True)
                shutil.copy(os.path.join(src, "patch.diff"), os.path.join(dd, "patch.diff"))
                shutil.copy(os.path.join(src, "demo_test.go"), os.path.join(dd, "demo_test.go"))
                if os.path.exists(os.path.join(src, "description.md")):
                    shutil.copy(os.path.join(src, "description.md"), os.path.join(dd, "demonstration.md"))
                with open(os.path.join(src, "meta.json")) as fh:
                    meta = json.load(fh)
                meta.update({"name": name, "files": r["files"],
                             "source": "sub-agent given only the property text and a scratch worktree (round 3)",
                             "confirmed": {"by": "tools/seed_verify.py in a scratch worktree of /repo", "commands": r["ran"],
                                           "compiles": True, "pinned_suite_modules_run": r["pinned_modules_run"],
                                           "pinned_suite_passes": True,
                                           "demo_passes_on_unchanged_tree": True, "demo_fails_with_patch": True}})
                with open(os.path.join(dd, "meta.json"), "w") as fh:
                    json.dump(meta, fh, indent=1)
                    fh.write("\n")
                log("OK   %s/%s  %s" % (prop, name, meta.get("title", "")[:100]))
            else:
                log("DROP %s/%s  %s\n%s" % (prop, name, r["why"], r.get("out", "")))

    os.makedirs(ROOT, exist_ok=True)
    ths = [threading.Thread(target=worker, args=(i,)) for i in range(jobs)]
    for t in ths:
        t.start()
    for t in ths:
        t.join()
    sh(["git", "-C", REPO, "worktree", "prune"])


if __name__ == "__main__":
    main()
