HOOK_COMMITS = []
NOTES = ("Technique family: runtime monitoring. Every check rebuilds its monitor binary from /repo's current tree (go build -overlay), "
         "runs it as sharded processes over seed-determined case lists, and decides from what the monitors observed. "
         "Exit 0 held / 1 VIOLATION / 2 INCONCLUSIVE. known_findings.json lists recorded and repaired defects.")
PENDING = {}
TEXT = {
    "C12": {
        "technique": "runtime monitor: differential oracle (exact big.Int rounding) over generated operand pairs on the public decimal API",
        "level": "Every public BigDec/BigInt/Dec arithmetic, rounding, conversion and encoding method is executed on generated operands (ties, ulps, powers of ten, bound-adjacent, both signs) and each result compared with the exactly rounded value, operand immutability and Mut/non-Mut agreement; held on the operand pairs explored, not for all operands.",
        "note": "Trusted: math/big, the harness's own rounding helpers. Dec (18-decimal) lives in cosmossdk.io/math and is checked through the osmomath alias only. Aliased receivers (x.OpMut(x)) and decode of >1024-bit values are outside the claim.",
    },
    "C14": {
        "technique": "runtime monitor: exhaustive/sampled execution of the exported tick/price conversions against a big.Int closed form and the bucket rule",
        "level": "quick: all ticks around every decade boundary, the range ends and the regime switch plus 3.6M random ticks; thorough: every one of the 6.12e8 ticks of the supported range executed (formula, monotonicity, bounds, price->tick; sqrt->tick round trip on the whole swap-reachable range), bucket rule sampled at 1 tick in 64, rejections sampled.",
        "note": "Trusted: math/big (integer sqrt), the closed form as documented in the tick spec. The between-ticks clause is sampled, not exhaustive (each bucket holds ~1e10..1e30 representable sqrt prices).",
    },
    "C15": {
        "technique": "runtime monitor: reference-model (exact big.Rat ledger of growth x shares) refinement check after every accumulator operation",
        "level": "Generated operation sequences on the real accumulator over an in-memory store; after every operation total shares, every record, every claimable amount and the no-effect-on-failure clause are checked against an exact ledger. Held on the sequences explored.",
        "note": "Trusted: math/big, the harness KV store. Allowance: one 1e-18 ulp per rounded 18-decimal product folded into a position (the statement allows truncation at claim time only up to product rounding). Stale interleaved handles are not generated (handles are documented snapshots).",
    },
    "C16": {
        "technique": "runtime monitor: reference-model (sorted map) differential check of every query + structural walk of the raw store at quiescent points",
        "level": "Generated histories at fan-outs 3..12, 32, 255; every Get/PrefixSum/SubsetAccumulation/SplitAcc/Total/iteration answer compared with a sorted map and the stored child sums re-derived from the leaves every 8 operations. Histories with an effective Remove are a recorded known finding; everything else must be clean.",
        "note": "Trusted: the harness KV store and map model. SubsetAccumulation is only queried with start <= end (the API documents an inclusive range).",
    },
}
