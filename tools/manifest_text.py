HOOK_COMMITS = []
NOTES = ("Technique family: runtime monitoring. Every check rebuilds its monitor binary from /repo's current tree (go build -overlay), "
         "runs it as sharded processes over seed-determined case lists, and decides from what the monitors observed. "
         "Exit 0 held / 1 VIOLATION / 2 INCONCLUSIVE. known_findings.json lists recorded and repaired defects.")
PENDING = {}
TEXT = {
    "C12": {
        "technique": "runtime monitor: differential oracle (exact big.Int rounding) over generated operand pairs on the public decimal API",
        "level": "Every public BigDec/BigInt/Dec arithmetic, rounding, conversion and encoding method is executed on generated operands (ties, ulps, powers of ten, bound-adjacent, both signs) and each result compared with the exactly rounded value, operand immutability and Mut/non-Mut agreement; held on the operand pairs explored, not for all operands.",
        "note": "Trusted: math/big, the harness's own rounding helpers. Dec (18-decimal) lives in cosmossdk.io/math and is checked through the osmomath alias only. Aliased receivers (x.OpMut(x)) and decode of >1024-bit values are outside the claim.",
    },
    "C14": {
        "technique": "runtime monitor: exhaustive/sampled execution of the exported tick/price conversions against a big.Int closed form and the bucket rule",
        "level": "quick: all ticks around every decade boundary, the range ends and the regime switch plus 3.6M random ticks; thorough: every one of the 6.12e8 ticks of the supported range executed (formula, monotonicity, bounds, price->tick; sqrt->tick round trip on the whole swap-reachable range), bucket rule sampled at 1 tick in 64, rejections sampled.",
        "note": "Trusted: math/big (integer sqrt), the closed form as documented in the tick spec. The between-ticks clause is sampled, not exhaustive (each bucket holds ~1e10..1e30 representable sqrt prices).",
    },
    "C15": {
        "technique": "runtime monitor: reference-model (exact big.Rat ledger of growth x shares) refinement check after every accumulator operation",
        "level": "Generated operation sequences on the real accumulator over an in-memory store; after every operation total shares, every record, every claimable amount and the no-effect-on-failure clause are checked against an exact ledger. Held on the sequences explored.",
        "note": "Trusted: math/big, the harness KV store. Allowance: one 1e-18 ulp per rounded 18-decimal product folded into a position (the statement allows truncation at claim time only up to product rounding). Stale interleaved handles are not generated (handles are documented snapshots).",
    },
    "C16": {
        "technique": "runtime monitor: reference-model (sorted map) differential check of every query + structural walk of the raw store at quiescent points",
        "level": "Generated histories at fan-outs 3..12, 32, 255; every Get/PrefixSum/SubsetAccumulation/SplitAcc/Total/iteration answer compared with a sorted map and the stored child sums re-derived from the leaves every 8 operations. Histories with an effective Remove are a recorded known finding; everything else must be clean.",
        "note": "Trusted: the harness KV store and map model. SubsetAccumulation is only queried with start <= end (the API documents an inclusive range).",
    },
    "C04": {
        "technique": "runtime monitor: differential oracle (exact weighted-product formula in 700-bit floats, exact rationals for proportional bounds and the stableswap invariant) over generated operation sequences on in-memory pools",
        "level": "Generated short operation sequences on real balancer and stableswap pool models; every swap/join/exit result compared two-sided with the exact formula within reserve x documented power precision, value-per-share invariant before/after, proportional bounds and stableswap invariant exactly, closed loops in the integer-weight-ratio family at whole-unit resolution.",
        "note": "Trusted: the harness's big.Float exp/ln, math/big. Tolerances are relative to the reserve being multiplied (DESIGN C04). Keeper-level messages for the same operations are exercised by the C02/C05 monitors, not here.",
    },
    "C13": {
        "technique": "runtime monitor: differential oracle (700-bit reference series, exact integer root test, re-implemented tolerance predicate) over generated inputs incl. domain edges",
        "level": "Exp2, logarithms, Pow, monotone square roots, significant-figure rounding and both binary searches executed on generated inputs and compared with high-precision references against the stated bounds; out-of-domain inputs must fail.",
        "note": "Trusted: the harness's own exp/ln series at 700 bits. Pow hitting its documented 150000-term iteration limit (bases within ~1e-15 of 0 or 2) and CustomBaseLog bases within 1e-30 of 1 are loud failures and counted as outcomes.",
    },
    "C17": {
        "technique": "runtime monitor: reference-model (epoch grid) + trace checker over hook invocations of the real epochs keeper with scripted faulty subscribers; integrated part on a real app: state assertions around epoch blocks with an injected fault (developer vesting account drained so that x/mint's hook errors) and a gas-limit sweep over the real BeginBlocker",
        "level": "Part 1 (pure binary): real x/epochs keeper, MultiEpochHooks and ApplyFuncIfNoError driven over generated block-time sequences with 1-4 scripted subscribers (error, three panic kinds, out-of-gas, partial writes); timers, call trace and subscriber key spaces compared with the model after every block. Part 2 (appmon binary): the app's real hook chain (txfees, twap, superfluid, incentives, mint, protorev) across epoch blocks where x/mint's hook fails after minting: supply, mint account, minter, reduction epoch and community pool must be untouched, incentives (earlier) and protorev (later) must have run, the timer must tick once and stay on the grid; 24 gas limits per sweep below the needed gas must all end in a propagated out-of-gas panic.",
        "note": "Trusted: the harness store and context (part 1); the drained account and the gas meter on the BeginBlocker context as fault levers (part 2; a real block's begin-block meter is infinite). Observed outside the statement: protorev's day hook errors on every epoch until a developer account is set (contained, as the statement requires).",
    },
    "C06": {
        "technique": "runtime monitor: reference-model (lock book) refinement check of every lockup query, module balance and owner conservation after every message on a real app",
        "level": "Generated histories of lockup messages, time jumps and matured-lock sweeps on a real OsmosisApp (real blocks; every 10th history runs the 120-block sweep cycle for real); after every operation 14 query families, LockedDenom for every used duration +-1ns, module balance and owner balance + locked are compared with the model.",
        "note": "Trusted: the harness lock book; list queries are compared as sets (no order promised). Nine in ten histories trigger the sweep by calling the module's real EndBlocker with the height set to the next multiple of 120 instead of producing 120 blocks.",
    },
    "C01": {
        "technique": "runtime monitor: invariant-at-a-hook after every operation — withdraw-everything probes on discarded state branches (three exit orders), claimable-vs-balance comparison, computed dust bound; plus a differential direction layer on the exported LP-amount functions",
        "level": "Generated multi-account histories on a real concentrated pool; after every operation every position is claimed and fully withdrawn on three discarded branches (all messages must succeed), claimable totals are compared with the reward accounts, the residue is compared with a computed rounding-dust bound valued at the price extremes seen; CalcAmount0/1Delta are compared with exact rationals for rounding direction.",
        "note": "Trusted: the harness's exact walker (for the spread-dust bound), the chain driver's transaction semantics (cache context + recover). Positions bound by locks are not generated here (superfluid is C11). Incentive-account residue is observed but only its non-negativity (claims succeed) is a verdict.",
    },
    "C03": {
        "technique": "runtime monitor: differential oracle (exact big.Rat piecewise-curve walker over the pool/all-ticks queries) + estimate-vs-execution and state-digest comparison around every swap; ulp-level differential check of the per-bucket swap functions",
        "level": "Around every swap message of generated histories: estimates (pool manager and CL) on the same state with a digest of the CL/bank/pool-manager stores before and after, exact curve walk for the ideal amount, execution must equal the estimate, never beat the curve, and stay within a per-witness rounding bound; there-and-back on a discarded branch; ComputeSwapWithinBucket* compared with exact rationals (direction of every rounding).",
        "note": "Trusted: the reference walker; bucket boundaries TickToSqrtPrice(t) are taken from the implementation (decided separately by C14). Observed and not a verdict: an exact-out swap may deliver one unit less than requested (it stops at a remainder <= 1e-18 and truncates); swaps stopped by the global price limit are partially filled.",
    },
    "C07": {
        "technique": "runtime monitor: invariant-at-a-hook after every operation, from the pool / all-ticks / positions queries only",
        "level": "After every operation of generated histories: active liquidity vs positions containing the tick, per-tick gross/net vs positions, stored tick set, price-vs-tick agreement per position (non-strict forms), empty-pool reset, position identity, depth query.",
        "note": "Trusted: the workload's own record of positions (ids, owners, ranges from message responses).",
    },
    "C08": {
        "technique": "runtime monitor: metamorphic relations inside one history (twin, k-times and never-in-range probe positions), bank-event ledger totals, before/after preservation check around every position operation",
        "level": "Generated histories with planted probe positions; after every operation twins must have identical claimable rewards, the k-times position proportional ones, the never-in-range position none; total claimed + claimable never exceeds fees paid in + incentives funded and falls short only by the computed dust bound; every claim/add/withdraw/transfer preserves matured rewards within one unit per denom per accumulator; positions younger than every incentive's uptime have no claimable incentives.",
        "note": "Trusted: the harness ledgers built from message responses and bank events of the handler results; swept-tick tracking for 'never entered'. Forfeited incentives paid to a leaving owner when no other liquidity is active are the statement's own exception and are classified, not flagged.",
    },
    "C02": {
        "technique": "runtime monitor: conservation ledger over balance snapshots of every participating account around every message + pool-record vs bank equalities after every message",
        "level": "Generated histories over a zoo of balancer, stableswap and concentrated pools with random taker-fee settings; after every message (accepted or rejected) pool account balance = reported reserves + direct sends, share supply = reported shares = holders' total, traded-token supplies unchanged, and the per-message net balance change over actors, pools and the taker-fee collector is zero per denom.",
        "note": "Trusted: bank balance and supply queries. Epoch boundaries (where x/mint and the taker-fee distribution move funds) are not crossed in these histories; C18/C19 cover them.",
    },
    "C05": {
        "technique": "runtime monitor: twin-branch (metamorphic) comparison on discarded state branches — routed vs hop-by-hop, split vs legs, estimate vs execution with state digest, limit probes at estimate-1/estimate/estimate+1 judged by the sender's balance deltas",
        "level": "After arbitrary prior activity on the pool zoo, routed swaps over 1..4 distinct pools of mixed types are executed on one branch and composed from single-hop messages on a twin branch (all balances must agree), estimates are compared with executions, and limits are probed on both sides of the estimate; what the sender pays or receives is measured on balances, taker fee included.",
        "note": "Trusted: the chain driver's transaction semantics (cache context + recover) for 'fails as a whole'; senders on the reduced-fee whitelist are excluded from estimate comparisons (the query knows no sender); paths that repeat a denom are excluded from balance-delta limit probes.",
    },
    "C09": {
        "technique": "runtime monitor: per-epoch step oracle (expected payments computed in big.Int from the pre-epoch state observed through queries) + gauge-book conservation checks around real epoch blocks",
        "level": "Generated histories of locks, reward-receiver changes, gauges, top-ups and real epoch blocks; before every distribution epoch the expected floor pro-rata payment per receiver (minimum-value and no-route filters applied) is computed from the observed gauges and qualifying locks and compared with the balance deltas after the real block, together with gauge counters, finish schedule, deposited vs distributed and the module balance.",
        "note": "Trusted: the lockup and incentives queries for the pre-epoch snapshot (qualifying locks = locks longer than the gauge duration, unlocking ones included, as the lockup query reports). NoLock/group gauges are outside this check. Known finding: single-denom remainders <= 100 units are never paid.",
    },
    "C18": {
        "technique": "runtime monitor: offline checker over the bank-event ledger of every mint-epoch block (coinbase, burn, transfer events of the FinalizeBlock response) + minter and supply-with-offset queries against an exactly computed emission schedule",
        "level": "Generated parameter sets run for 5..60 real consecutive mint epochs on a real app; every epoch block's bank events and the supply/minter queries are compared with the schedule (minted = floor(provision), per-destination floors, community pool remainder, empty mint account, reported supply + minted, reduction exactly at lastReduction + period, nothing before the start epoch).",
        "note": "Trusted: the SDK's bank events as a faithful ledger (cross-checked by the mint-account balance and the supply queries). Parameters are set through the keeper's SetParams/SetMinter. When the developer share of an epoch exceeds what is left in the developer vesting account the mint hook fails as a whole (containment is C17's clause): the monitor then requires that nothing was minted, the reported supply and the minter are unchanged, and the schedule resumes from the unchanged state.",
    },
    "C10": {
        "technique": "runtime monitor: reference-model (price-segment list observed by the monitor at every block end) differential check of every TWAP query; before/after comparison across pruning passes",
        "level": "Real blocks with irregular times over balancer, stableswap and concentrated pools (incl. emptied/refilled pool for spot-price errors, pruning epochs with 2h..48h keep periods); hundreds of arithmetic/geometric/ToNow queries per history compared with the time-weighted mean over canonical milliseconds (arithmetic exact to the final truncation, geometric within half a unit of the last kept significant figure), min/max bounds, reciprocity, error flag, stability across pruning.",
        "note": "Trusted: RouteCalculateSpotPrice as the source of the end-of-block prices (the property is about averaging, not about the spot price), the harness's 700-bit log2/2^x. The asset1-quoted geometric TWAP is compared with the reciprocal of the asset0-quoted mean (the statement's reciprocity clause). Known finding: geometric TWAP answers 0 when the mean log is exactly 0.",
    },
    "C11": {
        "technique": "runtime monitor: invariant-at-a-hook after every message and every refresh epoch, through staking, superfluid, lockup and bank (supply-with-offset) queries, against a model of which locks are delegated through which (asset, validator)",
        "level": "Generated histories with 3 validators, classic and concentrated superfluid assets, delegations, top-ups, undelegations, unbondings (full/partial), price moves, refresh epochs and jumps past the unbonding period; after every step each intermediary account's stake is compared with the independently recomputed risk-adjusted value of exactly the locks delegated through it (exact after a refresh), the staking/unstaking markers and their end times are checked, the reported OSMO supply must not move, BeginUnlocking on delegated locks must fail, no lock may return before its undelegation matured.",
        "note": "Trusted: the model of delegated locks built from message responses; minting is switched off (provision 0) so that supply neutrality is an equality. Between refreshes the allowance is 3 units per value conversion (each conversion rounds twice) plus one per lock. Slashing is not driven. Observed, outside the statement: after a refresh the last of several locks of one intermediary account can fail to undelegate by one unit (invalid shares amount).",
    },
    "C19": {
        "technique": "runtime monitor: offline checker over per-block traces (app hash, per-transaction code/codespace/gas/data/events, block events) recorded by separate OS processes replaying one transaction history under different GOMAXPROCS / GOGC / map seeds, and by processes started from states exported after chosen blocks; canonicalised per-module export + query battery diff at the final height; Go race detector pass with concurrent CheckTx / Simulate / gRPC queries and a relevance rule (a non-consensus goroutine writing memory that block execution touches, in repository code)",
        "level": "Generated histories of signed transactions through FinalizeBlock/Commit covering gamm, poolmanager (taker fees set by an admin), concentrated liquidity, lockup, incentives, token factory, bank, mint reductions and day/week epochs. Replica lineage: every block's app hash and results must be identical. Import lineage: every transaction result after the import point and the exported module states / queries at the final height must be identical to the exporting node's. Race tier: the same history with concurrent mempool/query-connection load under -race.",
        "note": "Trusted: the harness genesis (2 validators, 8 funded accounts) as a representative chain; FinalizeBlock/Commit driven directly instead of through CometBFT; one proposer. App hashes are not compared across the import boundary (a new chain has new IAVL versions); raw stores are not compared across it either, only what the node reports (exports, queries, results). IBC, wasm contracts, governance and superfluid messages are not in the C19 workload. Crash points are not enumerated (memdb, no restart). Race reports whose accessing code is third-party only (SDK baseapp/params/IAVL) are counted and listed, not judged.",
    },
    "C20": {
        "technique": "runtime monitor: authorization matrix over generated histories — every message type acting on an owned object is executed on discarded state forks for the rightful sender (validity) and for every other sender kind; oracle: a wrong sender never succeeds and a rejected message leaves the all-store digest unchanged; admin probes against protected module accounts",
        "level": "Histories on a real app create and evolve concentrated positions (incl. transferred and superfluid ones), locks in every state (plain, unlocking, superfluid-delegated, undelegating, with reward receivers, holding factory tokens) and factory denoms (admin changed, renounced). 22 message types x sender kinds (other users, previous owners/admins/creators, reward receiver, pool addresses, 11 module accounts, validator owner, intermediary account). Mint-to / burn-from / force-transfer from and to module accounts by the admin, including module accounts that really hold the denom (factory tokens locked in x/lockup).",
        "note": "Trusted: messages go through ValidateBasic and the message-service router (driver D1), i.e. the signer named in the message is taken as authenticated — signature verification is the SDK ante handler's job and is exercised by C19's signed transactions. A rejected message cannot persist writes in this driver or in a real transaction (both discard the branch), so 'leaves everything unchanged' is checked on the branch itself for a sample of rejections. cosmwasm-pool and authz/ICA indirections are not driven.",
    },
}
