HOOK_COMMITS = []
NOTES = ("Technique family: runtime monitoring. Every check rebuilds its monitor binary from /repo's current tree (go build -overlay), "
         "runs it as sharded processes over seed-determined case lists, and decides from what the monitors observed. "
         "Exit 0 held / 1 VIOLATION / 2 INCONCLUSIVE. known_findings.json lists recorded and repaired defects.")
PENDING = {}
TEXT = {
    "C12": {
        "technique": "runtime monitor: differential oracle (exact big.Int rounding) over generated operand pairs on the public decimal API",
        "level": "Every public BigDec/BigInt/Dec arithmetic, rounding, conversion and encoding method is executed on generated operands (ties, ulps, powers of ten, bound-adjacent, both signs) and each result compared with the exactly rounded value, operand immutability and Mut/non-Mut agreement; held on the operand pairs explored, not for all operands.",
        "note": "Trusted: math/big, the harness's own rounding helpers. Dec (18-decimal) lives in cosmossdk.io/math and is checked through the osmomath alias only. Aliased receivers (x.OpMut(x)) and decode of >1024-bit values are outside the claim.",
    },
}
