"""Race-detector pass: the property's binary rebuilt with -race runs its workload with a
concurrent side load; the race log is parsed, reports that do not touch repository code are
dropped (relevance rule), the rest are de-duplicated by the pair of innermost repository frames."""
import glob
import os
import re


def parse_reports(text):
    blocks, cur = [], None
    for line in text.splitlines():
        if line.startswith("WARNING: DATA RACE"):
            cur = [line]
        elif cur is not None:
            cur.append(line)
            if line.startswith("=================="):
                blocks.append(cur)
                cur = None
    if cur:
        blocks.append(cur)
    return blocks


HEAD = re.compile(r"^(Previous )?(atomic )?(write|read)[^:]* by (main goroutine|goroutine \d+)", re.I)


def accesses(block):
    """-> the two racing accesses: dicts {write, main, frames:[(func, file:line)]}"""
    out, cur = [], None
    i = 0
    while i < len(block):
        line = block[i]
        m = HEAD.match(line.strip())
        if m:
            cur = {"write": m.group(3).lower() == "write", "main": m.group(4) == "main goroutine", "frames": []}
            out.append(cur)
        elif line.startswith("Goroutine "):
            cur = None
        elif cur is not None and line.startswith("  ") and not line.startswith("      ") and i + 1 < len(block) and block[i + 1].startswith("      "):
            cur["frames"].append((line.strip().split("(")[0] if not line.strip().startswith("github.com") else line.strip().rsplit("(", 1)[0], block[i + 1].strip().split(" ")[0]))
            i += 1
        i += 1
    return out[:2]


def consensus(acc):
    """the access happens on the goroutine that drives FinalizeBlock/Commit"""
    return acc["main"] or any("zzverif/chain.(*Chain).NextBlock" in fn for fn, _ in acc["frames"])


def site(acc):
    """innermost frame that is not the Go runtime: the code performing the access"""
    for fn, fl in acc["frames"]:
        if fn.startswith("runtime.") or fl.startswith("/usr/lib/go") or "/go/src/" in fl:
            continue
        if not fl.startswith("/") and "." not in fl.split("/")[0]:
            continue  # standard library frame in a -trimpath build (sync/map.go, ...)
        return fn, fl
    return None


def in_repo(st):
    repo = os.environ.get("VERIF_REPO", "/repo").rstrip("/") + "/"
    if not st:
        return False
    if st[1].startswith("github.com/osmosis-labs/osmosis/"):  # -trimpath build (scratch copies of the repository)
        return "/zzverif/" not in st[1]
    return st[1].startswith(repo) and not st[1].startswith(repo + "zzverif/")


def classify(block):
    """-> (kind, key): kind = 'violation' | 'observation' | 'foreign'
    foreign: neither access is performed by repository code.
    violation: repository code is involved and a goroutine other than the consensus one WRITES
    memory the consensus goroutine also touches, so scheduling can reach committed state.
    observation: repository code is involved but the non-consensus side only reads (or both
    sides are non-consensus): the committed state cannot depend on it."""
    acc = accesses(block)
    sites = [site(a) for a in acc]
    key = "|".join(sorted("%s@%s" % (s[0], re.sub(r":\d+$", "", s[1])) if s else "-" for s in sites))
    if not any(in_repo(s) for s in sites):
        return "foreign", key
    if len(acc) == 2:
        cons = [consensus(a) for a in acc]
        if cons[0] != cons[1]:
            other = acc[0] if cons[1] else acc[1]
            if other["write"]:
                return "violation", key
    return "observation", key


def run(prop, cfg, tier, seed, build, run_shards, VERIF):
    info = {"results": [], "problems": [], "violations": [], "counters": {}, "notes": []}
    binpath, bt = build(cfg["binary"], race=True)
    if binpath is None:
        info["notes"].append("race tier: -race build failed")
        info["inconclusive"] = "race build failed"
        return info
    ldir = os.path.join(VERIF, "logs", prop + "-race")
    os.makedirs(ldir, exist_ok=True)
    rdir = os.path.join(ldir, "racelogs")
    os.makedirs(rdir, exist_ok=True)
    for f in glob.glob(os.path.join(rdir, "race.*")):
        os.remove(f)
    cfg2 = dict(cfg)
    cfg2["shards"] = {tier: cfg["race"][tier]}
    env = {"VERIF_C19_MODE": "race", "GORACE": "halt_on_error=0 exitcode=0 log_path=%s/race" % rdir}
    results, problems, nsh = run_shards(prop, cfg2, tier, seed, binpath, extra_env=env, sub="-race")
    info["results"], info["problems"] = results, problems
    nrep, nforeign, seen, obs = 0, 0, {}, {}
    for f in sorted(glob.glob(os.path.join(rdir, "race.*"))):
        with open(f, errors="replace") as fh:
            for b in parse_reports(fh.read()):
                nrep += 1
                kind, key = classify(b)
                if kind == "foreign":
                    nforeign += 1
                    continue
                tgt = seen if kind == "violation" else obs
                if key in tgt:
                    tgt[key]["n"] += 1
                else:
                    tgt[key] = {"n": 1, "text": "\n".join(b[:80])}
    for key, d in seen.items():
        info["violations"].append({"check": "%s.data_race" % prop, "sig": {"check": "%s.data_race" % prop, "frames": key},
                                   "detail": "a goroutine other than the one executing blocks writes memory that block execution uses, in repository code (%d reports):\n%s" % (d["n"], d["text"]),
                                   "case": {"prop": prop, "seed": seed, "tier": tier, "part": "race", "index": -1}})
    for key, d in sorted(obs.items()):
        info["notes"].append("race observation (non-consensus side read-only, %d reports): %s" % (d["n"], key))
    nrel = sum(d["n"] for d in seen.values())
    nobs = sum(d["n"] for d in obs.values())
    info["counters"] = {"race_reports_total": nrep, "race_reports_third_party_only": nforeign, "race_reports_repo_readonly_side": nobs,
                        "race_reports_repo_write_into_consensus": nrel, "race_build_s": int(bt)}
    info["notes"].append("race tier: %d shard(s) of the -race build with concurrent CheckTx/Simulate/gRPC-query load; %d detector reports: %d in third-party code only, %d in repository code with a read-only non-consensus side, %d writing into block execution" % (nsh, nrep, nforeign, nobs, nrel))
    return info
