#!/opt/veriftools/pyvenv/bin/python
import json, sys, glob, jsonschema
jsonschema.validate(json.load(open('/verif/MANIFEST.json')), json.load(open('/root/.vp/MANIFEST.schema.json')))
sch = json.load(open('/root/.vp/EVIDENCE.schema.json'))
for f in sorted(glob.glob('/verif/evidence/*.json')):
    jsonschema.validate(json.load(open(f)), sch)
    print("ok", f)
print("manifest ok")
