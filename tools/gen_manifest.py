#!/usr/bin/env python3
"""Regenerates MANIFEST.json from tools/props.py + tools/manifest_text.py."""
import json, os, sys
VERIF = os.path.dirname(os.path.dirname(os.path.abspath(__file__)))
sys.path.insert(0, os.path.join(VERIF, "tools"))
from props import PROPS
from manifest_text import TEXT, PENDING, HOOK_COMMITS, NOTES

BASELINE_OFF = "for m in . ./osmomath ./osmoutils ./x/epochs ./x/ibc-hooks; do (cd /repo/$m && GOPROXY=off GOSUMDB=off GOTOOLCHAIN=local go test -json -vet=off -count=1 -timeout 25m ./...); done"

checks = []
for pid in sorted(PROPS):
    if pid not in TEXT:
        continue
    t = TEXT[pid]
    checks.append({
        "property_id": pid,
        "quick_cmd": "./check %s quick" % pid,
        "thorough_cmd": "./check %s thorough" % pid,
        "evidence_file": "/verif/evidence/%s.json" % pid,
        "replay_cmd_template": "./check %s --replay {path}" % pid,
        "engine": PROPS[pid]["binary"],
        "level_claimed": {"category": "exploration", "text": t["level"], "design_ref": "DESIGN.md §5 " + pid},
        "level_note": t["note"],
        "technique": t["technique"],
    })
ids = ["C%02d" % i for i in range(1, 21)]
na = [{"property_id": p, "reason": PENDING.get(p, "monitor not built yet in this revision; see DESIGN.md §5 for the planned oracle")} for p in ids if p not in TEXT]
m = {
    "version": 1,
    "setup_cmd": "./setup.sh",
    "hooks": {"guard": "verif", "enable": "harness sources (all `//go:build verif`) are mapped into /repo/zzverif/ with `go build -tags verif -overlay /verif/build/overlay.json`; no file of /repo carries a hook",
              "baseline_off_cmd": BASELINE_OFF, "source_commits": HOOK_COMMITS, "add_only": True},
    "engines": [
        {"name": "pure", "path": "/verif/harness/pure", "serves_properties": sorted(p for p in PROPS if PROPS[p]["binary"] == "pure" and p in TEXT),
         "kind_free_text": "runtime monitors over exported library functions on in-memory stores (reference models in math/big), sharded processes"},
        {"name": "appmon", "path": "/verif/harness/appmon", "serves_properties": sorted(p for p in PROPS if PROPS[p]["binary"] == "appmon" and p in TEXT),
         "kind_free_text": "runtime monitors around a real OsmosisApp (deterministic genesis, real FinalizeBlock/Commit, message handlers in cache contexts), invariant hooks after every operation, offline checkers over bank-event ledgers"},
    ],
    "checks": checks,
    "notes": NOTES,
    "not_applicable": na,
}
with open(os.path.join(VERIF, "MANIFEST.json"), "w") as fh:
    json.dump(m, fh, indent=1)
    fh.write("\n")
print("MANIFEST: %d checks, %d not_applicable" % (len(checks), len(na)))
