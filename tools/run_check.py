#!/usr/bin/env python3
"""Entry point behind ./check: build the monitor binary from /repo's current tree,
run it as N shard processes, merge shard results, match violations against
known_findings.json, write evidence/<id>.json and replay files.

exit 0 = held on everything explored; 1 = violation (VIOLATION line printed);
2 = inconclusive (INCONCLUSIVE line printed)."""
import fcntl
import json
import os
import subprocess
import sys
import time

VERIF = os.path.dirname(os.path.dirname(os.path.abspath(__file__)))
REPO = os.environ.get("VERIF_REPO", "/repo")
BUILD = os.path.join(VERIF, "build")
LOGS = os.path.join(VERIF, "logs")
sys.path.insert(0, os.path.join(VERIF, "tools"))
from props import PROPS  # noqa: E402


def goenv():
    e = dict(os.environ)
    # scratch copies of the repository (self-test) are built with -trimpath so that the build cache is shared between them
    e.update({"GOPROXY": "off", "GOSUMDB": "off", "GOTOOLCHAIN": "local", "GOFLAGS": "" if REPO == "/repo" else "-trimpath"})
    e.pop("GOWORK", None)
    return e


SKEW_FN = '''
// verifSkewSec shifts the wall clock reported by Now: fault injection for the determinism monitor
// (C19 runs one replica whose wall clock is years away from the others').
var verifSkewSec = func() int64 {
	s, ok := syscall.Getenv("VERIF_TIME_SKEW_SEC")
	if !ok || s == "" {
		return 0
	}
	neg := false
	var n int64
	for i, c := range []byte(s) {
		if i == 0 && c == '-' {
			neg = true
			continue
		}
		if c < '0' || c > '9' {
			return 0
		}
		n = n*10 + int64(c-'0')
	}
	if neg {
		n = -n
	}
	return n
}()
'''


def skewed_time_source():
    """A copy of the toolchain's time/time.go whose Now() adds VERIF_TIME_SKEW_SEC seconds; None if the
    file does not look as expected (then the skewed replica is simply not run)."""
    p = subprocess.run(["go", "env", "GOROOT"], env=goenv(), stdout=subprocess.PIPE, text=True)
    src_path = os.path.join(p.stdout.strip(), "src", "time", "time.go")
    try:
        with open(src_path) as fh:
            src = fh.read()
    except OSError:
        return None, None
    a = 'import (\n\t"errors"'
    b = 'func Now() Time {\n\tsec, nsec, mono := now()\n'
    if src.count(a) != 1 or src.count(b) != 1 or '"syscall"' in src.split(")")[0]:
        return None, None
    src = src.replace(a, a + '\n\t"syscall"', 1).replace(b, b + "\tsec += verifSkewSec\n", 1) + SKEW_FN
    return src_path, src


def gen_overlay(skew=False):
    os.makedirs(BUILD, exist_ok=True)
    rep = {}
    hroot = os.path.join(VERIF, "harness")
    for d, _, files in os.walk(hroot):
        for f in files:
            if f.endswith(".go"):
                rel = os.path.relpath(os.path.join(d, f), hroot)
                rep[os.path.join(REPO, "zzverif", rel)] = os.path.join(d, f)
    statik = os.path.join(REPO, "client/docs/statik/statik.go")
    if os.path.exists(statik) and os.path.getsize(statik) == 0:
        stub = os.path.join(BUILD, "statik_stub.go")
        with open(stub, "w") as fh:
            fh.write("package statik\n")
        rep[statik] = stub
    if skew:
        src_path, src = skewed_time_source()
        if src is None:
            return None
        os.makedirs(os.path.join(BUILD, "skew"), exist_ok=True)
        sp = os.path.join(BUILD, "skew", "time_skew.go.txt")
        old = None
        if os.path.exists(sp):
            with open(sp) as fh:
                old = fh.read()
        if old != src:
            with open(sp, "w") as fh:
                fh.write(src)
        rep[src_path] = sp
    path = os.path.join(BUILD, "overlay-skew.json" if skew else "overlay.json")
    tmp = path + ".%d.tmp" % os.getpid()
    with open(tmp, "w") as fh:
        json.dump({"Replace": rep}, fh, indent=0)
    os.replace(tmp, path)
    return path


def build(binary, race=False, skew=False):
    """(Re)build harness binary `binary` against the current /repo tree.
    skew=True: the same binary with a wall clock that VERIF_TIME_SKEW_SEC shifts (time.Now patched through the overlay)."""
    os.makedirs(BUILD, exist_ok=True)
    out = os.path.join(BUILD, binary + ("-race" if race else "") + ("-skew" if skew else ""))
    with open(os.path.join(BUILD, ".lock"), "w") as lk:
        fcntl.flock(lk, fcntl.LOCK_EX)
        ov = gen_overlay(skew)
        if ov is None:
            return None, 0.0
        cmd = ["go", "build", "-tags", "verif", "-overlay", ov, "-o", out]
        if race:
            cmd.append("-race")
        cmd.append("./zzverif/" + binary + "/")
        t0 = time.time()
        p = subprocess.run(cmd, cwd=REPO, env=goenv(), stdout=subprocess.PIPE, stderr=subprocess.STDOUT, text=True)
        if p.returncode != 0:
            print(p.stdout[-6000:])
            return None, time.time() - t0
    return out, time.time() - t0


def load_known():
    p = os.path.join(VERIF, "known_findings.json")
    if not os.path.exists(p):
        return []
    with open(p) as fh:
        return json.load(fh).get("findings", [])


def match_known(known, prop, sig):
    for k in known:
        if k.get("property") != prop or k.get("status") != "known":
            continue
        m = k.get("match", {})
        if all(sig.get(a) == b for a, b in m.items()):
            return k
    return None


def run_shards(prop, cfg, tier, seed, binpath, replay=None, extra_env=None, sub=""):
    nsh = 1 if replay else cfg["shards"][tier]
    ldir = os.path.join(LOGS, prop + sub)
    os.makedirs(ldir, exist_ok=True)
    for f in os.listdir(ldir):
        try:
            os.remove(os.path.join(ldir, f))
        except OSError:
            pass
    procs = []
    for i in range(nsh):
        env = dict(os.environ)
        env.update({"VERIF_SEED": str(seed), "VERIF_TIER": tier, "VERIF_SHARD": str(i), "VERIF_NSHARDS": str(nsh),
                    "VERIF_OUT": os.path.join(ldir, "shard-%d.json" % i), "VERIF_LOGDIR": ldir})
        if extra_env:
            env.update(extra_env)
        if replay:
            env["VERIF_REPLAY_INDEX"] = str(replay["index"])
            env["VERIF_REPLAY_PART"] = replay["part"]
            env["VERIF_VERBOSE"] = "1"
        env.setdefault("GOMAXPROCS", str(cfg.get("gomaxprocs", 2)))
        # every history builds a fresh app; without a soft limit the collector lets each shard's heap double several
        # times (measured: 2.8 GB after two minutes, 1.25 GB with the limit, same work) and 16 shards exhaust the machine
        env.setdefault("GOMEMLIMIT", "2GiB")
        lf = open(os.path.join(ldir, "shard-%d.log" % i), "w")
        p = subprocess.Popen([binpath, prop], cwd=VERIF, env=env, stdout=lf, stderr=subprocess.STDOUT)
        procs.append((i, p, lf))
    deadline = time.time() + cfg["watchdog_s"][tier]
    results, problems = [], []
    for i, p, lf in procs:
        try:
            rc = p.wait(timeout=max(1, deadline - time.time()))
        except subprocess.TimeoutExpired:
            p.send_signal(3)  # SIGQUIT: goroutine dump into the shard log
            try:
                p.wait(timeout=20)
            except subprocess.TimeoutExpired:
                p.kill()
            rc = "watchdog"
        lf.close()
        rp = os.path.join(ldir, "shard-%d.json" % i)
        res = None
        if os.path.exists(rp):
            try:
                with open(rp) as fh:
                    res = json.load(fh)
            except Exception:
                res = None
        if res is not None:
            results.append(res)
        if rc == "watchdog":
            problems.append(("watchdog", i, "shard %d exceeded the %ds watchdog" % (i, cfg["watchdog_s"][tier])))
        elif isinstance(rc, int) and rc in (-9, -15):
            # killed from outside (out-of-memory killer, operator): says nothing about the property
            problems.append(("watchdog", i, "shard %d was killed by signal %d (out of memory on the machine?)" % (i, -rc)))
        elif rc != 0 or res is None or not res.get("done"):
            tail = ""
            try:
                with open(os.path.join(ldir, "shard-%d.log" % i)) as fh:
                    tail = fh.read()[-3000:]
            except OSError:
                pass
            problems.append(("crash", i, "shard %d exit=%s done=%s\n%s" % (i, rc, res and res.get("done"), tail)))
    return results, problems, nsh


def main():
    if len(sys.argv) < 3:
        print("usage: check <ID> quick|thorough | check <ID> --replay <file>")
        return 2
    prop = sys.argv[1]
    if prop not in PROPS:
        print("unknown property", prop)
        return 2
    cfg = PROPS[prop]
    replay = None
    if sys.argv[2] == "--replay":
        with open(sys.argv[3]) as fh:
            rj = json.load(fh)
        replay = rj["case"]
        tier = replay.get("tier", "quick")
        seed = int(replay.get("seed", 1))
    else:
        tier = sys.argv[2]
        if tier not in ("quick", "thorough"):
            tier = os.environ.get("VERIF_TIER", "quick")
        seed = int(os.environ.get("VERIF_SEED", "1") or "1")
    t0 = time.time()
    binpath, bt = build(cfg["binary"])
    if binpath is None:
        print("INCONCLUSIVE property=%s reason=build-failed" % prop)
        return 2
    results, problems, nsh = [], [], 0
    extra_env = None
    skew_note = None
    if cfg.get("skew"):
        sb, sbt = build(cfg["binary"], skew=True)
        bt += sbt
        if sb is None:
            skew_note = "wall-clock-skewed replica NOT run: the skewed build failed or the toolchain's time.Now does not look as expected"
        else:
            extra_env = {"VERIF_SKEW_BIN": sb}
    if not (replay and replay.get("binary") and replay["binary"] != cfg["binary"]):
        results, problems, nsh = run_shards(prop, cfg, tier, seed, binpath, replay, extra_env=extra_env)
    # a property may have a second part hosted by another binary (e.g. C17: scripted subscribers in
    # `pure`, the real hook chain in `appmon`)
    for extra in cfg.get("also", []):
        if replay and replay.get("binary") != extra["binary"]:
            continue
        b2, bt2 = build(extra["binary"])
        if b2 is None:
            print("INCONCLUSIVE property=%s reason=build-failed" % prop)
            return 2
        bt += bt2
        cfg2 = dict(cfg)
        cfg2["shards"] = extra["shards"]
        r2, p2, n2 = run_shards(prop, cfg2, tier, seed, b2, replay, sub="-" + extra["binary"])
        for r in r2:
            for v in r.get("violations") or []:
                v.setdefault("case", {})["binary"] = extra["binary"]
        results, problems, nsh = results + r2, problems + p2, nsh + n2
    race_info = None
    if not replay and cfg.get("race", {}).get(tier):
        race_info = run_race(prop, cfg, tier, seed)

    if race_info:
        results = results + race_info.get("results", [])
        problems = problems + race_info.get("problems", [])
    known = load_known()
    if skew_note:
        results.append({"notes": [skew_note]})
    evaluations = sum(r.get("evaluations", 0) for r in results)
    classes, counters, maxima, maxima_at, samples, notes = {}, {}, {}, {}, [], []
    rule = ""
    viols, known_hits, inconcl = [], {}, []
    for r in results:
        for k, v in (r.get("classes") or {}).items():
            classes[k] = classes.get(k, 0) + v
        for k, v in (r.get("counters") or {}).items():
            counters[k] = counters.get(k, 0) + v
        for k, v in (r.get("maxima") or {}).items():
            if k not in maxima or v > maxima[k]:
                maxima[k] = v
                maxima_at[k] = (r.get("maxima_at") or {}).get(k, "")
        for s in r.get("samples") or []:
            if len(samples) < 6:
                samples.append(s)
        for n in r.get("notes") or []:
            if n not in notes and len(notes) < 40:
                notes.append(n)
        if r.get("rule") and r["rule"] not in rule:
            rule = (rule + " || " if rule else "") + r["rule"]
        if r.get("inconclusive"):
            inconcl.append(r["inconclusive"])
        for v in r.get("violations") or []:
            k = match_known(known, prop, v.get("sig", {}))
            if k is not None:
                known_hits.setdefault(k["what"], 0)
                known_hits[k["what"]] += 1
            else:
                viols.append(v)
    if race_info:
        for v in race_info.get("violations", []):
            k = match_known(known, prop, v.get("sig", {}))
            if k is not None:
                known_hits.setdefault(k["what"], 0)
                known_hits[k["what"]] += 1
            else:
                viols.append(v)
        if race_info.get("inconclusive"):
            inconcl.append(race_info["inconclusive"])
        counters.update(race_info.get("counters", {}))
        notes.extend(race_info.get("notes", []))
    # crashed shard = the monitored code killed the process (fatal error, os.Exit) or the
    # harness is broken; either way not "held".
    for kind, i, msg in problems:
        if kind == "watchdog":
            inconcl.append(msg)
        else:
            viols.append({"check": "%s.shard_crash" % prop, "sig": {"check": "%s.shard_crash" % prop}, "detail": msg,
                          "case": {"prop": prop, "seed": seed, "tier": tier, "part": "?", "index": -1}})
    floor = cfg.get("floor", {}).get(tier, 2)
    if not replay and len(classes) < floor:
        inconcl.append("only %d distinct non-trivial classes observed, floor is %d" % (len(classes), floor))

    wall = time.time() - t0
    os.makedirs(os.path.join(VERIF, "replays"), exist_ok=True)
    vlines = []
    for n, v in enumerate(viols):
        rp = os.path.join(VERIF, "replays", "%s-%d-%s-%d.json" % (prop, seed, tier, n))
        with open(rp, "w") as fh:
            json.dump(v, fh, indent=1)
        vlines.append("VIOLATION property=%s replay=%s" % (prop, rp))
        print("  check=%s sig=%s\n  %s" % (v.get("check"), json.dumps(v.get("sig")), (v.get("detail") or "")[:1500]))
    for what, n in sorted(known_hits.items()):
        print("KNOWN-FINDING: property=%s %s (seen %d×)" % (prop, what, n))
    if replay:
        for l in vlines:
            print(l)
        print("replay: %d violation(s), %d known" % (len(viols), sum(known_hits.values())))
        return 1 if viols else 0

    top = sorted(classes.items(), key=lambda kv: -kv[1])
    ev = {
        "property_id": prop, "tier": tier, "seed": seed, "level": cfg.get("level", "exploration"),
        "coverage": {
            "evaluations": int(evaluations),
            "distinct_nontrivial": len(classes),
            "rule": rule or cfg.get("rule", ""),
            "samples": samples if samples else [{"note": "no sample recorded"}],
            "exhaustive": bool(cfg.get("exhaustive", {}).get(tier, False)),
            "class_histogram_top": dict(top[:60]),
            "class_histogram_rarest": dict(top[-15:]),
            "counters": counters,
            "observed_maxima": {k: {"value": maxima[k], "at": maxima_at.get(k, "")} for k in sorted(maxima)},
            "shards": nsh,
            "notes": notes,
            "known_findings_seen": known_hits,
            "verdict": "violated" if viols else ("inconclusive" if inconcl else "held"),
            "inconclusive_reasons": inconcl,
            "build_s": round(bt, 1),
        },
        "assumptions": cfg.get("assumptions", []),
        "wall_s": round(wall, 1),
        "violations": len(viols),
    }
    os.makedirs(os.path.join(VERIF, "evidence"), exist_ok=True)
    with open(os.path.join(VERIF, "evidence", prop + ".json"), "w") as fh:
        json.dump(ev, fh, indent=1, sort_keys=False)
        fh.write("\n")
    print("%s %s seed=%d shards=%d evaluations=%d distinct_nontrivial=%d violations=%d known=%d wall=%.0fs (build %.0fs)" % (
        prop, tier, seed, nsh, evaluations, len(classes), len(viols), sum(known_hits.values()), wall, bt))
    for l in vlines:
        print(l)
    if viols:
        return 1
    if inconcl:
        print("INCONCLUSIVE property=%s reason=%s" % (prop, "; ".join(inconcl)[:500]))
        return 2
    return 0


def run_race(prop, cfg, tier, seed):
    """Optional race-detector pass: same binary built with -race, own shard list."""
    import race_tier
    return race_tier.run(prop, cfg, tier, seed, build, run_shards, VERIF)


if __name__ == "__main__":
    sys.exit(main())
