#!/usr/bin/env python3
"""Import sub-agent output (/tmp/wt-out/<ID>/m<k>.diff + m<k>.md) into /verif/seeded/<ID>/m<k>/."""
import json
import os
import re
import shutil
import sys

VERIF = os.path.dirname(os.path.dirname(os.path.abspath(__file__)))
src_root = sys.argv[1] if len(sys.argv) > 1 else "/tmp/wt-out"
prefix = sys.argv[2] if len(sys.argv) > 2 else ""
for prop in sorted(os.listdir(src_root)):
    sd = os.path.join(src_root, prop)
    if not os.path.isdir(sd):
        continue
    for f in sorted(os.listdir(sd)):
        m = re.match(r"(m\d+)\.diff$", f)
        if not m:
            continue
        name = prefix + m.group(1)
        base = m.group(1)
        diff = open(os.path.join(sd, f)).read()
        if not diff.strip():
            continue
        dd = os.path.join(VERIF, "seeded", prop, name)
        if os.path.exists(os.path.join(dd, "patch.diff")):
            continue
        os.makedirs(dd, exist_ok=True)
        shutil.copy(os.path.join(sd, f), os.path.join(dd, "patch.diff"))
        md = os.path.join(sd, base + ".md")
        title = ""
        if os.path.exists(md):
            shutil.copy(md, os.path.join(dd, "demonstration.md"))
            for line in open(md):
                line = line.strip().lstrip("#").strip()
                if line:
                    title = line
                    break
        files = sorted(set(re.findall(r"^\+\+\+ b/(\S+)", diff, re.M)))
        json.dump({"property": prop, "name": name, "title": title[:300], "files": files, "source": "sub-agent given only the property text and a scratch worktree"},
                  open(os.path.join(dd, "meta.json"), "w"), indent=1)
        print("imported", prop, name, files)
