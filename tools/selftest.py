#!/usr/bin/env python3
"""Run the checks against the seeded breaking changes under /verif/seeded/<ID>/<name>/patch.diff.

Every change is applied to a scratch git worktree of /repo (never to /repo itself), a scratch
copy of /verif is pointed at it through VERIF_REPO, and the property's check is run.
Results go to seeded/<ID>/<name>/result-<tier>.json and selftest/RESULTS.md is rewritten.

usage: selftest.py [--tier quick|thorough] [--jobs N] [--only C01,C02/m3] [--seed S] [--redo]
"""
import argparse
import json
import os
import re
import shutil
import subprocess
import sys
import threading
import time
from queue import Queue, Empty

VERIF = os.path.dirname(os.path.dirname(os.path.abspath(__file__)))
REPO = "/repo"
ROOT = "/tmp/vst-%d" % os.getpid()


def sh(cmd, **kw):
    return subprocess.run(cmd, stdout=subprocess.PIPE, stderr=subprocess.STDOUT, text=True, **kw)


def slot_setup(k):
    d = os.path.join(ROOT, "s%d" % k)
    os.makedirs(d, exist_ok=True)
    repo = os.path.join(d, "repo")
    if not os.path.isdir(repo):
        p = sh(["git", "-C", REPO, "worktree", "add", "--detach", repo, "HEAD"])
        if p.returncode != 0:
            raise RuntimeError(p.stdout)
    else:
        sh(["git", "-C", repo, "checkout", "--detach", "-q", sh(["git", "-C", REPO, "rev-parse", "HEAD"]).stdout.strip()])
    return d


def sync_verif(d):
    v = os.path.join(d, "verif")
    os.makedirs(v, exist_ok=True)
    sh(["rsync", "-a", "--delete", "--exclude", "build", "--exclude", "logs", "--exclude", "replays", "--exclude", "evidence",
        "--exclude", ".git", "--exclude", "seeded", "--exclude", "selftest", VERIF + "/", v + "/"])
    return v


def run_one(d, prop, name, tier, seed, timeout):
    repo = os.path.join(d, "repo")
    sdir = os.path.join(VERIF, "seeded", prop, name)
    sh(["git", "-C", repo, "checkout", "--", "."])
    sh(["git", "-C", repo, "clean", "-fdq"])
    p = sh(["git", "-C", repo, "apply", "--whitespace=nowarn", os.path.join(sdir, "patch.diff")])
    res = {"property": prop, "mutation": name, "tier": tier, "seed": seed}
    if p.returncode != 0:
        res.update({"outcome": "patch_does_not_apply", "detail": p.stdout[-500:]})
        return res
    v = sync_verif(d)
    env = dict(os.environ)
    env.update({"VERIF_REPO": repo, "VERIF_SEED": str(seed)})
    t0 = time.time()
    # the property's own check first; a change whose trigger lies in another check's territory (e.g. it needs an
    # export/import, which only the C19 monitor performs) names that check in meta.json "also_check"
    checks_to_run = [prop]
    try:
        with open(os.path.join(sdir, "meta.json")) as fh:
            checks_to_run += [c for c in json.load(fh).get("also_check", []) if c != prop]
    except Exception:
        pass
    out, rc = "", 0
    for cid in checks_to_run:
        try:
            p = sh([os.path.join(v, "check"), cid, tier], env=env, timeout=timeout, cwd=v)
            o, r = p.stdout, p.returncode
        except subprocess.TimeoutExpired as e:
            o, r = (e.stdout or "") if isinstance(e.stdout, str) else "", "timeout"
        out += o
        if r == 1 and ("VIOLATION property=%s" % cid) in o:
            out = out.replace("VIOLATION property=%s" % cid, "VIOLATION property=%s" % prop) if cid != prop else out
            rc = 1
            res["detected_by_check"] = cid
            break
        if rc == 0:
            rc = r
    res["wall_s"] = round(time.time() - t0, 1)
    res["exit"] = rc
    checks = sorted(set(re.findall(r"^\s+check=(\S+)", out, re.M)))
    res["violated_checks"] = checks
    if "reason=build-failed" in out:
        res["outcome"] = "does_not_compile"
        res["detail"] = out[-1500:]
    elif rc == 1 and ("VIOLATION property=%s" % prop) in out:
        res["outcome"] = "detected"
        m = re.search(r"^\s+check=.*\n\s+(.*)", out, re.M)
        res["first_violation"] = (m.group(1)[:600] if m else "")
    elif rc == 0:
        res["outcome"] = "missed"
    else:
        res["outcome"] = "inconclusive"
        res["detail"] = out[-800:]
    sh(["git", "-C", repo, "checkout", "--", "."])
    return res


def main():
    ap = argparse.ArgumentParser()
    ap.add_argument("--tier", default="quick")
    ap.add_argument("--jobs", type=int, default=3)
    ap.add_argument("--only", default="")
    ap.add_argument("--seed", type=int, default=1)
    ap.add_argument("--redo", action="store_true")
    ap.add_argument("--timeout", type=int, default=3600)
    a = ap.parse_args()
    only = [x for x in a.only.split(",") if x]
    todo = []
    sroot = os.path.join(VERIF, "seeded")
    for prop in sorted(os.listdir(sroot)):
        pd = os.path.join(sroot, prop)
        if not os.path.isdir(pd):
            continue
        for name in sorted(os.listdir(pd)):
            if not os.path.exists(os.path.join(pd, name, "patch.diff")):
                continue
            if only and prop not in only and ("%s/%s" % (prop, name)) not in only:
                continue
            rp = os.path.join(pd, name, "result-%s.json" % a.tier)
            if os.path.exists(rp) and not a.redo:
                continue
            todo.append((prop, name))
    print("selftest: %d mutation(s), tier %s, %d job(s)" % (len(todo), a.tier, a.jobs))
    q = Queue()
    for t in todo:
        q.put(t)
    lock = threading.Lock()

    def worker(k):
        d = slot_setup(k)
        while True:
            try:
                prop, name = q.get_nowait()
            except Empty:
                return
            try:
                res = run_one(d, prop, name, a.tier, a.seed, a.timeout)
            except Exception as e:  # noqa
                res = {"property": prop, "mutation": name, "tier": a.tier, "outcome": "error", "detail": repr(e)}
            with open(os.path.join(sroot, prop, name, "result-%s.json" % a.tier), "w") as fh:
                json.dump(res, fh, indent=1)
                fh.write("\n")
            with lock:
                print("%s/%s %s: %s %s (%ss)" % (prop, name, a.tier, res.get("outcome"), ",".join(res.get("violated_checks", [])), res.get("wall_s")), flush=True)

    os.makedirs(ROOT, exist_ok=True)
    ths = [threading.Thread(target=worker, args=(k,)) for k in range(a.jobs)]
    for t in ths:
        t.start()
    for t in ths:
        t.join()
    # scratch worktrees are removed as soon as the run is over
    for k in range(a.jobs):
        repo = os.path.join(ROOT, "s%d" % k, "repo")
        if os.path.isdir(repo):
            sh(["git", "-C", REPO, "worktree", "remove", "--force", repo])
    shutil.rmtree(ROOT, ignore_errors=True)
    sh(["git", "-C", REPO, "worktree", "prune"])
    write_results()


def write_results():
    sroot = os.path.join(VERIF, "seeded")
    rows = []
    for prop in sorted(os.listdir(sroot)):
        pd = os.path.join(sroot, prop)
        if not os.path.isdir(pd):
            continue
        for name in sorted(os.listdir(pd)):
            md = os.path.join(pd, name)
            if not os.path.exists(os.path.join(md, "patch.diff")):
                continue
            meta = {}
            if os.path.exists(os.path.join(md, "meta.json")):
                with open(os.path.join(md, "meta.json")) as fh:
                    meta = json.load(fh)
            r = {}
            for tier in ("quick", "thorough"):
                rp = os.path.join(md, "result-%s.json" % tier)
                if os.path.exists(rp):
                    with open(rp) as fh:
                        r[tier] = json.load(fh)
            # keep meta.json's account of what was run in step with the latest results
            ran = []
            for tier in ("quick", "thorough"):
                if tier in r:
                    x = r[tier]
                    ran.append("tools/selftest.py --tier %s: patch applied to a scratch worktree of /repo, ./check %s %s against it -> %s%s" % (
                        tier, x.get("detected_by_check", prop), tier, x.get("outcome"),
                        (" (" + ", ".join(x.get("violated_checks", [])) + ")") if x.get("violated_checks") else ""))
            if meta and ran and meta.get("what_was_run") != ran:
                meta["what_was_run"] = ran
                with open(os.path.join(md, "meta.json"), "w") as fh:
                    json.dump(meta, fh, indent=1)
                    fh.write("\n")
            rows.append((prop, name, meta, r))
    os.makedirs(os.path.join(VERIF, "selftest"), exist_ok=True)
    with open(os.path.join(VERIF, "selftest", "RESULTS.md"), "w") as fh:
        fh.write("# Seeded breaking changes vs. checks\n\nGenerated by tools/selftest.py from seeded/*/*/result-*.json. Every change was applied to a scratch worktree of /repo, never to /repo.\n\n")
        fh.write("| property | change | files | what it breaks | quick | thorough | checks that fired |\n|---|---|---|---|---|---|---|\n")
        for prop, name, meta, r in rows:
            q = r.get("quick", {}).get("outcome", "-")
            t = r.get("thorough", {}).get("outcome", "-")
            chk = sorted(set(r.get("quick", {}).get("violated_checks", []) + r.get("thorough", {}).get("violated_checks", [])))
            fh.write("| %s | %s | %s | %s | %s | %s | %s |\n" % (prop, name, ", ".join(meta.get("files", [])), (meta.get("title", "") or "").replace("|", "/")[:160], q, t, ", ".join(chk)))
        n = len(rows)
        det = sum(1 for _, _, _, r in rows if "detected" in (r.get("quick", {}).get("outcome"), r.get("thorough", {}).get("outcome")))
        fh.write("\n%d changes, %d detected by at least one tier.\n" % (n, det))


if __name__ == "__main__":
    if len(sys.argv) > 1 and sys.argv[1] == "--results-only":
        write_results()
    else:
        main()
