"""Per-property run configuration (binary, shard counts, watchdogs, floors)."""


def P(binary, shards=(6, 16), watchdog=(1500, 14400), floor=(2, 2), **kw):
    d = {"binary": binary, "shards": {"quick": shards[0], "thorough": shards[1]},
         "watchdog_s": {"quick": watchdog[0], "thorough": watchdog[1]},
         "floor": {"quick": floor[0], "thorough": floor[1]}, "level": "exploration"}
    d.update(kw)
    return d


PROPS = {
    "C12": P("pure", shards=(8, 16), floor=(40, 40), gomaxprocs=4),
    "C13": P("pure", shards=(8, 16), floor=(20, 20), gomaxprocs=4),
    "C14": P("pure", shards=(8, 16), floor=(20, 20), gomaxprocs=4, exhaustive={"quick": False, "thorough": True}),
    "C15": P("pure", shards=(8, 16), floor=(10, 10)),
    "C16": P("pure", shards=(8, 16), floor=(10, 10)),
    "C17": P("pure", shards=(8, 16), floor=(10, 10), also=[{"binary": "appmon", "shards": {"quick": 2, "thorough": 8}}]),
    "C01": P("appmon", shards=(6, 16), floor=(10, 10)),
    "C02": P("appmon", shards=(6, 16), floor=(10, 10)),
    "C05": P("appmon", shards=(6, 16), floor=(10, 10)),
    "C03": P("appmon", shards=(6, 16), floor=(10, 10)),
    "C18": P("appmon", shards=(6, 16), floor=(6, 6)),
    "C11": P("appmon", shards=(6, 16), floor=(6, 6)),
    "C10": P("appmon", shards=(6, 16), floor=(6, 6)),
    "C09": P("appmon", shards=(6, 16), floor=(6, 6)),
    "C08": P("appmon", shards=(6, 16), floor=(10, 10)),
    "C07": P("appmon", shards=(6, 16), floor=(10, 10)),
    "C06": P("appmon", shards=(6, 16), floor=(10, 10)),
    "C04": P("pure", shards=(8, 16), floor=(20, 20), also=[{"binary": "appmon", "shards": {"quick": 3, "thorough": 8}}]),
    "C20": P("appmon", shards=(6, 16), floor=(30, 30)),
    "C19": P("appmon", shards=(3, 4), floor=(10, 10), watchdog=(2400, 14400), race={"quick": 1, "thorough": 2}, skew=True),
}
