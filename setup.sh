#!/bin/sh
# setup_cmd: offline; warms the Go build cache for the monitor binaries (every check rebuilds anyway).
cd "$(dirname "$0")" || exit 1
export GOPROXY=off GOSUMDB=off GOTOOLCHAIN=local GOFLAGS=
python3 - <<'PY'
import sys
sys.path.insert(0, "tools")
import run_check
from props import PROPS
ok = True
for b in sorted({p["binary"] for p in PROPS.values()}):
    out, t = run_check.build(b)
    print("built", b, out, "%.0fs" % t)
    ok = ok and out is not None
# C19's extra builds: the race-detector build and the build with a shiftable wall clock (a failure of the
# latter only means that the skewed replica is not run)
out, t = run_check.build("appmon", race=True)
print("built appmon -race", out, "%.0fs" % t)
ok = ok and out is not None
out, t = run_check.build("appmon", skew=True)
print("built appmon (skewed clock)", out, "%.0fs" % t)
sys.exit(0 if ok else 1)
PY
