//go:build verif

package main

// C08 — spread rewards and incentives reach exactly the liquidity that earned them.
// Metamorphic relations inside one history (twin positions, a k× position, a position the
// price never enters), ledger totals, and reward preservation across position operations.

import (
	"fmt"
	"math/big"
	"time"

	sdkmath "cosmossdk.io/math"
	sdk "github.com/cosmos/cosmos-sdk/types"

	cltypes "github.com/osmosis-labs/osmosis/v31/x/concentrated-liquidity/types"
	"github.com/osmosis-labs/osmosis/v31/zzverif/chain"
	"github.com/osmosis-labs/osmosis/v31/zzverif/vk"
)

type c08State struct {
	twinA, twinB, triple, far uint64
	k                         int64
	planted                   bool
	plantAt                   int
	st01                      *c01State // reuse of the dust accounting
}

func c08Claimable(w *clWorld, ctx sdk.Context, id uint64) (sdk.Coins, sdk.Coins, error) {
	k := w.ch.App.ConcentratedLiquidityKeeper
	sr, err := k.GetClaimableSpreadRewards(ctx, id)
	if err != nil {
		return nil, nil, err
	}
	ci, _, err := k.GetClaimableIncentives(ctx, id)
	if err != nil {
		return nil, nil, err
	}
	return sr, ci, nil
}

// transfersFrom sums the coins the message moved out of the given account to anybody (bank events).
func transfersFrom(res chain.ExecResult, from string) sdk.Coins {
	out := sdk.NewCoins()
	for _, ev := range res.Events {
		if ev.Type != "transfer" {
			continue
		}
		snd, amt := ev.Attr("sender"), ev.Attr("amount")
		if snd != from {
			continue
		}
		if coins, err := sdk.ParseCoinsNormalized(amt); err == nil {
			out = out.Add(coins...)
		}
	}
	return out
}

func coinsWithin(a, b sdk.Coins, tol int64) (string, bool) {
	denoms := map[string]bool{}
	for _, c := range a {
		denoms[c.Denom] = true
	}
	for _, c := range b {
		denoms[c.Denom] = true
	}
	for d := range denoms {
		diff := a.AmountOf(d).Sub(b.AmountOf(d)).Abs()
		if diff.GT(sdkmath.NewInt(tol)) {
			return d, false
		}
	}
	return "", true
}

func runC08(c *vk.Ctx) {
	c.R.Rule = "cases = the common concentrated-liquidity histories (swap-heavy, all uptimes in half of them, both sides of the accumulator migration) in which, at a seed-chosen point, four probe positions are planted in one block: twins A and B (identical range and tokens, different owners), a k× position (k ∈ 2..9) and a position in a range the price has not visited; the random operations leave the probes alone. After every operation: twins' claimable spread rewards and incentives must be identical; the k× position's within the truncation allowance of the liquidity ratio; the never-in-range position's zero; Σ claimed + Σ claimable vs fees paid in + incentives funded (never above, short only by the computed dust bound); incentives of positions younger than every incentive record's uptime zero. Around every claim / add / partial withdraw / transfer of any other position: claimed + still-claimable is preserved within one unit per denom per accumulator. Emission per incentive record: never more than rate x time with active liquidity, and — once the pool is synchronised to now on a discarded branch — at least rate x (time with at least one unit of active liquidity since the record's start) or everything it had (not asserted after governance has changed the authorised uptimes). distinct_nontrivial counts distinct (operation, probes planted?, twins earning spread?, twins earning incentives?, far still untouched?, preservation outcome) tuples."
	nHist := c.N(800, 6400)
	opsPer := c.N(50, 150)
	var s *c08State
	hooks := clHooks{}
	hooks.protect = func(p *clPos) bool {
		return p.tag == "twinA" || p.tag == "twinB" || p.tag == "triple" || p.tag == "far"
	}
	hooks.beforeSwap = func(w *clWorld, zfo, exactIn bool, amount sdkmath.Int) func(clSwapRec) {
		if s == nil {
			return nil
		}
		st := clReadState(w, w.ch.Ctx)
		if st == nil {
			return nil
		}
		wk := st.walk(zfo, exactIn, amount.BigInt())
		return func(rec clSwapRec) {
			if !rec.executed {
				return
			}
			din := w.d0
			if !zfo {
				din = w.d1
			}
			if s.st01.feeDustBound[din] == nil {
				s.st01.feeDustBound[din] = new(big.Rat)
			}
			sf := big.NewRat(1, 1)
			if w.scaled {
				sf = new(big.Rat).SetInt(new(big.Int).Exp(big.NewInt(10), big.NewInt(27), nil))
			}
			for _, x := range wk.steps {
				d := new(big.Rat).Quo(new(big.Rat).Mul(x.L, big.NewRat(1, 1e18)), sf)
				s.st01.feeDustBound[din].Add(s.st01.feeDustBound[din], d.Add(d, big.NewRat(2, 1)))
			}
			s.st01.feeDustBound[din].Add(s.st01.feeDustBound[din], big.NewRat(2, 1))
		}
	}
	hooks.aroundPosOp = func(w *clWorld, p *clPos, op string) func(chain.ExecResult, uint64) {
		ctx := w.ch.Ctx
		sr0, ci0, err := c08Claimable(w, ctx, p.id)
		if err != nil {
			return nil
		}
		_, forf0, _ := w.ch.App.ConcentratedLiquidityKeeper.GetClaimableIncentives(ctx, p.id)
		pool := w.pool()
		// liquidity of everybody else that is active right now: when it is below 1 the code hands forfeited
		// (not yet matured) incentives to the leaving owner instead of re-depositing them — the statement's
		// "while other liquidity is active" exception
		othersActive := pool.GetLiquidity()
		if p.lower <= pool.GetCurrentTick() && pool.GetCurrentTick() < p.upper {
			othersActive = othersActive.Sub(p.liq)
		}
		sprAddr, incAddr := pool.GetSpreadRewardsAddress().String(), pool.GetIncentivesAddress().String()
		mass0, massOK0 := c08IncentiveMass(w)
		liq0 := pool.GetLiquidity()
		return func(res chain.ExecResult, idAfter uint64) {
			c.Eval(1)
			paidS, paidI := transfersFrom(res, sprAddr), transfersFrom(res, incAddr)
			// pool-wide: what the operation takes away from one position (forfeits included) must show up as a payment
			// or with the other positions — it cannot vanish, and nothing can appear from nowhere
			if mass1, ok1 := c08IncentiveMass(w); massOK0 && ok1 && res.OK() {
				mass1 = mass1.Add(sdk.NewDecCoinsFromCoins(paidI...)...)
				lq := liq0
				if l1 := w.pool().GetLiquidity(); l1.GT(lq) {
					lq = l1
				}
				per := new(big.Rat).SetFrac(lq.BigInt(), pow10(36)) // L x 1e-18 token units per truncated growth
				if w.scaledIncent {
					per.Quo(per, new(big.Rat).SetInt(pow10(27)))
				}
				nUp := int64(len(cltypes.SupportedUptimes))
				bound := new(big.Rat).Mul(per, big.NewRat(nUp+1, 1))
				bound.Add(bound, big.NewRat(2*nUp*int64(len(w.pos)+2)+4, 1))
				denoms := map[string]bool{}
				for _, cn := range mass0 {
					denoms[cn.Denom] = true
				}
				for _, cn := range mass1 {
					denoms[cn.Denom] = true
				}
				for d := range denoms {
					diff := new(big.Rat).SetFrac(mass1.AmountOf(d).Sub(mass0.AmountOf(d)).BigInt(), pow10(18))
					ad := new(big.Rat).Abs(diff)
					rf, _ := new(big.Rat).Quo(ad, bound).Float64()
					c.Max("incentive_mass_change_over_bound", rf, fmt.Sprintf("%s on position %d: %s%s bound %s", op, p.id, diff.FloatString(3), d, bound.FloatString(1)))
					if ad.Cmp(bound) > 0 {
						c.Violate("C08.incentive_mass", map[string]any{"op": op, "lost": diff.Sign() < 0}, "%s on position %d: claimable + not-yet-matured + undistributed incentives of the whole pool, plus what the message paid out, changed by %s%s (truncation allowance %s): incentives were lost or created by the operation", op, p.id, diff.FloatString(3), d, bound.FloatString(1))
						return
					}
				}
				c.Class("incentive-mass|%s|nonzero%v", op, !mass0.IsZero())
			}
			sr1, ci1 := sdk.NewCoins(), sdk.NewCoins()
			if idAfter != 0 {
				var e error
				sr1, ci1, e = c08Claimable(w, w.ch.Ctx, idAfter)
				if e != nil {
					c.Violate("C08.claimable_query", map[string]any{"op": op}, "claimable query fails after %s on position %d: %v", op, idAfter, e)
					return
				}
			}
			sig := map[string]any{"op": op}
			nUp := int64(len(cltypes.SupportedUptimes))
			if d, ok := coinsWithin(sr0, paidS.Add(sr1...), 1); !ok {
				sig["kind"] = "spread"
				c.Violate("C08.rewards_preserved", sig, "%s on position %d: claimable spread rewards before %s, paid out by the message %s + still claimable %s (denom %s off by more than 1)", op, p.id, sr0, paidS, sr1, d)
				return
			}
			// adding to a position re-creates it (new join time): incentives that had matured are paid out, the
			// rest is forfeited by design; matured ones must be preserved
			_, okStrict := coinsWithin(ci0, paidI.Add(ci1...), nUp)
			if !okStrict && othersActive.LT(sdkmath.LegacyOneDec()) {
				// nobody else is active: matured + forfeited may be paid to the owner
				_, okStrict = coinsWithin(ci0.Add(forf0...), paidI.Add(ci1...), 2*nUp)
				if okStrict {
					c.Class("preserve|%s|forfeits-to-owner-no-other-liquidity", op)
				}
			}
			if d, _ := coinsWithin(ci0, paidI.Add(ci1...), nUp); !okStrict {
				// more than before is only possible through forfeits of *other* uptimes being re-deposited and re-earned
				// in the same message by the same position; that cannot exceed what was forfeited — treat any excess as a violation
				sig["kind"] = "incentives"
				c.Violate("C08.rewards_preserved", sig, "%s on position %d: claimable incentives before %s, paid out by the message %s + still claimable %s (denom %s off by more than %d)", op, p.id, ci0, paidI, ci1, d, nUp)
				return
			}
			c.Class("preserve|%s|spread%v|inc%v", op, !sr0.IsZero(), !ci0.IsZero())
		}
	}
	hooks.afterOp = func(w *clWorld, op string) bool {
		if op == "create-first" || s == nil {
			s = &c08State{k: 2 + w.r.I64n(8), plantAt: 2 + w.r.Intn(12), st01: &c01State{feeDustBound: map[string]*big.Rat{}}}
		}
		switch op {
		case "create", "create-first", "add", "withdraw", "transfer":
			s.st01.lpOps++
		case "collect-spread", "collect-incentives":
			s.st01.claims++
		}
		if !s.planted && w.nSteps >= s.plantAt && len(w.pos) > 0 {
			c08Plant(c, w, s)
		}
		if !c08EmissionBound(c, w, op) {
			return false
		}
		return c08Check(c, w, s, op)
	}
	runCLHistories(c, "rewards", nHist, opsPer, hooks, nil)
}

func c08Plant(c *vk.Ctx, w *clWorld, s *c08State) {
	s.planted = true
	r := w.r
	cur := w.pool().GetCurrentTick()
	sp := w.spacing
	lo, hi := w.clampTicks(roundDown(cur, sp)-sp*(1+r.I64n(400)), roundDown(cur, sp)+sp*(1+r.I64n(400)))
	a0, a1 := w.amount(6, 20), w.amount(6, 20)
	w.c.Logf("planting fairness probes (k=%d)", s.k)
	pa, _ := w.createPosition(1, lo, hi, a0, a1, "twinA")
	pb, _ := w.createPosition(2, lo, hi, a0, a1, "twinB")
	pt, _ := w.createPosition(3, lo, hi, a0.MulRaw(s.k), a1.MulRaw(s.k), "triple")
	if pa != nil {
		s.twinA = pa.id
	}
	if pb != nil {
		s.twinB = pb.id
	}
	if pt != nil {
		s.triple = pt.id
	}
	// a range far away from everything the price has visited: at the far end of the tick range on the
	// side away from the current tick
	var flo, fhi int64
	if cur < 100000000 {
		fhi = roundDown(cltypes.MaxTick, sp)
		flo = fhi - sp*(1+r.I64n(100))
	} else {
		flo = roundDown(cltypes.MinInitializedTick+sp-1, sp)
		fhi = flo + sp*(1+r.I64n(100))
	}
	a0f, a1f := w.amount(3, 18), sdkmath.ZeroInt()
	if flo < cur {
		a0f, a1f = sdkmath.ZeroInt(), w.amount(3, 18)
	}
	if pf, _ := w.createPosition(0, flo, fhi, a0f, a1f, "far"); pf != nil {
		s.far = pf.id
		pf.everIn = false
	}
	if pa != nil {
		pa.everIn = pa.lower <= cur && cur < pa.upper
	}
	s.st01.lpOps += 4
}

func c08Check(c *vk.Ctx, w *clWorld, s *c08State, op string) bool {
	ctx := w.ch.Ctx
	sig := func() map[string]any { return map[string]any{"op": op} }
	k := w.ch.App.ConcentratedLiquidityKeeper
	twinsSpread, twinsInc, farOK := false, false, true
	if s.planted && w.pos[s.twinA] != nil && w.pos[s.twinB] != nil {
		srA, ciA, e1 := c08Claimable(w, ctx, s.twinA)
		srB, ciB, e2 := c08Claimable(w, ctx, s.twinB)
		c.Eval(1)
		if e1 != nil || e2 != nil {
			c.Violate("C08.claimable_query", sig(), "claimable queries fail for the twins: %v %v", e1, e2)
			return false
		}
		pa, pb := w.pos[s.twinA], w.pos[s.twinB]
		if pa.liq.Equal(pb.liq) {
			if !srA.Equal(srB) {
				c.Violate("C08.twins_differ", map[string]any{"op": op, "kind": "spread"}, "after %s: twin positions %d and %d (same range [%d,%d), same liquidity %s, same block) can claim different spread rewards: %s vs %s", op, s.twinA, s.twinB, pa.lower, pa.upper, pa.liq, srA, srB)
				return false
			}
			if !ciA.Equal(ciB) {
				c.Violate("C08.twins_differ", map[string]any{"op": op, "kind": "incentives"}, "after %s: twin positions %d and %d can claim different incentives: %s vs %s", op, s.twinA, s.twinB, ciA, ciB)
				return false
			}
		}
		twinsSpread, twinsInc = !srA.IsZero(), !ciA.IsZero()
		if pt := w.pos[s.triple]; pt != nil {
			srT, ciT, e3 := c08Claimable(w, ctx, s.triple)
			if e3 != nil {
				c.Violate("C08.claimable_query", sig(), "claimable query fails for the k× position: %v", e3)
				return false
			}
			ratio := new(big.Rat).Quo(ratD(pt.liq), ratD(pa.liq))
			chk := func(kind string, t, a sdk.Coins, accums int64) bool {
				denoms := map[string]bool{}
				for _, x := range t {
					denoms[x.Denom] = true
				}
				for _, x := range a {
					denoms[x.Denom] = true
				}
				for d := range denoms {
					// each accumulator truncates once: t_i = ⌊g_i·L_t⌋, a_i = ⌊g_i·L_a⌋ ⇒ |t_i − ratio·a_i| < ratio + 1
					want := new(big.Rat).Mul(ratio, new(big.Rat).SetInt(a.AmountOf(d).BigInt()))
					diff := new(big.Rat).Sub(new(big.Rat).SetInt(t.AmountOf(d).BigInt()), want)
					diff.Abs(diff)
					tol := new(big.Rat).Mul(new(big.Rat).Add(ratio, big.NewRat(1, 1)), big.NewRat(accums, 1))
					tol.Add(tol, big.NewRat(1, 1))
					if diff.Cmp(tol) > 0 {
						c.Violate("C08.proportionality", map[string]any{"op": op, "kind": kind}, "after %s: position %d holds %s× the liquidity of position %d (same range, same block) but can claim %s%s vs %s%s (expected %s ± %s)", op, s.triple, ratio.FloatString(6), s.twinA, t.AmountOf(d), d, a.AmountOf(d), d, want.FloatString(3), tol.FloatString(3))
						return false
					}
				}
				return true
			}
			if !chk("spread", srT, srA, 1) || !chk("incentives", ciT, ciA, int64(len(cltypes.SupportedUptimes))) {
				return false
			}
		}
	}
	if pf := w.pos[s.far]; s.planted && pf != nil {
		if !pf.everIn {
			sr, ci, err := c08Claimable(w, ctx, s.far)
			c.Eval(1)
			if err != nil {
				c.Violate("C08.claimable_query", sig(), "claimable query fails for the out-of-range position: %v", err)
				return false
			}
			if !sr.IsZero() || !ci.IsZero() {
				c.Violate("C08.never_in_range_earned", sig(), "after %s: position %d on [%d,%d) — a range the price never entered (current tick %d) — can claim spread rewards %s / incentives %s", op, s.far, pf.lower, pf.upper, w.pool().GetCurrentTick(), sr, ci)
				return false
			}
		} else {
			farOK = false
		}
	}
	// totals: everything ever claimed + everything claimable now never exceeds what was paid in
	sumS, sumI := sdk.NewCoins(), sdk.NewCoins()
	now := ctx.BlockTime()
	poolLiq := sdkmath.LegacyZeroDec()
	if len(w.pos) > 0 {
		poolLiq = w.pool().GetLiquidity()
	}
	for _, p := range w.sortedPos() {
		sr, ci, err := c08Claimable(w, ctx, p.id)
		if err != nil {
			c.Violate("C08.claimable_query", sig(), "claimable query fails for position %d: %v", p.id, err)
			return false
		}
		sumS = sumS.Add(sr...)
		sumI = sumI.Add(ci...)
		// uptime: a position younger than every incentive record's uptime cannot have matured incentives
		if w.minIncentUptime > time.Nanosecond && now.Sub(p.join) < w.minIncentUptime && !ci.IsZero() {
			others := poolLiq
			if p.lower <= w.pool().GetCurrentTick() && w.pool().GetCurrentTick() < p.upper {
				others = poolLiq.Sub(p.liq)
			}
			if others.GTE(sdkmath.LegacyOneDec()) {
				c.Violate("C08.uptime_not_met", sig(), "after %s: position %d is %s old, every incentive record so far requires an uptime of at least %s, yet it can claim incentives %s", op, p.id, now.Sub(p.join), w.minIncentUptime, ci)
				return false
			}
		}
	}
	c.Eval(1)
	totS := w.spreadClaimed.Add(sumS...)
	if !w.feesPaid.IsAllGTE(totS) {
		c.Violate("C08.claims_exceed_paid_in", map[string]any{"op": op, "kind": "spread"}, "after %s: spread rewards claimed so far %s + claimable now %s exceed what swappers paid into the spread-reward account %s", op, w.spreadClaimed, sumS, w.feesPaid)
		return false
	}
	totI := w.incentClaimed.Add(sumI...)
	if !w.incentFunded.IsAllGTE(totI) {
		c.Violate("C08.claims_exceed_paid_in", map[string]any{"op": op, "kind": "incentives"}, "after %s: incentives claimed so far %s + claimable now %s exceed what was funded %s", op, w.incentClaimed, sumI, w.incentFunded)
		return false
	}
	// shortfall of spread rewards only by the computed dust bound (as in C01), when some liquidity was always there to earn
	for _, cn := range w.feesPaid {
		short := cn.Amount.Sub(totS.AmountOf(cn.Denom))
		b := new(big.Rat)
		if s.st01.feeDustBound[cn.Denom] != nil {
			b.Set(s.st01.feeDustBound[cn.Denom])
		}
		b.Add(b, big.NewRat(2*(s.st01.claims+s.st01.lpOps+int64(len(w.pos)))+8, 1))
		b.Mul(b, big.NewRat(2, 1))
		rf, _ := new(big.Rat).Quo(new(big.Rat).SetInt(short.BigInt()), b).Float64()
		c.Max("spread_shortfall_over_bound", rf, fmt.Sprintf("short %s%s bound %s after %s", short, cn.Denom, b.FloatString(1), op))
		if rf > 1 {
			c.Violate("C08.rewards_lost", map[string]any{"op": op, "kind": "spread"}, "after %s: swappers paid %s into the spread-reward account but only %s was ever claimed or is claimable; the shortfall %s exceeds the rounding bound %s", op, cn, totS.AmountOf(cn.Denom), short, b.FloatString(1))
			return false
		}
	}
	_ = k
	c.Class("%s|planted%v|twinsSpread%v|twinsInc%v|farUntouched%v", op, s.planted, twinsSpread, twinsInc, farOK)
	return true
}

// c08EmissionBound: an incentive record can never have emitted more than rate x time since it was
// created ("incentives emitted over time"): emitted = funded amount - remaining amount of the record.
// The bound runs from the creation time, not the start time: emission is computed lazily per
// synchronisation interval, and a record with a delayed start is charged, at its first synchronisation
// after the start, for the whole interval since the previous one (which cannot reach back beyond the
// creation, because creating a record synchronises the pool).
func c08EmissionBound(c *vk.Ctx, w *clWorld, op string) bool {
	if len(w.incents) == 0 {
		return true
	}
	ctx := w.ch.Ctx
	recs, err := w.ch.App.ConcentratedLiquidityKeeper.GetAllIncentiveRecordsForPool(ctx, w.poolID)
	if err != nil {
		return true
	}
	now := ctx.BlockTime()
	// time with active liquidity: between two observations the active liquidity is constant (every operation that
	// changes it synchronises the accumulators first), and nothing is emitted while it is zero
	if w.liquidTime == nil {
		w.liquidTime = map[uint64]time.Duration{}
		w.liquidAfterStart = map[uint64]time.Duration{}
		w.incDust = map[string]*big.Rat{}
	}
	liqNow := w.pool().GetLiquidity()
	if !w.prevCheckTime.IsZero() && now.After(w.prevCheckTime) && !w.prevLiquidity.IsNil() && w.prevLiquidity.IsPositive() {
		for id, in := range w.incents {
			from := w.prevCheckTime
			if in.created.After(from) {
				from = in.created
			}
			if now.After(from) {
				w.liquidTime[id] += now.Sub(from)
			}
			if in.start.After(from) {
				from = in.start
			}
			// the module emits only while the active liquidity is at least one whole unit
			if now.After(from) && w.prevLiquidity.GTE(sdkmath.LegacyOneDec()) {
				w.liquidAfterStart[id] += now.Sub(from)
			}
		}
	}
	w.prevCheckTime, w.prevLiquidity = now, liqNow
	// lower bound ("incentives emitted over time"): once the pool is synchronised to now — done here on a discarded
	// branch — a record has emitted at least rate x (time with at least one unit of active liquidity since its start), or all it had.
	// Not asserted once governance has changed the authorised uptimes (records of a de-authorised uptime rest).
	if !w.uptimeGov && len(w.pos) > 0 {
		fctx := w.ch.Fork()
		ck := w.ch.App.ConcentratedLiquidityKeeper
		if err := ck.UpdatePoolUptimeAccumulatorsToNow(fctx, w.poolID); err == nil {
			if frecs, err := ck.GetAllIncentiveRecordsForPool(fctx, w.poolID); err == nil {
				for _, rec := range frecs {
					in, ok := w.incents[rec.IncentiveId]
					lt := w.liquidAfterStart[rec.IncentiveId]
					if !ok || lt <= 0 {
						continue
					}
					c.Eval(1)
					emitted := sdkmath.LegacyNewDecFromInt(in.amt).Sub(rec.IncentiveRecordBody.RemainingCoin.Amount)
					want := in.rate.MulInt64(int64(lt)).QuoInt64(1_000_000_000)
					if full := sdkmath.LegacyNewDecFromInt(in.amt); want.GT(full) {
						want = full
					}
					// per synchronisation the emitted amount is a truncated 18-decimal product: relative 1e-9 and two units cover it
					floor := want.Mul(sdkmath.LegacyMustNewDecFromStr("0.999999999")).Sub(sdkmath.LegacyNewDec(2))
					if emitted.LT(floor) {
						c.Violate("C08.not_emitted", map[string]any{"op": op}, "after %s: incentive record %d (%s%s at %s/s, started %s) has emitted only %s once the pool is synchronised to now, although the pool has had active liquidity for %s since the record started: rate x time = %s", op, rec.IncentiveId, in.amt, in.denom, in.rate, in.start, emitted, lt, want)
						return false
					}
				}
			}
		}
	}
	sumRemaining := sdk.NewDecCoins()
	for _, rec := range recs {
		in, ok := w.incents[rec.IncentiveId]
		if !ok {
			continue
		}
		c.Eval(1)
		remaining := rec.IncentiveRecordBody.RemainingCoin.Amount
		sumRemaining = sumRemaining.Add(sdk.NewDecCoinFromDec(in.denom, remaining))
		emitted := sdkmath.LegacyNewDecFromInt(in.amt).Sub(remaining)
		// nothing is emitted while the pool has no active liquidity
		if lt, seen := w.liquidTime[rec.IncentiveId]; seen || emitted.IsPositive() {
			lb := in.rate.MulInt64(int64(lt)).QuoInt64(1_000_000_000).Add(sdkmath.LegacyOneDec())
			if emitted.GT(lb) {
				c.Violate("C08.emitted_without_liquidity", map[string]any{"op": op}, "after %s: incentive record %d (%s%s at %s/s) has emitted %s although the pool had active liquidity for only %s since the record was created: rate x time with liquidity = %s", op, rec.IncentiveId, in.amt, in.denom, in.rate, emitted, lt, lb)
				return false
			}
		}
		elapsed := now.Sub(in.created)
		bound := sdkmath.LegacyZeroDec()
		if elapsed > 0 {
			// rate x seconds, rounded up, plus one unit for the per-sync truncations
			bound = in.rate.MulInt64(int64(elapsed)).QuoInt64(1_000_000_000).Add(sdkmath.LegacyOneDec())
		}
		if emitted.GT(bound) {
			c.Violate("C08.emitted_more_than_rate_times_time", map[string]any{"op": op}, "after %s: incentive record %d (%s%s at %s/s, created %s before now) has emitted %s, more than rate x time since creation = %s", op, rec.IncentiveId, in.amt, in.denom, in.rate, elapsed, emitted, bound)
			return false
		}
		if emitted.IsPositive() {
			c.Class("emission-bound|emitted-fraction-%d/4", emitted.MulInt64(4).Quo(sdkmath.LegacyNewDecFromInt(in.amt)).TruncateInt64())
		}
	}
	return true
}

// c08IncentiveMass: on a discarded branch synchronised to the current block time, everything the pool's incentive
// account owes or still holds for distribution: per position claimable + forfeitable (not yet matured), plus what
// is left in the incentive records.
func c08IncentiveMass(w *clWorld) (sdk.DecCoins, bool) {
	if len(w.pos) == 0 {
		return nil, false
	}
	cctx := w.ch.Fork()
	ck := w.ch.App.ConcentratedLiquidityKeeper
	if err := ck.UpdatePoolUptimeAccumulatorsToNow(cctx, w.poolID); err != nil {
		return nil, false
	}
	mass := sdk.NewDecCoins()
	for _, p := range w.sortedPos() {
		ci, forf, err := ck.GetClaimableIncentives(cctx, p.id)
		if err != nil {
			return nil, false
		}
		mass = mass.Add(sdk.NewDecCoinsFromCoins(ci...)...).Add(sdk.NewDecCoinsFromCoins(forf...)...)
	}
	recs, err := ck.GetAllIncentiveRecordsForPool(cctx, w.poolID)
	if err != nil {
		return nil, false
	}
	for _, rec := range recs {
		mass = mass.Add(sdk.NewDecCoinFromDec(rec.IncentiveRecordBody.RemainingCoin.Denom, rec.IncentiveRecordBody.RemainingCoin.Amount))
	}
	return mass, true
}
