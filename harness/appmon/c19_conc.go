//go:build verif

package main

// Concurrent side load for the C19 race tier: while the main goroutine drives
// FinalizeBlock/Commit, other goroutines use the node the way CometBFT's other ABCI
// connections and the gRPC server do — CheckTx and Simulate on the mempool/query
// connection (never during Commit, the mempool is locked then), gRPC queries at the
// latest committed height at any time. The binary is built with -race; the race log is
// parsed by tools/race_tier.py.

import (
	"sync"
	"sync/atomic"
	"time"

	abci "github.com/cometbft/cometbft/abci/types"
	"github.com/cosmos/gogoproto/proto"
	banktypes "github.com/cosmos/cosmos-sdk/x/bank/types"

	clquery "github.com/osmosis-labs/osmosis/v31/x/concentrated-liquidity/client/queryproto"
	gammtypes "github.com/osmosis-labs/osmosis/v31/x/gamm/types"
	incentivestypes "github.com/osmosis-labs/osmosis/v31/x/incentives/types"
	lockuptypes "github.com/osmosis-labs/osmosis/v31/x/lockup/types"
	pmquery "github.com/osmosis-labs/osmosis/v31/x/poolmanager/client/queryproto"
	poolmanagertypes "github.com/osmosis-labs/osmosis/v31/x/poolmanager/types"
	twapquery "github.com/osmosis-labs/osmosis/v31/x/twap/client/queryproto"
	"github.com/osmosis-labs/osmosis/v31/zzverif/chain"
	"github.com/osmosis-labs/osmosis/v31/zzverif/vk"
)

type c19Side struct {
	ch       *chain.Chain
	stop     atomic.Bool
	wg       sync.WaitGroup
	nQuery   atomic.Int64
	nQueryOK atomic.Int64
	nCheck   atomic.Int64
	nSim     atomic.Int64
	// txs of the block being finalized, handed to the mempool-connection goroutine
	mu      sync.Mutex
	pending [][]byte
	mempool sync.WaitGroup
	nowNs   atomic.Int64
}

type c19Q struct {
	path string
	msg  proto.Message
}

func (s *c19Side) queries(r *vk.Rng) []c19Q {
	accs := s.ch.Accs
	a := accs[r.Intn(len(accs))].Addr.String()
	pool := uint64(1 + r.Intn(4))
	pairs := map[uint64][2]string{1: {"uosmo", "foo"}, 2: {"bar", "foo"}, 3: {"bar", "uosmo"}, 4: {"uosmo", "baz"}}
	p := pairs[pool]
	return []c19Q{
		{"/osmosis.poolmanager.v1beta1.Query/SpotPrice", &pmquery.SpotPriceRequest{PoolId: pool, BaseAssetDenom: p[0], QuoteAssetDenom: p[1]}},
		{"/osmosis.poolmanager.v1beta1.Query/EstimateSwapExactAmountIn", &pmquery.EstimateSwapExactAmountInRequest{PoolId: pool, TokenIn: "100000" + p[0], Routes: []poolmanagertypes.SwapAmountInRoute{{PoolId: pool, TokenOutDenom: p[1]}}}},
		{"/osmosis.poolmanager.v1beta1.Query/AllPools", &pmquery.AllPoolsRequest{}},
		{"/osmosis.poolmanager.v1beta1.Query/TotalLiquidity", &pmquery.TotalLiquidityRequest{}},
		{"/osmosis.poolmanager.v1beta1.Query/TotalVolumeForPool", &pmquery.TotalVolumeForPoolRequest{PoolId: pool}},
		{"/osmosis.poolmanager.v1beta1.Query/TradingPairTakerFee", &pmquery.TradingPairTakerFeeRequest{Denom_0: p[0], Denom_1: p[1]}},
		{"/osmosis.gamm.v1beta1.Query/Pool", &gammtypes.QueryPoolRequest{PoolId: 1}},
		{"/osmosis.gamm.v1beta1.Query/TotalShares", &gammtypes.QueryTotalSharesRequest{PoolId: 1}},
		{"/osmosis.concentratedliquidity.v1beta1.Query/UserPositions", &clquery.UserPositionsRequest{Address: a, PoolId: 3}},
		{"/osmosis.concentratedliquidity.v1beta1.Query/LiquidityPerTickRange", &clquery.LiquidityPerTickRangeRequest{PoolId: 3}},
		{"/osmosis.concentratedliquidity.v1beta1.Query/ClaimableSpreadRewards", &clquery.ClaimableSpreadRewardsRequest{PositionId: uint64(1 + r.Intn(6))}},
		{"/osmosis.concentratedliquidity.v1beta1.Query/ClaimableIncentives", &clquery.ClaimableIncentivesRequest{PositionId: uint64(1 + r.Intn(6))}},
		{"/osmosis.lockup.Query/ModuleLockedAmount", &lockuptypes.ModuleLockedAmountRequest{}},
		{"/osmosis.lockup.Query/AccountLockedCoins", &lockuptypes.AccountLockedCoinsRequest{Owner: a}},
		{"/osmosis.lockup.Query/LockedDenom", &lockuptypes.LockedDenomRequest{Denom: "gamm/pool/1", Duration: time.Hour}},
		{"/osmosis.incentives.Query/Gauges", &incentivestypes.GaugesRequest{}},
		{"/osmosis.incentives.Query/ActiveGauges", &incentivestypes.ActiveGaugesRequest{}},
		{"/osmosis.incentives.Query/RewardsEst", &incentivestypes.RewardsEstRequest{Owner: a, EndEpoch: 3}},
		{"/osmosis.twap.v1beta1.Query/ArithmeticTwapToNow", &twapquery.ArithmeticTwapToNowRequest{PoolId: pool, BaseAsset: p[0], QuoteAsset: p[1], StartTime: time.Unix(0, s.nowNs.Load()).UTC().Add(-time.Minute)}},
		{"/cosmos.bank.v1beta1.Query/AllBalances", &banktypes.QueryAllBalancesRequest{Address: a}},
		{"/cosmos.bank.v1beta1.Query/SupplyOf", &banktypes.QuerySupplyOfRequest{Denom: "uosmo"}},
	}
}

func (s *c19Side) start(nQuery int, seed uint64) {
	for w := 0; w < nQuery; w++ {
		s.wg.Add(1)
		r := vk.NewRng(seed + uint64(w)*7919)
		go func() {
			defer s.wg.Done()
			for !s.stop.Load() {
				qs := s.queries(r)
				q := qs[r.Intn(len(qs))]
				bz, err := proto.Marshal(q.msg)
				if err != nil {
					continue
				}
				res, err := s.ch.App.Query(nil, &abci.RequestQuery{Path: q.path, Data: bz})
				s.nQuery.Add(1)
				if err == nil && res != nil && res.Code == 0 {
					s.nQueryOK.Add(1)
				}
			}
		}()
	}
}

// mempoolLoad checks and simulates the given transactions on another goroutine; the caller
// must waitMempool() before Commit.
func (s *c19Side) mempoolLoad(txs [][]byte) {
	s.mempool.Add(1)
	go func() {
		defer s.mempool.Done()
		for _, tx := range txs {
			func() {
				defer func() { recover() }()
				if _, _, err := s.ch.App.Simulate(tx); err == nil {
					s.nSim.Add(1)
				}
			}()
			if _, err := s.ch.App.CheckTx(&abci.RequestCheckTx{Tx: tx, Type: abci.CheckTxType_New}); err == nil {
				s.nCheck.Add(1)
			}
		}
	}()
}

func (s *c19Side) waitMempool() { s.mempool.Wait() }

func (s *c19Side) finish() {
	s.stop.Store(true)
	s.wg.Wait()
}
