//go:build verif

package main

// C18 — minting follows the emission schedule and every minted coin is allocated.
// Offline checker over the bank events of each mint-epoch block + minter / supply queries.

import (
	"fmt"
	"math/big"
	"time"

	sdkmath "cosmossdk.io/math"
	abci "github.com/cometbft/cometbft/abci/types"
	sdk "github.com/cosmos/cosmos-sdk/types"
	authtypes "github.com/cosmos/cosmos-sdk/x/auth/types"
	distrtypes "github.com/cosmos/cosmos-sdk/x/distribution/types"

	"github.com/osmosis-labs/osmosis/osmomath"
	minttypes "github.com/osmosis-labs/osmosis/v31/x/mint/types"
	poolincentivestypes "github.com/osmosis-labs/osmosis/v31/x/pool-incentives/types"
	"github.com/osmosis-labs/osmosis/v31/zzverif/chain"
	"github.com/osmosis-labs/osmosis/v31/zzverif/vk"
)

type bankMove struct {
	kind     string // transfer | coinbase | burn
	from, to string
	coins    sdk.Coins
}

// bankLedger reconstructs the bank movements of a block from its events.
func bankLedger(events []abci.Event) []bankMove {
	var out []bankMove
	for _, ev := range events {
		attr := func(k string) string {
			for _, a := range ev.Attributes {
				if a.Key == k {
					return a.Value
				}
			}
			return ""
		}
		switch ev.Type {
		case "transfer":
			cs, err := sdk.ParseCoinsNormalized(attr("amount"))
			if err == nil {
				out = append(out, bankMove{kind: "transfer", from: attr("sender"), to: attr("recipient"), coins: cs})
			}
		case "coinbase":
			cs, err := sdk.ParseCoinsNormalized(attr("amount"))
			if err == nil {
				out = append(out, bankMove{kind: "coinbase", to: attr("minter"), coins: cs})
			}
		case "burn":
			cs, err := sdk.ParseCoinsNormalized(attr("amount"))
			if err == nil {
				out = append(out, bankMove{kind: "burn", from: attr("burner"), coins: cs})
			}
		}
	}
	return out
}

func decTrunc(amt sdkmath.Int, ratio osmomath.Dec) sdkmath.Int {
	// ⌊amt · ratio⌋ exactly (ratio has 18 decimals)
	n := new(big.Int).Mul(amt.BigInt(), ratio.BigInt())
	return sdkmath.NewIntFromBigInt(n.Quo(n, big.NewInt(1e18)))
}

func runC18(c *vk.Ctx) {
	c.R.Rule = "cases = parameter sets (four proportions summing to one incl. zeros, reduction factor 0..1, reduction period 1..20, start epoch 0..5, 0..8 weighted developer receivers incl. empty-address entries and weights like 1/3 that truncate, initial provision 0..1e13 incl. fractional) run for 5..60 consecutive real mint epochs, with governance changing the reduction period / factor / proportions now and then (through the keeper or straight into the parameter subspace, as a parameter-change proposal does). For every mint-epoch block the bank events of the block (coinbase, burn, transfer) and the supply queries are compared with the schedule computed exactly: minted = floor(provision); transfers from the mint account to the fee collector / pool-incentives account = floor(M·p); developer share burned from the mint account and floor(floor(M·p_dev)·w_i) released from the vesting account to each receiver (community pool for empty addresses); community pool gets exactly the rest; mint account empty afterwards; SupplyWithOffset grows by exactly M; provision multiplied by the reduction factor exactly at lastReduction + period; nothing minted before the start epoch. distinct_nontrivial counts distinct (#receivers, any empty-address receiver?, dev share truncates?, reduction in this epoch?, before start?, zero proportions mask, minted zero?) tuples per epoch."
	nSets := c.N(720, 24000)
	c.Cases("params", nSets, func(i int, r *vk.Rng) {
		epochDur := time.Hour
		ch := chain.New(chain.Options{NumAccounts: 10, Epochs: map[string]time.Duration{"day": epochDur, "week": 1000 * time.Hour}})
		defer ch.Close()
		ch.NextBlock(5 * time.Second)
		mk := ch.App.MintKeeper
		ctx := ch.Ctx
		mintAddr := authtypes.NewModuleAddress(minttypes.ModuleName).String()
		vestAddr := authtypes.NewModuleAddress(minttypes.DeveloperVestingModuleAcctName).String()
		feeAddr := authtypes.NewModuleAddress(authtypes.FeeCollectorName).String()
		poolIncAddr := authtypes.NewModuleAddress(poolincentivestypes.ModuleName).String()
		distrAddr := authtypes.NewModuleAddress(distrtypes.ModuleName).String()

		// ---- parameters
		p := mk.GetParams(ctx)
		p.MintDenom = "uosmo"
		p.EpochIdentifier = "day"
		// proportions: random cut points in thousandths, with zeros
		cuts := [4]int64{}
		left := int64(1000)
		for k := 0; k < 3; k++ {
			x := r.I64n(left + 1)
			if r.Intn(4) == 0 {
				x = 0
			}
			cuts[k] = x
			left -= x
		}
		cuts[3] = left
		if r.Intn(3) == 0 { // thirds: proportions with 18-decimal tails
			p.DistributionProportions = minttypes.DistributionProportions{Staking: osmomath.MustNewDecFromStr("0.333333333333333333"), PoolIncentives: osmomath.MustNewDecFromStr("0.333333333333333333"), DeveloperRewards: osmomath.MustNewDecFromStr("0.333333333333333334"), CommunityPool: osmomath.ZeroDec()}
		} else {
			p.DistributionProportions = minttypes.DistributionProportions{Staking: sdkmath.LegacyNewDecWithPrec(cuts[0], 3), PoolIncentives: sdkmath.LegacyNewDecWithPrec(cuts[1], 3), DeveloperRewards: sdkmath.LegacyNewDecWithPrec(cuts[2], 3), CommunityPool: sdkmath.LegacyNewDecWithPrec(cuts[3], 3)}
		}
		p.ReductionFactor = sdkmath.LegacyNewDecWithPrec(r.I64n(1001), 3)
		if r.Intn(4) == 0 {
			p.ReductionFactor = osmomath.MustNewDecFromStr("0.666666666666666666")
		}
		p.ReductionPeriodInEpochs = 1 + r.I64n(20)
		p.MintingRewardsDistributionStartEpoch = r.I64n(6)
		nRecv := r.Intn(9)
		p.WeightedDeveloperRewardsReceivers = nil
		anyEmpty := false
		if nRecv > 0 {
			// weights summing to exactly one
			rem := new(big.Int).Set(big.NewInt(1e18))
			for k := 0; k < nRecv; k++ {
				var wgt *big.Int
				if k == nRecv-1 {
					wgt = rem
				} else {
					switch r.Intn(3) {
					case 0:
						wgt = new(big.Int).Quo(big.NewInt(1e18), big.NewInt(int64(nRecv)))
					default:
						wgt = r.BigBelow(new(big.Int).Add(rem, big.NewInt(1)))
					}
					if wgt.Cmp(rem) > 0 {
						wgt = new(big.Int).Set(rem)
					}
					rem = new(big.Int).Sub(rem, wgt)
				}
				addr := ch.Accs[k].Addr.String()
				if r.Intn(5) == 0 {
					addr = ""
					anyEmpty = true
				}
				p.WeightedDeveloperRewardsReceivers = append(p.WeightedDeveloperRewardsReceivers, minttypes.WeightedAddress{Address: addr, Weight: sdkmath.LegacyNewDecFromBigIntWithPrec(wgt, 18)})
			}
		}
		if err := p.Validate(); err != nil {
			c.Class("params-rejected")
			return
		}
		mk.SetParams(ctx, p)
		prov := sdkmath.LegacyNewDecFromBigIntWithPrec(r.BigMag(0, 31), 18)
		if r.Intn(8) == 0 {
			prov = osmomath.ZeroDec()
		}
		mk.SetMinter(ctx, minttypes.NewMinter(prov))
		c.Logf("params: proportions %v factor %s period %d start %d receivers %d provision %s", p.DistributionProportions, p.ReductionFactor, p.ReductionPeriodInEpochs, p.MintingRewardsDistributionStartEpoch, nRecv, prov)

		// model
		provisions := new(big.Int).Set(prov.BigInt()) // scaled 1e18
		lastReduction := int64(0) // genesis value of the last-reduction marker
		nEpochs := 5 + r.Intn(56)
		if !c.Thorough() && nEpochs > 25 {
			nEpochs = 25
		}
		for ep := 0; ep < nEpochs; ep++ {
			if ep > 1 && r.Intn(8) == 0 {
				// governance changes parameters while minting runs: the reduction period (also to less than the number of
				// epochs since the last reduction), the factor, the proportions. Half of the time through the keeper, half
				// of the time the way a parameter-change proposal does it: straight into the module's parameter subspace.
				switch r.Intn(3) {
				case 0:
					p.ReductionPeriodInEpochs = 1 + r.I64n(12)
				case 1:
					p.ReductionFactor = sdkmath.LegacyNewDecWithPrec(r.I64n(1001), 3)
				default:
					pr := p.DistributionProportions
					p.DistributionProportions = minttypes.DistributionProportions{Staking: pr.PoolIncentives, PoolIncentives: pr.CommunityPool, DeveloperRewards: pr.DeveloperRewards, CommunityPool: pr.Staking}
				}
				if err := p.Validate(); err == nil {
					if r.Bool() {
						mk.SetParams(ch.Ctx, p)
						c.Logf("governance (keeper): period %d factor %s proportions %v", p.ReductionPeriodInEpochs, p.ReductionFactor, p.DistributionProportions)
					} else if ss, ok := ch.App.ParamsKeeper.GetSubspace(minttypes.ModuleName); ok {
						ss.SetParamSet(ch.Ctx, &p)
						c.Logf("governance (parameter subspace): period %d factor %s proportions %v", p.ReductionPeriodInEpochs, p.ReductionFactor, p.DistributionProportions)
					}
					c.Count("parameter_changes_during_history", 1)
				}
			}
			info := ch.App.EpochsKeeper.GetEpochInfo(ch.Ctx, "day")
			end := info.CurrentEpochStartTime.Add(info.Duration)
			dt := end.Sub(ch.Ctx.BlockTime()) + time.Duration(1+r.I64n(int64(20*time.Minute)))
			if dt < 0 {
				dt = time.Second
			}
			ch.NextBlock(dt)
			supBefore := ch.App.BankKeeper.GetSupplyWithOffset(ch.Ctx, "uosmo").Amount
			vestBefore := ch.Bal(authtypes.NewModuleAddress(minttypes.DeveloperVestingModuleAcctName), "uosmo")
			n := info.CurrentEpoch // the epoch that ends in the next block
			res := ch.NextBlock(time.Second)
			c.Eval(1)
			ctx := ch.Ctx
			sig := func() map[string]any { return map[string]any{"receivers": nRecv} }
			if ch.App.EpochsKeeper.GetEpochInfo(ctx, "day").CurrentEpoch != n+1 {
				c.Violate("C18.epoch_tick", sig(), "mint epoch did not advance from %d", n)
				return
			}
			led := bankLedger(res.Events)
			var minted sdk.Coins
			fromMint := map[string]sdkmath.Int{}
			fromVest := map[string]sdkmath.Int{}
			burned := sdkmath.ZeroInt()
			add := func(m map[string]sdkmath.Int, k string, v sdkmath.Int) {
				if m[k].IsNil() {
					m[k] = sdkmath.ZeroInt()
				}
				m[k] = m[k].Add(v)
			}
			for _, mv := range led {
				switch {
				case mv.kind == "coinbase" && mv.to == mintAddr:
					minted = minted.Add(mv.coins...)
				case mv.kind == "burn" && mv.from == mintAddr:
					burned = burned.Add(mv.coins.AmountOf("uosmo"))
				case mv.kind == "transfer" && mv.from == mintAddr:
					add(fromMint, mv.to, mv.coins.AmountOf("uosmo"))
				case mv.kind == "transfer" && mv.from == vestAddr:
					add(fromVest, mv.to, mv.coins.AmountOf("uosmo"))
				}
			}
			get := func(m map[string]sdkmath.Int, k string) sdkmath.Int {
				if m[k].IsNil() {
					return sdkmath.ZeroInt()
				}
				return m[k]
			}
			supAfter := ch.App.BankKeeper.GetSupplyWithOffset(ctx, "uosmo").Amount
			// ---- schedule
			if n < p.MintingRewardsDistributionStartEpoch {
				if !minted.IsZero() || !supAfter.Equal(supBefore) {
					c.Violate("C18.minted_before_start", sig(), "epoch %d is before the start epoch %d but %s was minted (reported supply %s -> %s)", n, p.MintingRewardsDistributionStartEpoch, minted, supBefore, supAfter)
					return
				}
				c.Class("before-start|recv%d", nRecv)
				continue
			}
			reduced := false
			provBefore, lastReductionBefore := new(big.Int).Set(provisions), lastReduction
			if n == p.MintingRewardsDistributionStartEpoch {
				lastReduction = n
			}
			if lastReduction >= 0 && n >= p.ReductionPeriodInEpochs+lastReduction {
				// provisions · factor, rounded half-even at 18 decimals (as the decimal type multiplies)
				provisions = divHalfEvenBig(new(big.Int).Mul(provisions, p.ReductionFactor.BigInt()), big.NewInt(1e18))
				lastReduction = n
				reduced = true
			}
			M := sdkmath.NewIntFromBigInt(new(big.Int).Quo(provisions, big.NewInt(1e18)))
			if decTrunc(M, p.DistributionProportions.DeveloperRewards).GT(vestBefore) {
				// the developer vesting account cannot pay this epoch's developer share: the mint hook fails as
				// a whole and everything it did (reduction included) is discarded — containment is C17's
				// clause; here the schedule simply does not advance and nothing may have been minted
				provisions, lastReduction = provBefore, lastReductionBefore
				if !minted.IsZero() || !supAfter.Equal(supBefore) || ch.App.MintKeeper.GetMinter(ctx).EpochProvisions.BigInt().Cmp(provisions) != 0 {
					c.Violate("C18.failed_epoch_left_traces", sig(), "epoch %d: the developer share %s exceeds the vesting balance %s, yet %s was minted / reported supply %s -> %s / provisions %s", n, decTrunc(M, p.DistributionProportions.DeveloperRewards), vestBefore, minted, supBefore, supAfter, ch.App.MintKeeper.GetMinter(ctx).EpochProvisions)
					return
				}
				c.Class("vesting-exhausted|recv%d", nRecv)
				continue
			}
			if got := ch.App.MintKeeper.GetMinter(ctx).EpochProvisions; got.BigInt().Cmp(provisions) != 0 {
				c.Violate("C18.reduction_schedule", map[string]any{"reduced_expected": reduced}, "after epoch %d the minter's provision is %s, the schedule (start %d, period %d, factor %s, last reduction %d) gives %s", n, got, p.MintingRewardsDistributionStartEpoch, p.ReductionPeriodInEpochs, p.ReductionFactor, lastReduction, sdkmath.LegacyNewDecFromBigIntWithPrec(provisions, 18))
				return
			}
			if !minted.AmountOf("uosmo").Equal(M) {
				c.Violate("C18.minted_amount", sig(), "epoch %d: %s was minted, the integer part of the provision is %s", n, minted, M)
				return
			}
			pr := p.DistributionProportions
			wantStaking, wantPool, wantDev := decTrunc(M, pr.Staking), decTrunc(M, pr.PoolIncentives), decTrunc(M, pr.DeveloperRewards)
			if M.IsZero() {
				c.Class("minted-zero|recv%d", nRecv)
				continue
			}
			if !get(fromMint, feeAddr).Equal(wantStaking) || !get(fromMint, poolIncAddr).Equal(wantPool) {
				c.Violate("C18.allocation", sig(), "epoch %d: minted %s; staking got %s (want %s), pool incentives got %s (want %s)", n, M, get(fromMint, feeAddr), wantStaking, get(fromMint, poolIncAddr), wantPool)
				return
			}
			if !burned.Equal(wantDev) {
				c.Violate("C18.allocation", sig(), "epoch %d: developer share %s expected to leave the mint account (burn), %s was burned", n, wantDev, burned)
				return
			}
			wantCommunity := M.Sub(wantStaking).Sub(wantPool).Sub(wantDev)
			if !get(fromMint, distrAddr).Equal(wantCommunity) {
				c.Violate("C18.allocation", sig(), "epoch %d: community pool got %s from the mint account, the remainder is %s", n, get(fromMint, distrAddr), wantCommunity)
				return
			}
			// developer receivers
			released := sdkmath.ZeroInt()
			truncates := false
			wantVest := map[string]sdkmath.Int{}
			if nRecv == 0 {
				add(wantVest, distrAddr, wantDev)
			} else {
				sum := sdkmath.ZeroInt()
				for _, wa := range p.WeightedDeveloperRewardsReceivers {
					part := decTrunc(wantDev, wa.Weight)
					sum = sum.Add(part)
					to := wa.Address
					if to == "" {
						to = distrAddr
					}
					add(wantVest, to, part)
				}
				if !sum.Equal(wantDev) {
					truncates = true
					// the rounding remainder belongs to the community pool, like every other remainder
					add(wantVest, distrAddr, wantDev.Sub(sum))
				}
			}
			for to, v := range fromVest {
				released = released.Add(v)
				if !get(wantVest, to).Equal(v) {
					s := sig()
					s["dev_share_truncates"] = truncates
					c.Violate("C18.developer_rewards", s, "epoch %d: %s received %s from the developer vesting account, expected %s (developer share %s)", n, to, v, get(wantVest, to), wantDev)
					return
				}
			}
			for to, v := range wantVest {
				if v.IsPositive() && get(fromVest, to).IsZero() {
					s := sig()
					s["dev_share_truncates"] = truncates
					c.Violate("C18.developer_rewards", s, "epoch %d: %s should receive %s from the developer vesting account (developer share %s over %d receivers), received nothing", n, to, v, wantDev, nRecv)
					return
				}
			}
			if bal := ch.Bal(authtypes.NewModuleAddress(minttypes.ModuleName), "uosmo"); !bal.IsZero() {
				c.Violate("C18.mint_account_not_empty", sig(), "epoch %d: the mint account still holds %suosmo", n, bal)
				return
			}
			if d := supAfter.Sub(supBefore); !d.Equal(M) {
				s := sig()
				s["dev_share_truncates"] = truncates
				c.Violate("C18.reported_supply", s, "epoch %d: %s was minted and allocated but the reported supply (with offset) grew by %s (developer share %s, released from vesting %s)", n, M, d, wantDev, released)
				return
			}
			mask := 0
			for k, x := range []osmomath.Dec{pr.Staking, pr.PoolIncentives, pr.DeveloperRewards, pr.CommunityPool} {
				if x.IsZero() {
					mask |= 1 << k
				}
			}
			c.Class("recv%d|empty%v|trunc%v|reduced%v|zeros%d", nRecv, anyEmpty, truncates, reduced, mask)
		}
		if i < 2 {
			c.Sample(map[string]any{"proportions": fmt.Sprint(p.DistributionProportions), "factor": p.ReductionFactor.String(), "period": p.ReductionPeriodInEpochs, "start_epoch": p.MintingRewardsDistributionStartEpoch, "receivers": nRecv, "initial_provision": prov.String(), "epochs": nEpochs})
		}
	})
}

func divHalfEvenBig(n, d *big.Int) *big.Int {
	q, m := new(big.Int).QuoRem(n, d, new(big.Int))
	two := new(big.Int).Mul(m, big.NewInt(2))
	switch two.Cmp(d) {
	case 1:
		q.Add(q, big.NewInt(1))
	case 0:
		if q.Bit(0) == 1 {
			q.Add(q, big.NewInt(1))
		}
	}
	return q
}

var _ = chain.Bond
