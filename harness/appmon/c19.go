//go:build verif

package main

// C19 — state is a deterministic function of history and survives export/import.
// Offline comparison of traces recorded by SEPARATE processes (one app per process):
// a primary that generates and executes a transaction history, replicas that replay it
// under different GOMAXPROCS / GOGC / map seeds, and nodes started from states the primary
// exported, fed the rest of the same history.

import (
	storetypes "cosmossdk.io/store/types"
	"crypto/sha256"
	"encoding/base64"
	"encoding/hex"
	"encoding/json"
	"fmt"
	wasmvmtypes "github.com/CosmWasm/wasmvm/v2/types"
	"github.com/osmosis-labs/osmosis/v31/wasmbinding"
	mempool1559 "github.com/osmosis-labs/osmosis/v31/x/txfees/keeper/mempool-1559"
	"io"
	"os"
	"os/exec"
	"path/filepath"
	"regexp"
	"sort"
	"strconv"
	"strings"
	"time"

	sdkmath "cosmossdk.io/math"
	abci "github.com/cometbft/cometbft/abci/types"
	sdk "github.com/cosmos/cosmos-sdk/types"
	banktypes "github.com/cosmos/cosmos-sdk/x/bank/types"
	distrtypes "github.com/cosmos/cosmos-sdk/x/distribution/types"
	stakingtypes "github.com/cosmos/cosmos-sdk/x/staking/types"

	"github.com/osmosis-labs/osmosis/osmomath"
	"github.com/osmosis-labs/osmosis/v31/app"
	clmodel "github.com/osmosis-labs/osmosis/v31/x/concentrated-liquidity/model"
	cltypes "github.com/osmosis-labs/osmosis/v31/x/concentrated-liquidity/types"
	clgenesis "github.com/osmosis-labs/osmosis/v31/x/concentrated-liquidity/types/genesis"
	"github.com/osmosis-labs/osmosis/v31/x/gamm/pool-models/balancer"
	"github.com/osmosis-labs/osmosis/v31/x/gamm/pool-models/stableswap"
	gammtypes "github.com/osmosis-labs/osmosis/v31/x/gamm/types"
	incentivestypes "github.com/osmosis-labs/osmosis/v31/x/incentives/types"
	lockuptypes "github.com/osmosis-labs/osmosis/v31/x/lockup/types"
	minttypes "github.com/osmosis-labs/osmosis/v31/x/mint/types"
	poolincentivestypes "github.com/osmosis-labs/osmosis/v31/x/pool-incentives/types"
	poolmanagertypes "github.com/osmosis-labs/osmosis/v31/x/poolmanager/types"
	protorevtypes "github.com/osmosis-labs/osmosis/v31/x/protorev/types"
	smartaccounttypes "github.com/osmosis-labs/osmosis/v31/x/smart-account/types"
	sftypes "github.com/osmosis-labs/osmosis/v31/x/superfluid/types"
	tftypes "github.com/osmosis-labs/osmosis/v31/x/tokenfactory/types"
	txfeestypes "github.com/osmosis-labs/osmosis/v31/x/txfees/types"
	valsettypes "github.com/osmosis-labs/osmosis/v31/x/valset-pref/types"
	"github.com/osmosis-labs/osmosis/v31/zzverif/chain"
	"github.com/osmosis-labs/osmosis/v31/zzverif/vk"
)

type c19Block struct {
	Height int64    `json:"height"`
	TimeNs int64    `json:"time_ns"`
	Txs    []string `json:"txs"`
	Descs  []string `json:"descs,omitempty"`
	// Admin lists state changes applied by every node right before this block, the way a passed
	// governance proposal would be (e.g. enabling a superfluid asset)
	Admin []string `json:"admin,omitempty"`
}

type c19TxTrace struct {
	Code      uint32 `json:"code"`
	Codespace string `json:"codespace"`
	GasUsed   int64  `json:"gas_used"`
	GasWanted int64  `json:"gas_wanted"`
	Data      string `json:"data"`
	Events    string `json:"events"` // sha256 of the canonical rendering
	EventsRaw string `json:"events_raw,omitempty"`
	Log       string `json:"log,omitempty"` // diagnostic only, not compared
}

type c19BlockTrace struct {
	Height      int64        `json:"height"`
	AppHash     string       `json:"app_hash"`
	Txs         []c19TxTrace `json:"txs"`
	BlockEvents string       `json:"block_events"`
	BlockEvRaw  string       `json:"block_events_raw,omitempty"`
}

type c19Export struct {
	Height   int64           `json:"height"` // last executed height
	TimeNs   int64           `json:"time_ns"`
	AppState json.RawMessage `json:"app_state"`
}

// c19ProtorevMap renders protorev's (base denom, other denom) -> pool map, which is kept in the store but is not part
// of the module's exported genesis (InitGenesis rebuilds it from the liquidity of the moment).
func c19ProtorevMap(ch *chain.Chain, ctx sdk.Context) string {
	st := ctx.KVStore(ch.App.AppKeepers.GetKey(protorevtypes.StoreKey))
	it := storetypes.KVStorePrefixIterator(st, protorevtypes.KeyPrefixDenomPairToPool)
	defer it.Close()
	var out []string
	for ; it.Valid(); it.Next() {
		out = append(out, fmt.Sprintf("%s=%d", string(it.Key()[len(protorevtypes.KeyPrefixDenomPairToPool):]), sdk.BigEndianToUint64(it.Value())))
	}
	sort.Strings(out)
	return strings.Join(out, ";")
}

func renderEvents(evs []abci.Event) string {
	var sb strings.Builder
	for _, e := range evs {
		sb.WriteString(e.Type)
		sb.WriteString("{")
		for _, a := range e.Attributes {
			sb.WriteString(a.Key)
			sb.WriteString("=")
			sb.WriteString(a.Value)
			sb.WriteString(";")
		}
		sb.WriteString("}")
	}
	return sb.String()
}

func sha(s string) string {
	h := sha256.Sum256([]byte(s))
	return hex.EncodeToString(h[:8])
}

func c19Trace(res *abci.ResponseFinalizeBlock, height int64, keepRaw bool) c19BlockTrace {
	bt := c19BlockTrace{Height: height, AppHash: hex.EncodeToString(res.AppHash)}
	for _, r := range res.TxResults {
		ev := renderEvents(r.Events)
		t := c19TxTrace{Code: r.Code, Codespace: r.Codespace, GasUsed: r.GasUsed, GasWanted: r.GasWanted, Data: hex.EncodeToString(r.Data), Events: sha(ev)}
		if keepRaw {
			t.EventsRaw = ev
			if r.Code != 0 {
				t.Log = trunc(r.Log, 300)
			}
		}
		bt.Txs = append(bt.Txs, t)
	}
	be := renderEvents(res.Events)
	bt.BlockEvents = sha(be)
	if keepRaw {
		bt.BlockEvRaw = be
	}
	return bt
}

func c19Genesis(a *app.OsmosisApp, gs app.GenesisState) {
	cdc := a.AppCodec()
	var pg poolmanagertypes.GenesisState
	cdc.MustUnmarshalJSON(gs[poolmanagertypes.ModuleName], &pg)
	pg.Params.TakerFeeParams.AdminAddresses = []string{chain.DetAccount("acc", 7).Addr.String()}
	// every taker-fee destination in use (staking rewards with smoothing, community pool, burn), for both fee kinds
	split := poolmanagertypes.TakerFeeDistributionPercentage{StakingRewards: osmomath.MustNewDecFromStr("0.5"), CommunityPool: osmomath.MustNewDecFromStr("0.3"), Burn: osmomath.MustNewDecFromStr("0.2")}
	pg.Params.TakerFeeParams.OsmoTakerFeeDistribution = split
	pg.Params.TakerFeeParams.NonOsmoTakerFeeDistribution = split
	pg.Params.TakerFeeParams.CommunityPoolDenomToSwapNonWhitelistedAssetsTo = "uosmo"
	pg.Params.TakerFeeParams.CommunityPoolDenomWhitelist = []string{"foo"}
	pg.Params.TakerFeeParams.DailyStakingRewardsSmoothingFactor = 3
	gs[poolmanagertypes.ModuleName] = cdc.MustMarshalJSON(&pg)
	// reach reward reductions within a history
	var mg minttypes.GenesisState
	cdc.MustUnmarshalJSON(gs[minttypes.ModuleName], &mg)
	mg.Params.ReductionPeriodInEpochs = 2
	gs[minttypes.ModuleName] = cdc.MustMarshalJSON(&mg)
	// concentrated pools whose two accumulator families are scaled differently (as on the live chain since v25):
	// incentives accumulators scaled for every pool, spread-reward accumulators unscaled for pool ids up to 1000
	var clg clgenesis.GenesisState
	cdc.MustUnmarshalJSON(gs[cltypes.ModuleName], &clg)
	clg.IncentivesAccumulatorPoolIdMigrationThreshold = 0
	clg.SpreadFactorPoolIdMigrationThreshold = 1000
	gs[cltypes.ModuleName] = cdc.MustMarshalJSON(&clg)
	// protorev: an admin the history can act as (hot routes, developer account)
	var prg protorevtypes.GenesisState
	cdc.MustUnmarshalJSON(gs[protorevtypes.ModuleName], &prg)
	prg.Params.Admin = chain.DetAccount("acc", 7).Addr.String()
	gs[protorevtypes.ModuleName] = cdc.MustMarshalJSON(&prg)
}

type c19SwitchWriter struct{ w *os.File }

func (s *c19SwitchWriter) Write(p []byte) (int, error) {
	if s.w != nil {
		return s.w.Write(p)
	}
	return len(p), nil
}

var c19Tracer = &c19SwitchWriter{}

func c19Options() chain.Options {
	var tw io.Writer
	if os.Getenv("VERIF_C19_STORETRACE") != "" {
		tw = c19Tracer
	}
	return chain.Options{StoreTrace: tw, Denoms: []string{"foo", "bar", "baz"}, NumAccounts: 8, NumValidators: 2,
		Epochs: map[string]time.Duration{"day": 40 * time.Minute, "week": 2 * time.Hour}, GenesisMutator: c19Genesis}
}

func writeJSONL(path string, v any) {
	f, err := os.OpenFile(path, os.O_APPEND|os.O_CREATE|os.O_WRONLY, 0o644)
	if err != nil {
		panic(err)
	}
	defer f.Close()
	b, _ := json.Marshal(v)
	f.Write(append(b, '\n'))
}

func canonicalJSON(raw json.RawMessage) string {
	var v any
	if err := json.Unmarshal(raw, &v); err != nil {
		return string(raw)
	}
	b, _ := json.Marshal(v) // map keys are sorted by encoding/json
	return string(b)
}

// c19FinalState writes per-module exported state and a query battery for the current state.
func c19FinalState(ch *chain.Chain, path string) {
	out := map[string]string{}
	ctx := ch.App.NewContextLegacy(true, ch.Ctx.BlockHeader())
	for mod, raw := range ch.App.ExportState(ctx) {
		out["module/"+mod] = canonicalJSON(raw)
	}
	// query battery through the keepers' query paths on the committed state
	qctx := ch.Ctx
	n := ch.App.PoolManagerKeeper.GetNextPoolId(qctx)
	for id := uint64(1); id < n; id++ {
		denoms, err := ch.App.PoolManagerKeeper.RouteGetPoolDenoms(qctx, id)
		if err != nil {
			continue
		}
		for _, a := range denoms {
			for _, b := range denoms {
				if a == b {
					continue
				}
				sp, err := ch.App.PoolManagerKeeper.RouteCalculateSpotPrice(qctx, id, a, b)
				out[fmt.Sprintf("query/spot/%d/%s/%s", id, a, b)] = fmt.Sprintf("%v|%v", sp, err)
				est, err := ch.App.PoolManagerKeeper.MultihopEstimateOutGivenExactAmountIn(qctx, []poolmanagertypes.SwapAmountInRoute{{PoolId: id, TokenOutDenom: b}}, sdk.NewCoin(a, sdkmath.NewInt(1000000)))
				out[fmt.Sprintf("query/estimate/%d/%s/%s", id, a, b)] = fmt.Sprintf("%v|%v", est, err)
				tw, err := ch.App.TwapKeeper.GetArithmeticTwapToNow(qctx, id, a, b, qctx.BlockTime().Add(-time.Minute))
				out[fmt.Sprintf("query/twap/%d/%s/%s", id, a, b)] = fmt.Sprintf("%v|%v", tw, err)
			}
		}
	}
	for _, acc := range ch.Accs {
		out["query/balances/"+acc.Addr.String()] = ch.AllBal(qctx, acc.Addr).String()
		for _, l := range ch.App.LockupKeeper.GetAccountPeriodLocks(qctx, acc.Addr) {
			out[fmt.Sprintf("query/lock/%d", l.ID)] = l.String()
		}
	}
	for _, g := range ch.App.IncentivesKeeper.GetGauges(qctx) {
		if g.IsFinishedGauge(qctx.BlockTime()) {
			out[fmt.Sprintf("query/gauge-finished/%d", g.Id)] = g.String()
		} else {
			out[fmt.Sprintf("query/gauge/%d", g.Id)] = g.String()
		}
	}
	for _, acc := range ch.Accs {
		if vs, found := ch.App.ValidatorSetPreferenceKeeper.GetValidatorSetPreference(qctx, acc.Addr.String()); found {
			out["query/valset/"+acc.Addr.String()] = vs.String()
		}
		if dels, err := ch.App.StakingKeeper.GetDelegatorDelegations(qctx, acc.Addr, 100); err == nil {
			for _, dl := range dels {
				out["query/delegation/"+acc.Addr.String()+"/"+dl.ValidatorAddress] = dl.Shares.String()
			}
		}
		if ps, err := ch.App.ConcentratedLiquidityKeeper.GetUserPositions(qctx, acc.Addr, 0); err == nil {
			for _, p := range ps {
				cctx, _ := qctx.CacheContext()
				sr, e1 := ch.App.ConcentratedLiquidityKeeper.GetClaimableSpreadRewards(cctx, p.PositionId)
				inc, forf, e2 := ch.App.ConcentratedLiquidityKeeper.GetClaimableIncentives(cctx, p.PositionId)
				out[fmt.Sprintf("query/position/%d", p.PositionId)] = fmt.Sprintf("%s|%v|%v|%v|%v|%v", p.String(), sr, e1, inc, forf, e2)
			}
		}
		if au, err := ch.App.SmartAccountKeeper.GetAuthenticatorDataForAccount(qctx, acc.Addr); err == nil {
			for _, x := range au {
				out[fmt.Sprintf("query/authenticator/%s/%d", acc.Addr.String(), x.Id)] = x.String()
			}
		}
	}
	for _, ft := range ch.App.TxFeesKeeper.GetFeeTokens(qctx) {
		out["query/feetoken/"+ft.Denom] = ft.String()
	}
	if di := ch.App.PoolIncentivesKeeper.GetDistrInfo(qctx); true {
		out["query/distrinfo"] = di.String()
	}
	if tl, err := ch.App.PoolManagerKeeper.TotalLiquidity(qctx); true {
		out["query/total_liquidity"] = fmt.Sprintf("%v|%v", tl, err)
	}
	if cl, err := ch.App.ConcentratedLiquidityKeeper.GetTotalLiquidity(qctx); true {
		out["query/total_liquidity/concentrated"] = fmt.Sprintf("%v|%v", cl, err)
	}
	for _, d := range []string{"uosmo", "foo", "bar", "baz"} {
		out["query/supply/"+d] = ch.App.BankKeeper.GetSupply(qctx, d).String()
	}
	out["query/supply/uosmo"] = ch.App.BankKeeper.GetSupply(qctx, "uosmo").String()
	out["query/supply_with_offset/uosmo"] = ch.App.BankKeeper.GetSupplyWithOffset(qctx, "uosmo").String()
	// what a contract can read: every query on the stargate whitelist, asked the way the wasm query plugin asks it
	// (empty request; queries that need arguments answer with their deterministic error). These answers enter
	// transaction execution, so they must be a function of committed state on every node, whatever the process
	// has in memory.
	sq := wasmbinding.StargateQuerier(*ch.App.GRPCQueryRouter(), ch.App.AppCodec())
	for _, pth := range wasmbinding.GetStargateWhitelistedPaths() {
		cctx, _ := qctx.CacheContext()
		var bz []byte
		var err error
		rec, _ := vk.Guard(func() { bz, err = sq(cctx, &wasmvmtypes.StargateQuery{Path: pth}) })
		out["stargate"+pth] = fmt.Sprintf("%s|%v|%v", bz, err, rec)
	}
	b, _ := json.Marshal(out)
	os.WriteFile(path, b, 0o644)
}

// ---------------------------------------------------------------- workload generator (primary only)

type c19Gen struct {
	ch      *chain.Chain
	r       *vk.Rng
	tfDenom string
	nextPos []uint64
	// forceKind makes the first transaction of the next random block one of a given kind (scheduled events)
	forceKind int
}

func (g *c19Gen) acc(i int) chain.Account { return g.ch.Accs[i%len(g.ch.Accs)] }

func (g *c19Gen) setupBlock(b int) ([][]byte, []string) {
	ch := g.ch
	var txs [][]byte
	var ds []string
	add := func(a chain.Account, d string, msgs ...sdk.Msg) {
		txs = append(txs, ch.Tx(a, msgs...))
		ds = append(ds, d)
	}
	c := func(d string, n int64) sdk.Coin { return sdk.NewCoin(d, sdkmath.NewInt(n)) }
	switch b {
	case 0:
		bm := balancer.NewMsgCreateBalancerPool(g.acc(0).Addr, balancer.NewPoolParams(osmomath.MustNewDecFromStr("0.003"), osmomath.ZeroDec(), nil),
			[]balancer.PoolAsset{{Weight: sdkmath.NewInt(1), Token: c("uosmo", 500000000000)}, {Weight: sdkmath.NewInt(2), Token: c("foo", 900000000000)}}, "")
		add(g.acc(0), "create balancer uosmo/foo", &bm)
		sm := stableswap.NewMsgCreateStableswapPool(g.acc(1).Addr, stableswap.PoolParams{SwapFee: osmomath.MustNewDecFromStr("0.001"), ExitFee: osmomath.ZeroDec()}, sdk.NewCoins(c("bar", 700000000000), c("foo", 700000000000)), []uint64{1, 1}, "")
		add(g.acc(1), "create stableswap foo/bar", &sm)
		cm := clmodel.NewMsgCreateConcentratedPool(g.acc(2).Addr, "bar", "uosmo", 100, osmomath.MustNewDecFromStr("0.002"))
		add(g.acc(2), "create CL bar/uosmo", &cm)
		add(g.acc(3), "tokenfactory create", &tftypes.MsgCreateDenom{Sender: g.acc(3).Addr.String(), Subdenom: "tok"})
		// a second denom whose administrator is renounced two blocks later: nobody may ever administer it again, on any node
		add(g.acc(3), "tokenfactory create gone", &tftypes.MsgCreateDenom{Sender: g.acc(3).Addr.String(), Subdenom: "gone"})
		bm2 := balancer.NewMsgCreateBalancerPool(g.acc(4).Addr, balancer.NewPoolParams(osmomath.MustNewDecFromStr("0.01"), osmomath.ZeroDec(), nil),
			[]balancer.PoolAsset{{Weight: sdkmath.NewInt(3), Token: c("uosmo", 200000000000)}, {Weight: sdkmath.NewInt(1), Token: c("baz", 300000000000)}, {Weight: sdkmath.NewInt(1), Token: c("bar", 100000000000)}}, "")
		add(g.acc(4), "create balancer uosmo/baz/bar", &bm2)
		// a pool whose weights shift over time, start time left to the state machine
		lbp := balancer.NewMsgCreateBalancerPool(g.acc(5).Addr, balancer.NewPoolParams(osmomath.MustNewDecFromStr("0.002"), osmomath.ZeroDec(), &balancer.SmoothWeightChangeParams{Duration: 5 * time.Hour,
			TargetPoolWeights: []balancer.PoolAsset{{Weight: sdkmath.NewInt(1), Token: c("uosmo", 0)}, {Weight: sdkmath.NewInt(4), Token: c("foo", 0)}}}),
			[]balancer.PoolAsset{{Weight: sdkmath.NewInt(3), Token: c("uosmo", 300000000000)}, {Weight: sdkmath.NewInt(1), Token: c("foo", 300000000000)}}, "")
		add(g.acc(5), "create weight-shifting pool uosmo/foo", &lbp)
	case 1:
		g.tfDenom = "factory/" + g.acc(3).Addr.String() + "/tok"
		add(g.acc(2), "CL full range", &cltypes.MsgCreatePosition{PoolId: 3, Sender: g.acc(2).Addr.String(), LowerTick: cltypes.MinInitializedTick, UpperTick: cltypes.MaxTick, TokensProvided: sdk.NewCoins(c("bar", 400000000000), c("uosmo", 200000000000)), TokenMinAmount0: sdkmath.ZeroInt(), TokenMinAmount1: sdkmath.ZeroInt()})
		add(g.acc(3), "tf mint", &tftypes.MsgMint{Sender: g.acc(3).Addr.String(), Amount: c(g.tfDenom, 1000000000), MintToAddress: g.acc(3).Addr.String()})
		gone := "factory/" + g.acc(3).Addr.String() + "/gone"
		add(g.acc(3), "tf mint gone", &tftypes.MsgMint{Sender: g.acc(3).Addr.String(), Amount: c(gone, 777000000), MintToAddress: g.acc(3).Addr.String()})
		add(g.acc(3), "tf metadata gone", &tftypes.MsgSetDenomMetadata{Sender: g.acc(3).Addr.String(), Metadata: banktypes.Metadata{Description: "renounced later", Base: gone, Display: "gone", Name: "Gone", Symbol: "GONE",
			DenomUnits: []*banktypes.DenomUnit{{Denom: gone, Exponent: 0}, {Denom: "gone", Exponent: 6}}}})
		add(g.acc(7), "set taker fees", &poolmanagertypes.MsgSetDenomPairTakerFee{Sender: g.acc(7).Addr.String(), DenomPairTakerFee: []poolmanagertypes.DenomPairTakerFee{
			{TokenInDenom: "foo", TokenOutDenom: "uosmo", TakerFee: osmomath.MustNewDecFromStr("0.01")}, {TokenInDenom: "bar", TokenOutDenom: "foo", TakerFee: osmomath.MustNewDecFromStr("0.002")}, {TokenInDenom: "uosmo", TokenOutDenom: "bar", TakerFee: osmomath.MustNewDecFromStr("0.005")}}})
		for i := 0; i < 4; i++ {
			add(g.acc(i+4), "join pool 1", &gammtypes.MsgJoinPool{Sender: g.acc(i + 4).Addr.String(), PoolId: 1, ShareOutAmount: gammtypes.OneShare.MulRaw(int64(3 + i)), TokenInMaxs: sdk.NewCoins(c("uosmo", 900000000000), c("foo", 900000000000))})
		}
	case 2:
		// (this version's ValidateBasic refuses an empty NewAdmin: the transaction fails everywhere; the empty admin itself,
		// which older versions and genesis files can carry, is written by the recorded admin action of block 3)
		add(g.acc(3), "tf renounce gone", &tftypes.MsgChangeAdmin{Sender: g.acc(3).Addr.String(), Denom: "factory/" + g.acc(3).Addr.String() + "/gone", NewAdmin: ""})
		for i := 0; i < 4; i++ {
			du := []time.Duration{time.Hour, 3 * time.Hour, 7 * time.Hour}[i%3]
			add(g.acc(i+4), "lock shares", &lockuptypes.MsgLockTokens{Owner: g.acc(i + 4).Addr.String(), Duration: du + time.Duration(i)*time.Minute, Coins: sdk.NewCoins(sdk.NewCoin("gamm/pool/1", gammtypes.OneShare.MulRaw(int64(1+i))))})
			add(g.acc(i+4), "lock shares 2", &lockuptypes.MsgLockTokens{Owner: g.acc(i + 4).Addr.String(), Duration: 7*time.Hour + time.Duration(7*i)*time.Second, Coins: sdk.NewCoins(sdk.NewCoin("gamm/pool/1", gammtypes.OneShare.QuoRaw(int64(2+i))))})
		}
		// three gauges on one lock denom with one start time; the first one pays for a single epoch and finishes first
		add(g.acc(2), "gauge one-epoch", &incentivestypes.MsgCreateGauge{IsPerpetual: false, Owner: g.acc(2).Addr.String(), DistributeTo: lockuptypes.QueryCondition{LockQueryType: lockuptypes.ByDuration, Denom: "gamm/pool/1", Duration: time.Hour}, Coins: sdk.NewCoins(c("uosmo", 900000007)), StartTime: ch.Ctx.BlockTime(), NumEpochsPaidOver: 1})
		add(g.acc(0), "gauge", &incentivestypes.MsgCreateGauge{IsPerpetual: false, Owner: g.acc(0).Addr.String(), DistributeTo: lockuptypes.QueryCondition{LockQueryType: lockuptypes.ByDuration, Denom: "gamm/pool/1", Duration: time.Hour}, Coins: sdk.NewCoins(c("uosmo", 7000000000)), StartTime: ch.Ctx.BlockTime(), NumEpochsPaidOver: 5})
		add(g.acc(1), "gauge perpetual", &incentivestypes.MsgCreateGauge{IsPerpetual: true, Owner: g.acc(1).Addr.String(), DistributeTo: lockuptypes.QueryCondition{LockQueryType: lockuptypes.ByDuration, Denom: "gamm/pool/1", Duration: 3 * time.Hour}, Coins: sdk.NewCoins(c("uosmo", 3000000011)), StartTime: ch.Ctx.BlockTime(), NumEpochsPaidOver: 1})
	case 3:
		for i := 0; i < 4; i++ {
			add(g.acc(i+4), "receiver", &lockuptypes.MsgSetRewardReceiverAddress{Owner: g.acc(i + 4).Addr.String(), LockID: uint64(2*i + 2), RewardReceiver: g.acc(i).Addr.String()})
		}
		cur := int64(0)
		if p, err := ch.App.ConcentratedLiquidityKeeper.GetConcentratedPoolById(ch.Ctx, 3); err == nil {
			cur = roundDown(p.GetCurrentTick(), 100)
		}
		for i := 0; i < 3; i++ {
			add(g.acc(i), "cl narrow", &cltypes.MsgCreatePosition{PoolId: 3, Sender: g.acc(i).Addr.String(), LowerTick: cur - int64(100*(5+3*i)), UpperTick: cur + int64(100*(4+7*i)), TokensProvided: sdk.NewCoins(c("bar", 40000000000), c("uosmo", 20000000000)), TokenMinAmount0: sdkmath.ZeroInt(), TokenMinAmount1: sdkmath.ZeroInt()})
		}
	case 4:
		// locks that last longer than the unbonding period, superfluid-delegated in the next block to one validator
		// (one intermediary account with several locks of different durations)
		for i := 0; i < 3; i++ {
			add(g.acc(i+4), "lock long", &lockuptypes.MsgLockTokens{Owner: g.acc(i + 4).Addr.String(), Duration: time.Duration(21+7*i) * 24 * time.Hour, Coins: sdk.NewCoins(sdk.NewCoin("gamm/pool/1", gammtypes.OneShare.QuoRaw(int64(3+i))))})
		}
	case 5:
		for i := 0; i < 3; i++ {
			for _, l := range ch.App.LockupKeeper.GetAccountPeriodLocks(ch.Ctx, g.acc(i+4).Addr) {
				if l.Duration >= 21*24*time.Hour {
					add(g.acc(i+4), "superfluid delegate", &sftypes.MsgSuperfluidDelegate{Sender: g.acc(i + 4).Addr.String(), LockId: l.ID, ValAddr: ch.Vals[0].OpAddr.String()})
					break
				}
			}
		}
	}
	return txs, ds
}

func (g *c19Gen) randomBlock() ([][]byte, []string) {
	ch, r := g.ch, g.r
	var txs [][]byte
	var ds []string
	used := map[int]bool{}
	c := func(d string, n int64) sdk.Coin { return sdk.NewCoin(d, sdkmath.NewInt(n)) }
	n := r.Intn(6)
	if g.forceKind != 0 && n == 0 {
		n = 1
	}
	for k := 0; k < n; k++ {
		ai := r.Intn(len(ch.Accs))
		if used[ai] {
			continue // one tx per account per block keeps the sequence bookkeeping independent of failures
		}
		used[ai] = true
		a := g.acc(ai)
		var msg sdk.Msg
		d := ""
		kind := r.Intn(19)
		if r.Intn(5) < 2 {
			kind = 19 + r.Intn(16)
		}
		if g.forceKind != 0 && k == 0 {
			kind = g.forceKind
		}
		switch kind {
		case 19: // validator-set preference
			w := int64(1 + r.Intn(99))
			prefs := []valsettypes.ValidatorPreference{{ValOperAddress: ch.Vals[0].OpAddr.String(), Weight: osmomath.NewDecWithPrec(w, 2)}, {ValOperAddress: ch.Vals[1%len(ch.Vals)].OpAddr.String(), Weight: osmomath.NewDecWithPrec(100-w, 2)}}
			if r.Intn(3) == 0 {
				msg, d = &valsettypes.MsgRedelegateValidatorSet{Delegator: a.Addr.String(), Preferences: prefs}, "valset redelegate"
			} else {
				msg, d = &valsettypes.MsgSetValidatorSetPreference{Delegator: a.Addr.String(), Preferences: prefs}, "valset set"
			}
		case 20:
			msg, d = &valsettypes.MsgDelegateToValidatorSet{Delegator: a.Addr.String(), Coin: c("uosmo", 1000+r.I64n(3000000000))}, "valset delegate"
		case 21:
			if r.Intn(8) == 0 {
				msg, d = &valsettypes.MsgUndelegateFromValidatorSet{Delegator: a.Addr.String(), Coin: c("uosmo", 1000+r.I64n(30000000))}, "valset undelegate"
			} else {
				msg, d = &valsettypes.MsgUndelegateFromRebalancedValidatorSet{Delegator: a.Addr.String(), Coin: c("uosmo", 1000+r.I64n(30000000))}, "valset undelegate rebalanced"
			}
		case 22:
			msg, d = &valsettypes.MsgWithdrawDelegationRewards{Delegator: a.Addr.String()}, "valset withdraw rewards"
		case 23: // plain staking and distribution
			v := ch.Vals[r.Intn(len(ch.Vals))].OpAddr.String()
			switch r.Intn(4) {
			case 0, 1:
				msg, d = &stakingtypes.MsgDelegate{DelegatorAddress: a.Addr.String(), ValidatorAddress: v, Amount: c("uosmo", 1000+r.I64n(5000000000))}, "stake"
			case 2:
				msg, d = &stakingtypes.MsgUndelegate{DelegatorAddress: a.Addr.String(), ValidatorAddress: v, Amount: c("uosmo", 1000+r.I64n(50000000))}, "unstake"
			default:
				msg, d = &distrtypes.MsgWithdrawDelegatorReward{DelegatorAddress: a.Addr.String(), ValidatorAddress: v}, "withdraw staking reward"
			}
		case 24: // token factory administration
			if g.tfDenom == "" {
				continue
			}
			am, err := ch.App.TokenFactoryKeeper.GetAuthorityMetadata(ch.Ctx, g.tfDenom)
			if err != nil || am.Admin == "" {
				continue
			}
			admIdx := -1
			for i := range ch.Accs {
				if ch.Accs[i].Addr.String() == am.Admin {
					admIdx = i
				}
			}
			if admIdx < 0 || (used[admIdx] && admIdx != ai) {
				continue
			}
			used[admIdx] = true
			adm := g.acc(admIdx)
			switch r.Intn(3) {
			case 0:
				msg, d = &tftypes.MsgChangeAdmin{Sender: adm.Addr.String(), Denom: g.tfDenom, NewAdmin: g.acc(r.Intn(8)).Addr.String()}, "tf change admin"
			case 1:
				exp := uint32(1 + r.Intn(18))
				msg, d = &tftypes.MsgSetDenomMetadata{Sender: adm.Addr.String(), Metadata: banktypes.Metadata{Description: fmt.Sprintf("tok v%d", r.Intn(1000)), Base: g.tfDenom, Display: "tok", Name: "tok", Symbol: "TOK",
					DenomUnits: []*banktypes.DenomUnit{{Denom: g.tfDenom, Exponent: 0}, {Denom: "tok", Exponent: exp}}}}, "tf metadata"
			default:
				msg, d = &tftypes.MsgMint{Sender: adm.Addr.String(), Amount: c(g.tfDenom, 1+r.I64n(1000000)), MintToAddress: g.acc(r.Intn(8)).Addr.String()}, "tf mint"
			}
			txs = append(txs, g.sign(adm, msg))
			ds = append(ds, d)
			continue
		case 25: // concentrated positions: add, transfer
			ps, _ := ch.App.ConcentratedLiquidityKeeper.GetUserPositions(ch.Ctx, a.Addr, 3)
			if len(ps) == 0 {
				continue
			}
			p := ps[r.Intn(len(ps))]
			if r.Intn(3) > 0 {
				msg, d = &cltypes.MsgAddToPosition{PositionId: p.PositionId, Sender: a.Addr.String(), Amount0: sdkmath.NewInt(1000 + r.I64n(900000000)), Amount1: sdkmath.NewInt(1000 + r.I64n(900000000)), TokenMinAmount0: sdkmath.ZeroInt(), TokenMinAmount1: sdkmath.ZeroInt()}, "cl add"
			} else {
				msg, d = &cltypes.MsgTransferPositions{PositionIds: []uint64{p.PositionId}, Sender: a.Addr.String(), NewOwner: g.acc(r.Intn(8)).Addr.String()}, "cl transfer"
			}
		case 26: // external incentives on the concentrated pool; more lock gauges
			if r.Bool() {
				msg, d = &incentivestypes.MsgCreateGauge{IsPerpetual: r.Intn(3) == 0, Owner: a.Addr.String(), DistributeTo: lockuptypes.QueryCondition{LockQueryType: lockuptypes.NoLock, Duration: []time.Duration{time.Nanosecond, time.Minute, time.Hour}[r.Intn(3)]}, Coins: sdk.NewCoins(c([]string{"uosmo", "foo"}[r.Intn(2)], 100000+r.I64n(9000000000))), StartTime: ch.Ctx.BlockTime(), NumEpochsPaidOver: uint64(1 + r.Intn(4)), PoolId: 3}, "gauge nolock"
				if msg.(*incentivestypes.MsgCreateGauge).IsPerpetual {
					msg.(*incentivestypes.MsgCreateGauge).NumEpochsPaidOver = 1
				}
			} else {
				msg, d = &incentivestypes.MsgCreateGauge{IsPerpetual: false, Owner: a.Addr.String(), DistributeTo: lockuptypes.QueryCondition{LockQueryType: lockuptypes.ByDuration, Denom: "gamm/pool/1", Duration: []time.Duration{time.Hour, 3 * time.Hour, 7 * time.Hour}[r.Intn(3)]},
					Coins: sdk.NewCoins(c("uosmo", 100000+r.I64n(900000000)), c("foo", 100000+r.I64n(900000000))), StartTime: ch.Ctx.BlockTime().Add(time.Duration(r.I64n(int64(2 * time.Hour)))), NumEpochsPaidOver: uint64(1 + r.Intn(5))}, "gauge lock 2 denoms"
			}
		case 27: // the remaining classic-pool messages, stableswap and multi-asset pools
			switch r.Intn(5) {
			case 0:
				msg, d = &gammtypes.MsgJoinSwapShareAmountOut{Sender: a.Addr.String(), PoolId: 1, TokenInDenom: "foo", ShareOutAmount: gammtypes.OneShare.QuoRaw(10 + r.I64n(1000)), TokenInMaxAmount: sdkmath.NewIntWithDecimal(1, 30)}, "join share out"
			case 1:
				msg, d = &gammtypes.MsgExitSwapExternAmountOut{Sender: a.Addr.String(), PoolId: 1, TokenOut: c("uosmo", 1000+r.I64n(1000000)), ShareInMaxAmount: sdkmath.NewIntWithDecimal(1, 30)}, "exit extern out"
			case 2:
				msg, d = &gammtypes.MsgJoinPool{Sender: a.Addr.String(), PoolId: 2, ShareOutAmount: gammtypes.OneShare.QuoRaw(1 + r.I64n(100)), TokenInMaxs: sdk.NewCoins(c("bar", 900000000000), c("foo", 900000000000))}, "join stableswap"
			case 3:
				msg, d = &gammtypes.MsgJoinPool{Sender: a.Addr.String(), PoolId: 4, ShareOutAmount: gammtypes.OneShare.QuoRaw(1 + r.I64n(100)), TokenInMaxs: sdk.NewCoins()}, "join 3-asset"
			default:
				id := uint64([]int{2, 4}[r.Intn(2)])
				have := ch.Bal(a.Addr, fmt.Sprintf("gamm/pool/%d", id))
				if !have.IsPositive() {
					continue
				}
				msg, d = &gammtypes.MsgExitPool{Sender: a.Addr.String(), PoolId: id, ShareInAmount: sdkmath.MaxInt(sdkmath.OneInt(), have.QuoRaw(2+r.I64n(20))), TokenOutMins: sdk.NewCoins()}, "exit other pool"
			}
		case 28: // split exact-out; lockup partial unlock / unlock all
			switch r.Intn(3) {
			case 0:
				msg, d = &poolmanagertypes.MsgSplitRouteSwapExactAmountOut{Sender: a.Addr.String(), TokenOutDenom: "uosmo", TokenInMaxAmount: sdkmath.NewIntWithDecimal(1, 30), Routes: []poolmanagertypes.SwapAmountOutSplitRoute{
					{Pools: []poolmanagertypes.SwapAmountOutRoute{{PoolId: 3, TokenInDenom: "bar"}}, TokenOutAmount: sdkmath.NewInt(1000 + r.I64n(9000000))}, {Pools: []poolmanagertypes.SwapAmountOutRoute{{PoolId: 2, TokenInDenom: "bar"}, {PoolId: 1, TokenInDenom: "foo"}}, TokenOutAmount: sdkmath.NewInt(1000 + r.I64n(9000000))}}}, "split out"
			case 1:
				ls := ch.App.LockupKeeper.GetAccountPeriodLocks(ch.Ctx, a.Addr)
				if len(ls) == 0 {
					continue
				}
				l := ls[r.Intn(len(ls))]
				if len(l.Coins) != 1 || !l.Coins[0].Amount.GT(sdkmath.NewInt(3)) {
					continue
				}
				msg, d = &lockuptypes.MsgBeginUnlocking{Owner: a.Addr.String(), ID: l.ID, Coins: sdk.NewCoins(sdk.NewCoin(l.Coins[0].Denom, l.Coins[0].Amount.QuoRaw(2+r.I64n(3))))}, "partial unlock"
			default:
				msg, d = &lockuptypes.MsgBeginUnlockingAll{Owner: a.Addr.String()}, "unlock all"
			}
		case 29: // smart-account authenticators
			auths, _ := ch.App.SmartAccountKeeper.GetAuthenticatorDataForAccount(ch.Ctx, a.Addr)
			if len(auths) > 0 && r.Bool() {
				msg, d = &smartaccounttypes.MsgRemoveAuthenticator{Sender: a.Addr.String(), Id: auths[r.Intn(len(auths))].Id}, "remove authenticator"
			} else if r.Bool() {
				msg, d = &smartaccounttypes.MsgAddAuthenticator{Sender: a.Addr.String(), AuthenticatorType: "SignatureVerification", Data: g.acc(r.Intn(8)).Priv.PubKey().Bytes()}, "add authenticator sig"
			} else {
				msg, d = &smartaccounttypes.MsgAddAuthenticator{Sender: a.Addr.String(), AuthenticatorType: "MessageFilter", Data: []byte(`{"@type":"/cosmos.bank.v1beta1.MsgSend"}`)}, "add authenticator filter"
			}
		case 30: // superfluid through a concentrated full-range position
			if r.Bool() {
				msg, d = &sftypes.MsgCreateFullRangePositionAndSuperfluidDelegate{Sender: a.Addr.String(), Coins: sdk.NewCoins(c("bar", 100000+r.I64n(2000000000)), c("uosmo", 100000+r.I64n(1000000000))), ValAddr: ch.Vals[r.Intn(len(ch.Vals))].OpAddr.String(), PoolId: 3}, "superfluid cl-create"
			} else {
				ps, _ := ch.App.ConcentratedLiquidityKeeper.GetUserPositions(ch.Ctx, a.Addr, 3)
				var sfp []uint64
				for _, p := range ps {
					if ok, _, _ := ch.App.ConcentratedLiquidityKeeper.PositionHasActiveUnderlyingLock(ch.Ctx, p.PositionId); ok {
						sfp = append(sfp, p.PositionId)
					}
				}
				if len(sfp) == 0 {
					continue
				}
				msg, d = &sftypes.MsgAddToConcentratedLiquiditySuperfluidPosition{PositionId: sfp[r.Intn(len(sfp))], Sender: a.Addr.String(), TokenDesired0: c("bar", 1000+r.I64n(100000000)), TokenDesired1: c("uosmo", 1000+r.I64n(100000000))}, "superfluid cl-add"
			}
		case 34: // a swap or single-asset join larger than the pool's own reserve of the token going in
			pid := uint64([]int{1, 2, 4, 5, 3}[r.Intn(5)])
			if g.forceKind == 34 {
				pid = 4
			}
			denoms, err := ch.App.PoolManagerKeeper.RouteGetPoolDenoms(ch.Ctx, pid)
			if err != nil || len(denoms) < 2 {
				continue
			}
			din := denoms[r.Intn(len(denoms))]
			dout := denoms[r.Intn(len(denoms))]
			if din == dout {
				continue
			}
			pl, err := ch.App.PoolManagerKeeper.GetPool(ch.Ctx, pid)
			if err != nil {
				continue
			}
			reserve := ch.Bal(pl.GetAddress(), din)
			if !reserve.IsPositive() {
				continue
			}
			amt := reserve.MulRaw(1 + r.I64n(3)).AddRaw(r.I64n(1000000))
			if r.Intn(3) == 0 && pid != 3 && pid != 2 {
				msg, d = &gammtypes.MsgJoinSwapExternAmountIn{Sender: a.Addr.String(), PoolId: pid, TokenIn: sdk.NewCoin(din, amt), ShareOutMinAmount: sdkmath.OneInt()}, "whale join"
			} else {
				msg, d = &poolmanagertypes.MsgSwapExactAmountIn{Sender: a.Addr.String(), Routes: []poolmanagertypes.SwapAmountInRoute{{PoolId: pid, TokenOutDenom: dout}}, TokenIn: sdk.NewCoin(din, amt), TokenOutMinAmount: sdkmath.OneInt()}, "whale swap"
			}
		case 32: // a transaction that creates a pool and then fails as a whole (the pool id is handed out again later)
			bm := balancer.NewMsgCreateBalancerPool(a.Addr, balancer.NewPoolParams(osmomath.MustNewDecFromStr("0.003"), osmomath.ZeroDec(), nil),
				[]balancer.PoolAsset{{Weight: sdkmath.NewInt(1), Token: c("uosmo", 1000000+r.I64n(1000000))}, {Weight: sdkmath.NewInt(1), Token: c("baz", 1000000+r.I64n(1000000))}}, "")
			bad := &banktypes.MsgSend{FromAddress: a.Addr.String(), ToAddress: g.acc(r.Intn(8)).Addr.String(), Amount: sdk.NewCoins(sdk.NewCoin("foo", sdkmath.NewIntWithDecimal(1, 60)))}
			txs = append(txs, g.sign(a, &bm, bad))
			ds = append(ds, "create-pool then fail")
			continue
		case 33: // a new pool of a random type (the scheduled one is concentrated: another pool module than the failed creation's)
			pt := r.Intn(3)
			if g.forceKind == 33 {
				pt = 0
			}
			switch pt {
			case 0:
				cm := clmodel.NewMsgCreateConcentratedPool(a.Addr, []string{"baz", "foo", "bar"}[r.Intn(3)], "uosmo", []uint64{1, 10, 100, 1000}[r.Intn(4)], osmomath.MustNewDecFromStr([]string{"0.0001", "0.0005", "0.003", "0.001"}[r.Intn(4)]))
				msg, d = &cm, "create-pool cl"
			case 1:
				sm := stableswap.NewMsgCreateStableswapPool(a.Addr, stableswap.PoolParams{SwapFee: osmomath.MustNewDecFromStr("0.002"), ExitFee: osmomath.ZeroDec()}, sdk.NewCoins(c("baz", 1000000+r.I64n(9000000)), c("bar", 1000000+r.I64n(9000000))), []uint64{1, 1}, "")
				msg, d = &sm, "create-pool stableswap"
			default:
				bm := balancer.NewMsgCreateBalancerPool(a.Addr, balancer.NewPoolParams(osmomath.MustNewDecFromStr("0.005"), osmomath.ZeroDec(), nil),
					[]balancer.PoolAsset{{Weight: sdkmath.NewInt(int64(1 + r.Intn(5))), Token: c("foo", 1000000+r.I64n(9000000))}, {Weight: sdkmath.NewInt(int64(1 + r.Intn(5))), Token: c("baz", 1000000+r.I64n(9000000))}}, "")
				msg, d = &bm, "create-pool balancer"
			}
		case 31: // protorev administration
			adm := g.acc(7)
			if used[7] && ai != 7 {
				continue
			}
			used[7] = true
			switch r.Intn(3) {
			case 0:
				msg, d = &protorevtypes.MsgSetDeveloperAccount{Admin: adm.Addr.String(), DeveloperAccount: g.acc(r.Intn(8)).Addr.String()}, "protorev developer"
			case 1:
				msg, d = &protorevtypes.MsgSetHotRoutes{Admin: adm.Addr.String(), HotRoutes: []protorevtypes.TokenPairArbRoutes{{TokenIn: "foo", TokenOut: "bar", ArbRoutes: []protorevtypes.Route{{StepSize: sdkmath.NewInt(int64(100000 * (1 + r.Intn(50)))), Trades: []protorevtypes.Trade{{Pool: 3, TokenIn: "uosmo", TokenOut: "bar"}, {Pool: 0, TokenIn: "bar", TokenOut: "foo"}, {Pool: 1, TokenIn: "foo", TokenOut: "uosmo"}}}}}}}, "protorev hot routes"
			default:
				msg, d = &protorevtypes.MsgSetMaxPoolPointsPerTx{Admin: adm.Addr.String(), MaxPoolPointsPerTx: uint64(5 + r.Intn(40))}, "protorev points"
			}
			txs = append(txs, g.sign(adm, msg))
			ds = append(ds, d)
			continue
		case 0, 1:
			routes := [][]poolmanagertypes.SwapAmountInRoute{
				{{PoolId: 1, TokenOutDenom: "uosmo"}}, {{PoolId: 1, TokenOutDenom: "uosmo"}, {PoolId: 3, TokenOutDenom: "bar"}}, {{PoolId: 1, TokenOutDenom: "uosmo"}, {PoolId: 3, TokenOutDenom: "bar"}, {PoolId: 2, TokenOutDenom: "foo"}},
				{{PoolId: 2, TokenOutDenom: "bar"}, {PoolId: 4, TokenOutDenom: "baz"}},
				{{PoolId: 5, TokenOutDenom: "uosmo"}}, {{PoolId: 5, TokenOutDenom: "uosmo"}, {PoolId: 4, TokenOutDenom: "bar"}},
			}
			rt := routes[r.Intn(len(routes))]
			min := sdkmath.OneInt()
			if r.Intn(6) == 0 {
				min = sdkmath.NewIntWithDecimal(1, 30) // must fail
			}
			msg, d = &poolmanagertypes.MsgSwapExactAmountIn{Sender: a.Addr.String(), Routes: rt, TokenIn: c("foo", 1000+r.I64n(50000000)), TokenOutMinAmount: min}, "swap in"
		case 2:
			msg, d = &poolmanagertypes.MsgSwapExactAmountOut{Sender: a.Addr.String(), Routes: []poolmanagertypes.SwapAmountOutRoute{{PoolId: 3, TokenInDenom: "uosmo"}, {PoolId: 2, TokenInDenom: "bar"}}, TokenOut: c("foo", 1000+r.I64n(5000000)), TokenInMaxAmount: sdkmath.NewIntWithDecimal(1, 30)}, "swap out"
		case 3:
			msg, d = &poolmanagertypes.MsgSplitRouteSwapExactAmountIn{Sender: a.Addr.String(), TokenInDenom: "bar", TokenOutMinAmount: sdkmath.OneInt(), Routes: []poolmanagertypes.SwapAmountInSplitRoute{
				{Pools: []poolmanagertypes.SwapAmountInRoute{{PoolId: 3, TokenOutDenom: "uosmo"}}, TokenInAmount: sdkmath.NewInt(1000 + r.I64n(9000000))}, {Pools: []poolmanagertypes.SwapAmountInRoute{{PoolId: 4, TokenOutDenom: "uosmo"}}, TokenInAmount: sdkmath.NewInt(1000 + r.I64n(9000000))}}}, "split"
		case 4:
			msg, d = &gammtypes.MsgJoinSwapExternAmountIn{Sender: a.Addr.String(), PoolId: uint64(1 + 3*r.Intn(2)), TokenIn: c("uosmo", 100000+r.I64n(90000000)), ShareOutMinAmount: sdkmath.OneInt()}, "join single"
		case 5:
			have := ch.Bal(a.Addr, "gamm/pool/1")
			if !have.IsPositive() {
				continue
			}
			msg, d = &gammtypes.MsgExitPool{Sender: a.Addr.String(), PoolId: 1, ShareInAmount: sdkmath.MaxInt(sdkmath.OneInt(), have.QuoRaw(10+r.I64n(50))), TokenOutMins: sdk.NewCoins()}, "exit"
		case 6:
			cur := int64(0)
			if p, err := ch.App.ConcentratedLiquidityKeeper.GetConcentratedPoolById(ch.Ctx, 3); err == nil {
				cur = roundDown(p.GetCurrentTick(), 100)
			}
			msg, d = &cltypes.MsgCreatePosition{PoolId: 3, Sender: a.Addr.String(), LowerTick: cur - 100*(1+r.I64n(50)), UpperTick: cur + 100*(1+r.I64n(50)), TokensProvided: sdk.NewCoins(c("bar", 1000+r.I64n(9000000000)), c("uosmo", 1000+r.I64n(9000000000))), TokenMinAmount0: sdkmath.ZeroInt(), TokenMinAmount1: sdkmath.ZeroInt()}, "cl create"
		case 7:
			ps, _ := ch.App.ConcentratedLiquidityKeeper.GetUserPositions(ch.Ctx, a.Addr, 3)
			if len(ps) == 0 {
				continue
			}
			p := ps[r.Intn(len(ps))]
			switch r.Intn(3) {
			case 0:
				msg, d = &cltypes.MsgWithdrawPosition{PositionId: p.PositionId, Sender: a.Addr.String(), LiquidityAmount: p.Liquidity.QuoInt64(2 + r.I64n(5))}, "cl withdraw"
			case 1:
				msg, d = &cltypes.MsgCollectSpreadRewards{PositionIds: []uint64{p.PositionId}, Sender: a.Addr.String()}, "cl collect"
			default:
				msg, d = &cltypes.MsgCollectIncentives{PositionIds: []uint64{p.PositionId}, Sender: a.Addr.String()}, "cl collect inc"
			}
		case 8:
			have := ch.Bal(a.Addr, "gamm/pool/1")
			if !have.IsPositive() {
				continue
			}
			msg, d = &lockuptypes.MsgLockTokens{Owner: a.Addr.String(), Duration: []time.Duration{time.Hour, 3 * time.Hour, 7 * time.Hour, 14 * 24 * time.Hour, 21 * 24 * time.Hour}[r.Intn(5)] + time.Duration(r.Intn(3)*r.Intn(25))*time.Minute, Coins: sdk.NewCoins(sdk.NewCoin("gamm/pool/1", sdkmath.MaxInt(sdkmath.OneInt(), have.QuoRaw(5+r.I64n(20)))))}, "lock"
		case 9:
			ls := ch.App.LockupKeeper.GetAccountPeriodLocks(ch.Ctx, a.Addr)
			if len(ls) == 0 {
				continue
			}
			l := ls[r.Intn(len(ls))]
			if r.Bool() {
				msg, d = &lockuptypes.MsgBeginUnlocking{Owner: a.Addr.String(), ID: l.ID}, "begin unlock"
			} else {
				msg, d = &lockuptypes.MsgExtendLockup{Owner: a.Addr.String(), ID: l.ID, Duration: l.Duration + time.Hour}, "extend"
			}
		case 10:
			msg, d = &incentivestypes.MsgAddToGauge{Owner: a.Addr.String(), GaugeId: uint64(1 + r.Intn(8)), Rewards: sdk.NewCoins(c("uosmo", 1000+r.I64n(90000000)))}, "add to gauge"
		case 11:
			if g.tfDenom == "" {
				continue
			}
			if r.Intn(4) == 0 && (ai == 3 || !used[3]) {
				// the former administrator of the renounced denom tries again: refused on every node, imported or not
				used[3] = true
				gone := "factory/" + g.acc(3).Addr.String() + "/gone"
				var m sdk.Msg = &tftypes.MsgMint{Sender: g.acc(3).Addr.String(), Amount: c(gone, 1+r.I64n(1000)), MintToAddress: g.acc(3).Addr.String()}
				if r.Bool() {
					m = &tftypes.MsgChangeAdmin{Sender: g.acc(3).Addr.String(), Denom: gone, NewAdmin: g.acc(3).Addr.String()}
				}
				txs = append(txs, g.sign(g.acc(3), m))
				ds = append(ds, "tf renounced denom")
				continue
			}
			am, err := ch.App.TokenFactoryKeeper.GetAuthorityMetadata(ch.Ctx, g.tfDenom)
			if err != nil || am.Admin == "" {
				continue
			}
			admIdx := -1
			for i := range ch.Accs {
				if ch.Accs[i].Addr.String() == am.Admin {
					admIdx = i
				}
			}
			if admIdx < 0 || (used[admIdx] && admIdx != ai) {
				continue
			}
			used[admIdx] = true
			adm := g.acc(admIdx)
			switch r.Intn(3) {
			case 0:
				msg, d = &tftypes.MsgMint{Sender: adm.Addr.String(), Amount: c(g.tfDenom, 1+r.I64n(1000000)), MintToAddress: g.acc(r.Intn(8)).Addr.String()}, "tf mint"
			case 1:
				msg, d = &tftypes.MsgBurn{Sender: adm.Addr.String(), Amount: c(g.tfDenom, 1+r.I64n(1000)), BurnFromAddress: adm.Addr.String()}, "tf burn"
			default:
				msg, d = &tftypes.MsgForceTransfer{Sender: adm.Addr.String(), Amount: c(g.tfDenom, 1+r.I64n(1000)), TransferFromAddress: adm.Addr.String(), TransferToAddress: g.acc(r.Intn(8)).Addr.String()}, "tf force transfer"
			}
			txs = append(txs, g.sign(adm, msg))
			ds = append(ds, d)
			continue
		case 12:
			msg, d = &banktypes.MsgSend{FromAddress: a.Addr.String(), ToAddress: g.acc(r.Intn(8)).Addr.String(), Amount: sdk.NewCoins(c([]string{"uosmo", "foo", "bar", "baz"}[r.Intn(4)], 1+r.I64n(1000000)))}, "send"
		case 13:
			msg, d = &gammtypes.MsgExitSwapShareAmountIn{Sender: a.Addr.String(), PoolId: 1, TokenOutDenom: "foo", ShareInAmount: gammtypes.OneShare.QuoRaw(100 + r.I64n(1000)), TokenOutMinAmount: sdkmath.OneInt()}, "exit swap"
		case 16:
			have := ch.Bal(a.Addr, "gamm/pool/1")
			if !have.IsPositive() {
				continue
			}
			msg, d = &sftypes.MsgLockAndSuperfluidDelegate{Sender: a.Addr.String(), Coins: sdk.NewCoins(sdk.NewCoin("gamm/pool/1", sdkmath.MaxInt(sdkmath.OneInt(), have.QuoRaw(5+r.I64n(20))))), ValAddr: ch.Vals[r.Intn(len(ch.Vals))].OpAddr.String()}, "superfluid lock-and-delegate"
		case 17, 18:
			ls := ch.App.LockupKeeper.GetAccountPeriodLocks(ch.Ctx, a.Addr)
			if len(ls) == 0 {
				continue
			}
			l := ls[r.Intn(len(ls))]
			if r.Intn(4) > 0 { // prefer a lock that is (un)delegating
				var sl []lockuptypes.PeriodLock
				for _, x := range ls {
					if ch.App.LockupKeeper.HasAnySyntheticLockups(ch.Ctx, x.ID) {
						sl = append(sl, x)
					}
				}
				if len(sl) > 0 {
					l = sl[r.Intn(len(sl))]
				}
			}
			switch r.Intn(3) {
			case 0:
				msg, d = &sftypes.MsgSuperfluidDelegate{Sender: a.Addr.String(), LockId: l.ID, ValAddr: ch.Vals[r.Intn(len(ch.Vals))].OpAddr.String()}, "superfluid delegate"
			case 1:
				msg, d = &sftypes.MsgSuperfluidUndelegate{Sender: a.Addr.String(), LockId: l.ID}, "superfluid undelegate"
			default:
				msg, d = &sftypes.MsgSuperfluidUnbondLock{Sender: a.Addr.String(), LockId: l.ID}, "superfluid unbond"
			}
		case 14:
			msg, d = &poolmanagertypes.MsgSwapExactAmountIn{Sender: a.Addr.String(), Routes: []poolmanagertypes.SwapAmountInRoute{{PoolId: 3, TokenOutDenom: "bar"}}, TokenIn: c("uosmo", 1000+r.I64n(900000000)), TokenOutMinAmount: sdkmath.OneInt()}, "cl swap"
		default:
			msg, d = &poolmanagertypes.MsgSwapExactAmountIn{Sender: a.Addr.String(), Routes: []poolmanagertypes.SwapAmountInRoute{{PoolId: 3, TokenOutDenom: "uosmo"}}, TokenIn: c("bar", 1000+r.I64n(900000000)), TokenOutMinAmount: sdkmath.OneInt()}, "cl swap back"
		}
		if msg == nil {
			continue
		}
		txs = append(txs, g.sign(a, msg))
		ds = append(ds, d)
	}
	return txs, ds
}

// sign pays the fee in the registered non-native fee token in every fifth transaction (once it is registered)
func (g *c19Gen) sign(a chain.Account, msgs ...sdk.Msg) []byte {
	if g.ch.Height > 6 && g.r.Intn(5) == 0 {
		return g.ch.SignTx(a, chain.DefaultGas, sdk.NewCoins(sdk.NewCoin("foo", sdkmath.NewInt(int64(chain.DefaultGas)))), msgs...)
	}
	return g.ch.Tx(a, msgs...)
}

// ---------------------------------------------------------------- roles

func c19RunRole(c *vk.Ctx) bool {
	role := os.Getenv("VERIF_C19_ROLE")
	if role == "" {
		return false
	}
	dir := os.Getenv("VERIF_C19_DIR")
	nBlocks, _ := strconv.Atoi(os.Getenv("VERIF_C19_BLOCKS"))
	hseed, _ := strconv.ParseUint(os.Getenv("VERIF_C19_HSEED"), 10, 64)
	tag := os.Getenv("VERIF_C19_TAG")
	if v := os.Getenv("VERIF_C19_BASEFEE"); v != "" {
		// fault injection on process-local state: this node's in-memory fee market starts from another value, as on a
		// node restarted from its backup file. It is mempool policy only; blocks must execute exactly as elsewhere.
		mempool1559.CurEipState.CurBaseFee = osmomath.MustNewDecFromStr(v)
	}
	switch role {
	case "primary":
		ch := chain.New(c19Options())
		defer ch.Close()
		g := &c19Gen{ch: ch, r: vk.NewRng(hseed)}
		exportEvery := 7 + int(hseed%9)
		var lastTime time.Time
		var side *c19Side
		if os.Getenv("VERIF_C19_CONCURRENT") != "" {
			side = &c19Side{ch: ch}
			side.nowNs.Store(ch.Time.UnixNano())
			ch.BeforeCommit = side.waitMempool
			side.start(3, hseed)
		}
		for b := 0; b < nBlocks; b++ {
			var txs [][]byte
			var ds []string
			if b < 6 {
				txs, ds = g.setupBlock(b)
			} else {
				// every history has a pool creation that fails as a whole and, after at least one export point, the
				// creation of a pool of another type (which is handed the same pool id)
				g.forceKind = 0
				if b == 7 {
					g.forceKind = 34 // a swap larger than the reserve on the pool with weights 3:1:1, before the first export
				}
				if b == 9 {
					g.forceKind = 32
				}
				if b == 12+exportEvery && b < nBlocks-4 {
					g.forceKind = 33
				}
				txs, ds = g.randomBlock()
				g.forceKind = 0
			}
			dt := 5 * time.Second
			switch g.r.Intn(9) {
			case 0:
				dt = time.Hour + time.Duration(g.r.I64n(int64(time.Minute)))
			case 1:
				dt = time.Duration(1 + g.r.I64n(int64(20*time.Minute)))
			case 2:
				dt = time.Millisecond * time.Duration(1+g.r.I64n(2000))
			}
			blk := c19Block{Height: ch.Height, TimeNs: ch.Time.UnixNano(), Descs: ds}
			if b == 3 {
				blk.Admin = []string{"superfluid-asset:gamm/pool/1", "tf-empty-admin:factory/" + g.acc(3).Addr.String() + "/gone"}
			}
			if b == 4 {
				blk.Admin = []string{"fee-token:foo:1", "distr-records:1,3,4", "superfluid-cl-asset:3"}
			}
			c19ApplyAdmin(ch, blk.Admin)
			for _, t := range txs {
				blk.Txs = append(blk.Txs, base64.StdEncoding.EncodeToString(t))
			}
			h := ch.Height
			lastTime = ch.Time
			c19TraceSwitch(dir, "primary", h)
			if side != nil {
				side.nowNs.Store(ch.Time.UnixNano())
				side.mempoolLoad(txs)
			}
			res := ch.NextBlock(dt, txs...)
			c19TraceSwitch(dir, "primary", -1)
			writeJSONL(filepath.Join(dir, "history.jsonl"), blk)
			writeJSONL(filepath.Join(dir, "trace-primary.jsonl"), c19Trace(res, h, true))
			c19MaybeDump(ch, dir, "primary", h)
			epochBlock := strings.Contains(renderEvents(res.Events), "epoch_start")
			if b >= 6 && b < nBlocks-3 && (b%exportEvery == exportEvery-1 || epochBlock) {
				exp, err := ch.App.ExportAppStateAndValidators(false, nil, nil)
				if err != nil {
					panic(fmt.Sprintf("export at height %d: %v", h, err))
				}
				eb, _ := json.Marshal(c19Export{Height: h, TimeNs: lastTime.UnixNano(), AppState: exp.AppState})
				os.WriteFile(filepath.Join(dir, fmt.Sprintf("export-%d.json", h)), eb, 0o644)
				os.WriteFile(filepath.Join(dir, fmt.Sprintf("prmap-export-%d.txt", h)), []byte(c19ProtorevMap(ch, ch.Ctx)), 0o644)
			}
		}
		if side != nil {
			side.finish()
			sb, _ := json.Marshal(map[string]int64{"concurrent_queries": side.nQuery.Load(), "concurrent_queries_ok": side.nQueryOK.Load(), "concurrent_checktx_ok": side.nCheck.Load(), "concurrent_simulate_ok": side.nSim.Load()})
			os.WriteFile(filepath.Join(dir, "side.json"), sb, 0o644)
		}
		ch.Time = lastTime.Add(5 * time.Second)
		ch.ResetCtx()
		c19FinalState(ch, filepath.Join(dir, "final-primary.json"))
	case "replica", "import":
		blocks := c19ReadHistory(filepath.Join(dir, "history.jsonl"))
		var ch *chain.Chain
		start := int64(0)
		if role == "import" {
			eb, err := os.ReadFile(os.Getenv("VERIF_C19_EXPORT"))
			if err != nil {
				panic(err)
			}
			var exp c19Export
			if err := json.Unmarshal(eb, &exp); err != nil {
				panic(err)
			}
			o := c19Options()
			o.GenesisMutator = nil
			o.AppState = exp.AppState
			o.InitialHeight = exp.Height + 1
			o.NoFirstBlock = true
			o.GenesisTime = time.Unix(0, exp.TimeNs).UTC()
			ch = chain.New(o)
			start = exp.Height
			// (InitChain's writes live in the finalize-block branch until the first commit)
			os.WriteFile(filepath.Join(dir, fmt.Sprintf("prmap-%s.txt", tag)), []byte(c19ProtorevMap(ch, ch.App.NewContextLegacy(false, ch.Ctx.BlockHeader()))), 0o644)
		} else {
			ch = chain.New(c19Options())
		}
		defer ch.Close()
		for _, blk := range blocks {
			if blk.Height <= start {
				continue
			}
			if blk.Height != ch.Height {
				panic(fmt.Sprintf("history height %d, chain height %d", blk.Height, ch.Height))
			}
			var txs [][]byte
			for _, t := range blk.Txs {
				bz, _ := base64.StdEncoding.DecodeString(t)
				txs = append(txs, bz)
			}
			ch.Time = time.Unix(0, blk.TimeNs).UTC()
			ch.ResetCtx()
			c19ApplyAdmin(ch, blk.Admin)
			c19TraceSwitch(dir, tag, blk.Height)
			res := ch.NextBlock(0, txs...)
			c19TraceSwitch(dir, tag, -1)
			writeJSONL(filepath.Join(dir, "trace-"+tag+".jsonl"), c19Trace(res, blk.Height, true))
			c19MaybeDump(ch, dir, tag, blk.Height)
			if os.Getenv("VERIF_C19_CLLIQ") != "" {
				if p, err := ch.App.ConcentratedLiquidityKeeper.GetConcentratedPoolById(ch.Ctx, 3); err == nil {
					fmt.Printf("CLLIQ h=%d tracker=%s pool=%s descs=%v\n", blk.Height, ch.App.ConcentratedLiquidityKeeper.GetDenomLiquidity(ch.Ctx, "bar"), ch.Bal(p.GetAddress(), "bar"), blk.Descs)
				}
			}
		}
		// the final state is read as of the same pending-block time in every process
		ch.Time = time.Unix(0, blocks[len(blocks)-1].TimeNs).UTC().Add(5 * time.Second)
		ch.ResetCtx()
		c19FinalState(ch, filepath.Join(dir, "final-"+tag+".json"))
	}
	return true
}

func c19ReadHistory(path string) []c19Block {
	bz, err := os.ReadFile(path)
	if err != nil {
		panic(err)
	}
	var out []c19Block
	for _, ln := range strings.Split(strings.TrimSpace(string(bz)), "\n") {
		var b c19Block
		if err := json.Unmarshal([]byte(ln), &b); err != nil {
			panic(err)
		}
		out = append(out, b)
	}
	return out
}

func c19ReadTrace(path string) map[int64]c19BlockTrace {
	out := map[int64]c19BlockTrace{}
	bz, err := os.ReadFile(path)
	if err != nil {
		return out
	}
	for _, ln := range strings.Split(strings.TrimSpace(string(bz)), "\n") {
		var b c19BlockTrace
		if json.Unmarshal([]byte(ln), &b) == nil {
			out[b.Height] = b
		}
	}
	return out
}

// ---------------------------------------------------------------- orchestrator

func c19Child(dir string, env map[string]string) (string, error) {
	exe, _ := os.Executable()
	if e := env["VERIF_C19_EXE"]; e != "" {
		exe = e
	}
	cmd := exec.Command(exe, "C19")
	cmd.Env = os.Environ()
	for k, v := range env {
		cmd.Env = append(cmd.Env, k+"="+v)
	}
	cmd.Env = append(cmd.Env, "VERIF_C19_DIR="+dir, "VERIF_OUT=")
	out, err := cmd.CombinedOutput()
	return string(out), err
}

func runC19(c *vk.Ctx) {
	if c19RunRole(c) {
		return
	}
	c.R.Rule = "cases = transaction histories (signed transactions through FinalizeBlock: pool creation, joins/exits of every kind on balancer / stableswap / 3-asset pools, routed / split swaps of both kinds with taker fees incl. failing ones, concentrated positions (create / add / withdraw / transfer / claims), external no-lock gauges, locks with reward receivers, partial unlocks, superfluid delegate / undelegate / unbond on a share denom and through concentrated full-range positions (assets enabled by recorded admin actions), validator-set preferences, plain staking and reward withdrawals, a weight-shifting balancer pool, lock gauges with two reward denoms, token-factory mint / burn / force-transfer / change-admin / metadata, smart-account authenticators, protorev administration, fees paid in a registered non-native fee token, minted pool incentives routed by distribution records, bank sends; several transactions per block; day and week epoch boundaries) generated and executed by a primary process; 3 replica processes replay the history with GOMAXPROCS 1 / 4 / 16 and different GOGC (every process has its own map-iteration seeds; one replica and the import twin start with a different in-memory fee-market base fee, as a node restarted from its backup file would); for every export point (every k-th block and every epoch block) a fresh process is initialised from the exported state and fed the rest of the history; one export is imported twice and the two imported nodes must have identical app hashes. Compared: app hash, per-transaction code / codespace / gas / data / events and block events between replicas of one lineage; per-transaction results, canonicalised per-module exported state and a query battery (spot prices, estimates, TWAPs, balances, locks, gauges, positions with claimable rewards, delegations, validator-set preferences, authenticators, fee tokens, distribution records, supplies) at the final height between the original and every imported node. distinct_nontrivial counts distinct (comparison kind, message kinds in the block, epoch block?, export distance bucket) tuples."
	nHist := c.N(3, 16)
	nBlocks := c.N(60, 400)
	if os.Getenv("VERIF_C19_MODE") == "race" {
		nHist, nBlocks = c.N(1, 4), c.N(40, 150)
	}
	logdir := os.Getenv("VERIF_LOGDIR")
	if logdir == "" {
		logdir = os.TempDir()
	}
	c.Cases("history", nHist, func(i int, r *vk.Rng) {
		dir := filepath.Join(logdir, fmt.Sprintf("c19-h%d-%d", i, c.Seed))
		os.RemoveAll(dir)
		os.MkdirAll(dir, 0o755)
		defer func() {
			if c.R.NViolations == 0 {
				os.RemoveAll(dir)
			}
		}()
		base := map[string]string{"VERIF_C19_BLOCKS": fmt.Sprint(nBlocks), "VERIF_C19_HSEED": fmt.Sprint(r.U64() >> 1)}
		env := func(role, tag string, extra map[string]string) map[string]string {
			m := map[string]string{"VERIF_C19_ROLE": role, "VERIF_C19_TAG": tag}
			for k, v := range base {
				m[k] = v
			}
			for k, v := range extra {
				m[k] = v
			}
			return m
		}
		raceMode := os.Getenv("VERIF_C19_MODE") == "race"
		pextra := map[string]string{"GOMAXPROCS": "2"}
		if raceMode {
			pextra = map[string]string{"GOMAXPROCS": "8", "VERIF_C19_CONCURRENT": "1"}
		}
		if out, err := c19Child(dir, env("primary", "primary", pextra)); err != nil {
			c.Violate("C19.primary_failed", nil, "the primary process failed: %v\n%s", err, trunc(out, 3000))
			return
		}
		type job struct {
			tag string
			env map[string]string
		}
		jobs := []job{
			{"replica-p1", env("replica", "replica-p1", map[string]string{"GOMAXPROCS": "1", "GOGC": "20"})},
			{"replica-p4", env("replica", "replica-p4", map[string]string{"GOMAXPROCS": "4", "GOGC": "400", "VERIF_C19_BASEFEE": "9.5"})},
			{"replica-p16", env("replica", "replica-p16", map[string]string{"GOMAXPROCS": "16", "GOGC": "off"})},
		}
		if sb := os.Getenv("VERIF_SKEW_BIN"); sb != "" && !raceMode {
			// a replica whose wall clock (time.Now) reads three years earlier than everybody else's, i.e. before the
			// chain's genesis time: any dependence of results on the wall clock shows up as a divergence
			jobs = append(jobs, job{"replica-skew", env("replica", "replica-skew", map[string]string{"GOMAXPROCS": "2", "VERIF_C19_EXE": sb, "VERIF_TIME_SKEW_SEC": "-94608000"})})
			c.Count("skewed_clock_replicas", 1)
		}
		exports, _ := filepath.Glob(filepath.Join(dir, "export-*.json"))
		sort.Strings(exports)
		maxImports := c.N(3, 12)
		if raceMode {
			// the sequential replica is the reference the concurrently loaded primary is compared with
			jobs = jobs[:1]
			maxImports = 1
			if sb, err := os.ReadFile(filepath.Join(dir, "side.json")); err == nil {
				var m map[string]int64
				if json.Unmarshal(sb, &m) == nil {
					for k, v := range m {
						c.Count(k, v)
					}
				}
			}
		}
		if len(exports) > maxImports {
			// seed-chosen subset, always keeping the first
			pick := []string{exports[0]}
			for len(pick) < maxImports {
				pick = append(pick, exports[1+r.Intn(len(exports)-1)])
			}
			exports = pick
		}
		twinOf := ""
		for k, e := range exports {
			h := strings.TrimSuffix(strings.TrimPrefix(filepath.Base(e), "export-"), ".json")
			jobs = append(jobs, job{"import-" + h, env("import", "import-"+h, map[string]string{"VERIF_C19_EXPORT": e, "GOMAXPROCS": "3"})})
			if k == len(exports)-1 && !raceMode {
				// a second node initialised from the same exported state: two imports of one state are one lineage and
				// must agree bit for bit (app hashes), whatever order InitGenesis walks its in-memory maps in
				twinOf = "import-" + h
				jobs = append(jobs, job{"importtwin-" + h, env("import", "importtwin-"+h, map[string]string{"VERIF_C19_EXPORT": e, "GOMAXPROCS": "1", "GOGC": "30", "VERIF_C19_BASEFEE": "7"})})
			}
		}
		type done struct {
			tag string
			out string
			err error
		}
		ch := make(chan done, len(jobs))
		sem := make(chan struct{}, 4)
		for _, j := range jobs {
			j := j
			go func() {
				sem <- struct{}{}
				out, err := c19Child(dir, j.env)
				<-sem
				ch <- done{j.tag, out, err}
			}()
		}
		failed := false
		for range jobs {
			d := <-ch
			if d.err != nil {
				kind := "replica"
				if strings.HasPrefix(d.tag, "import") {
					kind = "import"
				}
				fsig := map[string]any{"kind": kind}
				if m := regexp.MustCompile(`invariant broken: (\S+) (\S+) invariant`).FindStringSubmatch(d.out); m != nil {
					fsig["invariant"] = strings.TrimSuffix(m[1], ":") + "/" + m[2]
				}
				c.Violate("C19."+kind+"_process_failed", fsig, "process %s failed: %v\n%s", d.tag, d.err, trunc(d.out, 3000))
				failed = true
			}
		}
		if failed {
			return
		}
		// ---- offline comparison
		prim := c19ReadTrace(filepath.Join(dir, "trace-primary.jsonl"))
		hist := c19ReadHistory(filepath.Join(dir, "history.jsonl"))
		descs := map[int64][]string{}
		for _, b := range hist {
			descs[b.Height] = b.Descs
		}
		kindsOf := func(h int64) string {
			m := map[string]bool{}
			for _, d := range descs[h] {
				m[strings.Fields(d)[0]] = true
			}
			var ks []string
			for k := range m {
				ks = append(ks, k)
			}
			sort.Strings(ks)
			return strings.Join(ks, "+")
		}
		if twinOf != "" {
			ta := c19ReadTrace(filepath.Join(dir, "trace-"+twinOf+".jsonl"))
			tb := c19ReadTrace(filepath.Join(dir, "trace-"+strings.Replace(twinOf, "import-", "importtwin-", 1)+".jsonl"))
			var hs []int64
			for h := range ta {
				hs = append(hs, h)
			}
			sort.Slice(hs, func(a, b int) bool { return hs[a] < hs[b] })
			for _, h := range hs {
				c.Eval(1)
				if ta[h].AppHash != tb[h].AppHash {
					c.Violate("C19.app_hash", map[string]any{"lineage": "import-twin", "epoch_block": false}, "height %d: two nodes initialised from the same exported state (%s) and fed the same blocks have app hashes %s and %s", h, twinOf, ta[h].AppHash, tb[h].AppHash)
					return
				}
			}
			c.Class("import-twin|%d-blocks", bucket(len(hs)))
		}
		for _, j := range jobs {
			if strings.HasPrefix(j.tag, "importtwin-") {
				continue
			}
			tr := c19ReadTrace(filepath.Join(dir, "trace-"+j.tag+".jsonl"))
			isImport := strings.HasPrefix(j.tag, "import")
			if isImport {
				// state that is in the store but not in the export: protorev's denom-pair -> pool map is rebuilt by
				// InitGenesis from the liquidity at import time. Where the rebuilt map differs from the exporting node's,
				// the two nodes backrun different routes from then on; that root cause is reported once for the import and the
				// downstream comparison of this import, which could only repeat it in many shapes, is not made.
				ma, errA := os.ReadFile(filepath.Join(dir, "prmap-export-"+strings.TrimPrefix(j.tag, "import-")+".txt"))
				mb, errB := os.ReadFile(filepath.Join(dir, "prmap-"+j.tag+".txt"))
				if errA == nil && errB == nil && string(ma) != string(mb) {
					c.Violate("C19.import_state", map[string]any{"lineage": "import", "item": "protorev/denom_pair_to_pool"}, "after importing the state exported at height %s, protorev's (base denom, denom) -> pool map is\n  %s\non the imported node and\n  %s\non the exporting node (the map is not part of the exported genesis; InitGenesis rebuilds it from current liquidity)", strings.TrimPrefix(j.tag, "import-"), string(mb), string(ma))
					c.Class("import|protorev-map-differs|downstream-not-compared")
					continue
				}
			}
			if len(tr) == 0 {
				c.Violate("C19.empty_trace", nil, "%s produced no trace", j.tag)
				return
			}
			var hs []int64
			for h := range tr {
				hs = append(hs, h)
			}
			sort.Slice(hs, func(a, b int) bool { return hs[a] < hs[b] })
			firstTxSeen := false
			for _, h := range hs {
				a, b := prim[h], tr[h]
				c.Eval(1)
				epoch := strings.Contains(a.BlockEvRaw, "epoch_start")
				sig := map[string]any{"lineage": map[bool]string{true: "import", false: "replica"}[isImport], "epoch_block": epoch}
				if !isImport && a.AppHash != b.AppHash {
					c.Violate("C19.app_hash", sig, "height %d: app hash %s in the primary, %s in %s (same history, same lineage)", h, a.AppHash, b.AppHash, j.tag)
					return
				}
				if len(a.Txs) != len(b.Txs) {
					c.Violate("C19.tx_results", sig, "height %d: %d tx results in the primary, %d in %s", h, len(a.Txs), len(b.Txs), j.tag)
					return
				}
				for k := range a.Txs {
					x, y := a.Txs[k], b.Txs[k]
					// (wasmd's per-block transaction counter is touched by the first transaction that gets as far as its ante
					// decorator: transactions rejected earlier in the ante chain do not count)
					if k > 0 && a.Txs[k-1].Code == 0 {
						firstTxSeen = true
					}
					if x.Code != y.Code || x.Codespace != y.Codespace || x.Data != y.Data || x.Events != y.Events || x.GasUsed != y.GasUsed {
						sig["field"] = c19DiffField(x, y)
						sig["msg"] = strings.Fields(descs[h][k])[0]
						sig["msg_family"] = sig["msg"]
						switch sig["msg"] {
						case "lock", "extend", "begin", "receiver", "partial", "unlock":
							sig["msg_family"] = "lockup"
						case "stake", "unstake", "withdraw":
							sig["msg_family"] = "staking"
						}
						if isImport && !firstTxSeen && sig["field"] == "gas" && x.GasUsed-y.GasUsed == 36 {
							// the first transaction after an import: recorded and the comparison goes on. A transaction that is
							// rejected later in the ante chain (code != 0, e.g. fee too low) reads the missing counter as well, but
							// what its ante chain wrote is discarded: the next transaction finds the counter missing again
							firstTxSeen = x.Code == 0
							sig["first_tx_after_import"] = true
							sig["gas_delta"] = 36
							c.Violate("C19.tx_results", sig, "height %d tx %d (%s) is the first transaction executed after the import at height %d and used %d gas on the original node, %d on the imported one; every other field is equal", h, k, descs[h][k], hs[0]-1, x.GasUsed, y.GasUsed)
							sig = map[string]any{"lineage": "import", "epoch_block": epoch}
							continue
						}
						c.Violate("C19.tx_results", sig, "height %d tx %d (%s): primary code=%d/%s gas=%d data=%s; %s code=%d/%s gas=%d data=%s\nprimary events: %s\n%s events: %s", h, k, descs[h][k], x.Code, x.Codespace, x.GasUsed, x.Data, j.tag, y.Code, y.Codespace, y.GasUsed, y.Data, trunc(x.EventsRaw, 1500), j.tag, trunc(y.EventsRaw, 1500))
						if isImport && sig["field"] == "gas" {
							// a gas-only difference does not change state: keep comparing the rest of the history
							sig = map[string]any{"lineage": "import", "epoch_block": epoch}
							continue
						}
						return
					}
				}
				for _, x := range a.Txs {
					if x.Code == 0 {
						firstTxSeen = true
					}
				}
				if a.BlockEvents != b.BlockEvents {
					c.Violate("C19.block_events", sig, "height %d: begin/end-block events differ between the primary and %s\nprimary: %s\n%s: %s", h, j.tag, trunc(a.BlockEvRaw, 2000), j.tag, trunc(b.BlockEvRaw, 2000))
					return
				}
				dist := 0
				if isImport {
					dist = int(h - hs[0])
				}
				c.Class("%s|%s|epoch%v|dist%d", sig["lineage"], kindsOf(h), epoch, bucket(dist))
			}
			// final state
			var fa, fb map[string]string
			ba, _ := os.ReadFile(filepath.Join(dir, "final-primary.json"))
			bb, _ := os.ReadFile(filepath.Join(dir, "final-"+j.tag+".json"))
			json.Unmarshal(ba, &fa)
			json.Unmarshal(bb, &fb)
			if len(fa) == 0 || len(fb) == 0 {
				c.Violate("C19.final_state_missing", nil, "final state of primary or %s missing", j.tag)
				return
			}
			keys := map[string]bool{}
			for k := range fa {
				keys[k] = true
			}
			for k := range fb {
				keys[k] = true
			}
			var ks []string
			for k := range keys {
				ks = append(ks, k)
			}
			sort.Strings(ks)
			for _, k := range ks {
				c.Eval(1)
				if fa[k] != fb[k] {
					paths := c19JSONDiff(fa[k], fb[k])
					item := strings.SplitN(k, "/", 3)[0] + "/" + strings.SplitN(k+"//", "/", 3)[1]
					var gen []string
					seen := map[string]bool{}
					for _, p := range paths {
						g := c19GenericPath(p.path)
						if !seen[g] {
							seen[g] = true
							gen = append(gen, g)
						}
					}
					sort.Strings(gen)
					if len(gen) > 6 {
						gen = gen[:6]
					}
					sig := map[string]any{"lineage": map[bool]string{true: "import", false: "replica"}[isImport], "item": item, "paths": strings.Join(gen, ",")}
					zero := true
					for _, p := range paths {
						if p.a != `"0"` && p.a != "<absent>" && p.a != "[]" && p.a != `""` && p.a != "null" {
							zero = false
						}
					}
					sig["original_unset"] = zero
					var sb strings.Builder
					for i, p := range paths {
						if i == 12 {
							fmt.Fprintf(&sb, "  … %d more\n", len(paths)-12)
							break
						}
						fmt.Fprintf(&sb, "  %s: primary %s, %s %s\n", p.path, trunc(p.a, 300), j.tag, trunc(p.b, 300))
					}
					c.Violate("C19.final_state", sig, "%s differs between the primary and %s at the final height:\n%s", k, j.tag, sb.String())
				}
			}
			c.Class("%s|final-state|%d-items", map[bool]string{true: "import", false: "replica"}[isImport], bucket(len(ks)))
		}
		if i < 1 {
			c.Sample(map[string]any{"blocks": nBlocks, "replicas": 3, "imports": len(exports), "txs": func() int {
				n := 0
				for _, b := range hist {
					n += len(b.Txs)
				}
				return n
			}()})
		}
	})
}

func c19DiffField(x, y c19TxTrace) string {
	switch {
	case x.Code != y.Code || x.Codespace != y.Codespace:
		return "code"
	case x.Data != y.Data:
		return "data"
	case x.Events != y.Events:
		return "events"
	}
	return "gas"
}

func c19FirstDiff(a, b string) string {
	n := len(a)
	if len(b) < n {
		n = len(b)
	}
	i := 0
	for i < n && a[i] == b[i] {
		i++
	}
	lo := i - 200
	if lo < 0 {
		lo = 0
	}
	ha, hb := i+300, i+300
	if ha > len(a) {
		ha = len(a)
	}
	if hb > len(b) {
		hb = len(b)
	}
	return fmt.Sprintf("  primary: …%s…\n  other:   …%s…", a[lo:ha], b[lo:hb])
}

// c19MaybeDump is a diagnostic aid (VERIF_C19_KVDUMP=<height>): raw stores after that block.
func c19MaybeDump(ch *chain.Chain, dir, tag string, h int64) {
	if os.Getenv("VERIF_C19_KVDUMP") != fmt.Sprint(h) {
		return
	}
	b, _ := json.Marshal(ch.DumpKV(ch.Ctx))
	os.WriteFile(filepath.Join(dir, fmt.Sprintf("kv-%s-%d.json", tag, h)), b, 0o644)
}

func c19TraceSwitch(dir, tag string, h int64) {
	if h < 0 {
		if c19Tracer.w != nil {
			c19Tracer.w.Close()
			c19Tracer.w = nil
		}
		return
	}
	if os.Getenv("VERIF_C19_STORETRACE") == fmt.Sprint(h) {
		c19Tracer.w, _ = os.Create(filepath.Join(dir, fmt.Sprintf("storetrace-%s-%d.jsonl", tag, h)))
	}
}

type c19PathDiff struct{ path, a, b string }

// c19JSONDiff lists the JSON paths at which two documents differ (plain strings are compared whole).
func c19JSONDiff(a, b string) []c19PathDiff {
	var va, vb any
	if json.Unmarshal([]byte(a), &va) != nil || json.Unmarshal([]byte(b), &vb) != nil {
		return []c19PathDiff{{"", a, b}}
	}
	var out []c19PathDiff
	var walk func(p string, x, y any)
	str := func(v any) string {
		if v == nil {
			return "<absent>"
		}
		bz, _ := json.Marshal(v)
		return string(bz)
	}
	walk = func(p string, x, y any) {
		switch xv := x.(type) {
		case map[string]any:
			yv, ok := y.(map[string]any)
			if !ok {
				out = append(out, c19PathDiff{p, str(x), str(y)})
				return
			}
			keys := map[string]bool{}
			for k := range xv {
				keys[k] = true
			}
			for k := range yv {
				keys[k] = true
			}
			var ks []string
			for k := range keys {
				ks = append(ks, k)
			}
			sort.Strings(ks)
			for _, k := range ks {
				walk(p+"."+k, xv[k], yv[k])
			}
		case []any:
			yv, ok := y.([]any)
			if !ok {
				out = append(out, c19PathDiff{p, str(x), str(y)})
				return
			}
			n := len(xv)
			if len(yv) > n {
				n = len(yv)
			}
			for i := 0; i < n; i++ {
				var xe, ye any
				if i < len(xv) {
					xe = xv[i]
				}
				if i < len(yv) {
					ye = yv[i]
				}
				if len(xv) != len(yv) && (xe == nil || ye == nil) {
					out = append(out, c19PathDiff{fmt.Sprintf("%s[%d]", p, i), str(xe), str(ye)})
					continue
				}
				walk(fmt.Sprintf("%s[%d]", p, i), xe, ye)
			}
		default:
			if str(x) != str(y) {
				out = append(out, c19PathDiff{p, str(x), str(y)})
			}
		}
	}
	walk("", va, vb)
	return out
}

// c19GenericPath strips array indices: ".epochs[2].current_epoch_start_height" -> ".epochs[].current_epoch_start_height"
func c19GenericPath(p string) string {
	var sb strings.Builder
	in := false
	for _, r := range p {
		switch {
		case r == '[':
			in = true
			sb.WriteString("[")
		case r == ']':
			in = false
			sb.WriteString("]")
		case !in:
			sb.WriteRune(r)
		}
	}
	return sb.String()
}

func c19ApplyAdmin(ch *chain.Chain, admin []string) {
	for _, a := range admin {
		if d, ok := strings.CutPrefix(a, "superfluid-asset:"); ok {
			if err := ch.App.SuperfluidKeeper.AddNewSuperfluidAsset(ch.Ctx, sftypes.SuperfluidAsset{Denom: d, AssetType: sftypes.SuperfluidAssetTypeLPShare}); err != nil {
				panic(fmt.Sprintf("admin %s: %v", a, err))
			}
		}
		if d, ok := strings.CutPrefix(a, "superfluid-cl-asset:"); ok {
			id, _ := strconv.ParseUint(d, 10, 64)
			if err := ch.App.SuperfluidKeeper.AddNewSuperfluidAsset(ch.Ctx, sftypes.SuperfluidAsset{Denom: cltypes.GetConcentratedLockupDenomFromPoolId(id), AssetType: sftypes.SuperfluidAssetTypeConcentratedShare}); err != nil {
				panic(fmt.Sprintf("admin %s: %v", a, err))
			}
		}
		if d, ok := strings.CutPrefix(a, "tf-empty-admin:"); ok {
			// a renounced administrator as older versions and genesis files record it: the empty string
			bz, _ := (&tftypes.DenomAuthorityMetadata{Admin: ""}).Marshal()
			if bz == nil {
				bz = []byte{}
			}
			ch.Ctx.KVStore(ch.App.AppKeepers.GetKey(tftypes.StoreKey)).Set(append(tftypes.GetDenomPrefixStore(d), []byte(tftypes.DenomAuthorityMetadataKey)...), bz)
			if m, err := ch.App.TokenFactoryKeeper.GetAuthorityMetadata(ch.Ctx, d); err != nil || m.Admin != "" {
				panic(fmt.Sprintf("admin %s: %v %v", a, m, err))
			}
		}
		if d, ok := strings.CutPrefix(a, "fee-token:"); ok {
			// what a passed fee-token proposal does: <denom>:<pool id>
			f := strings.Split(d, ":")
			id, _ := strconv.ParseUint(f[1], 10, 64)
			if err := ch.App.TxFeesKeeper.SetFeeTokens(ch.Ctx, []txfeestypes.FeeToken{{Denom: f[0], PoolID: id}}); err != nil {
				panic(fmt.Sprintf("admin %s: %v", a, err))
			}
		}
		if d, ok := strings.CutPrefix(a, "distr-records:"); ok {
			// what a passed pool-incentives proposal does: minted pool incentives go to the longest-duration gauge of these pools
			var recs []poolincentivestypes.DistrRecord
			durs := ch.App.PoolIncentivesKeeper.GetLockableDurations(ch.Ctx)
			for k, ps := range strings.Split(d, ",") {
				id, _ := strconv.ParseUint(ps, 10, 64)
				var gid uint64
				var err error
				if pool, perr := ch.App.PoolManagerKeeper.GetPool(ch.Ctx, id); perr == nil && pool.GetType() == poolmanagertypes.Concentrated {
					gid, err = ch.App.PoolIncentivesKeeper.GetPoolGaugeId(ch.Ctx, id, ch.App.IncentivesKeeper.GetEpochInfo(ch.Ctx).Duration)
				} else {
					gid, err = ch.App.PoolIncentivesKeeper.GetPoolGaugeId(ch.Ctx, id, durs[len(durs)-1-k%2])
				}
				if err != nil {
					panic(fmt.Sprintf("admin %s: pool %d: %v", a, id, err))
				}
				recs = append(recs, poolincentivestypes.DistrRecord{GaugeId: gid, Weight: sdkmath.NewInt(int64(10 + 7*k))})
			}
			sort.Slice(recs, func(i, j int) bool { return recs[i].GaugeId < recs[j].GaugeId })
			if err := ch.App.PoolIncentivesKeeper.ReplaceDistrRecords(ch.Ctx, recs...); err != nil {
				panic(fmt.Sprintf("admin %s: %v", a, err))
			}
		}
	}
}
