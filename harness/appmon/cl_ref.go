//go:build verif

package main

// Reference view of a concentrated pool read through the public queries, and the exact
// (big.Rat) piecewise constant-liquidity curve walker used by C03.

import (
	"fmt"
	"math/big"
	"sort"

	sdk "github.com/cosmos/cosmos-sdk/types"

	"github.com/osmosis-labs/osmosis/osmomath"
	clmath "github.com/osmosis-labs/osmosis/v31/x/concentrated-liquidity/math"
	cltypes "github.com/osmosis-labs/osmosis/v31/x/concentrated-liquidity/types"
)

var ratE36 = new(big.Int).Exp(big.NewInt(10), big.NewInt(36), nil)
var ratE18i = new(big.Int).Exp(big.NewInt(10), big.NewInt(18), nil)

func ratBD(d osmomath.BigDec) *big.Rat { return new(big.Rat).SetFrac(d.BigInt(), ratE36) }
func ratD(d osmomath.Dec) *big.Rat    { return new(big.Rat).SetFrac(d.BigInt(), ratE18i) }

type clTick struct {
	idx   int64
	net   *big.Rat
	gross *big.Rat
}

type clState struct {
	sqrtP  *big.Rat
	tick   int64
	liq    *big.Rat
	spread *big.Rat
	ticks  []clTick // ascending
	sqrtC  map[int64]*big.Rat
}

func clReadState(w *clWorld, ctx sdk.Context) *clState {
	p := w.poolOn(ctx)
	st := &clState{sqrtP: ratBD(p.GetCurrentSqrtPrice()), tick: p.GetCurrentTick(), liq: ratD(p.GetLiquidity()), spread: ratD(p.GetSpreadFactor(ctx)), sqrtC: map[int64]*big.Rat{}}
	ft, err := w.ch.App.ConcentratedLiquidityKeeper.GetAllInitializedTicksForPool(ctx, w.poolID)
	if err != nil {
		return nil
	}
	for _, t := range ft {
		st.ticks = append(st.ticks, clTick{idx: t.TickIndex, net: ratD(t.Info.LiquidityNet), gross: ratD(t.Info.LiquidityGross)})
	}
	sort.Slice(st.ticks, func(i, j int) bool { return st.ticks[i].idx < st.ticks[j].idx })
	return st
}

func (s *clState) sqrtAt(t int64) *big.Rat {
	if v, ok := s.sqrtC[t]; ok {
		return v
	}
	sp, err := clmath.TickToSqrtPrice(t)
	if err != nil {
		panic(err)
	}
	v := ratBD(sp)
	s.sqrtC[t] = v
	return v
}

// nextTick: zero-for-one looks for the largest initialised tick <= current tick, one-for-zero for the
// smallest initialised tick > current tick (the ticks the swap will walk through).
func (s *clState) nextTick(zeroForOne bool) (int64, bool) {
	return s.nextTickFrom(zeroForOne, s.tick)
}

func (s *clState) nextTickFrom(zeroForOne bool, cur int64) (int64, bool) {
	if zeroForOne {
		i := sort.Search(len(s.ticks), func(i int) bool { return s.ticks[i].idx > cur })
		if i == 0 {
			return 0, false
		}
		return s.ticks[i-1].idx, true
	}
	i := sort.Search(len(s.ticks), func(i int) bool { return s.ticks[i].idx > cur })
	if i == len(s.ticks) {
		return 0, false
	}
	return s.ticks[i].idx, true
}

func (s *clState) netAt(t int64) *big.Rat {
	i := sort.Search(len(s.ticks), func(i int) bool { return s.ticks[i].idx >= t })
	if i < len(s.ticks) && s.ticks[i].idx == t {
		return s.ticks[i].net
	}
	return new(big.Rat)
}

type clStep struct {
	L          *big.Rat
	sqrtA      *big.Rat // start of the step
	sqrtB      *big.Rat // end of the step
	reached    bool     // the step ended on its target tick
	curveIn    *big.Rat
	curveOut   *big.Rat
}

type clWalk struct {
	ok        bool // false: the liquidity ran out before the amount was filled (the code must reject)
	absorbed  bool // a leftover within the per-step whole-unit roundings remained after the last tick
	hitLimit  bool // the walk stopped at the global price limit with part of the amount unfilled
	idealOut  *big.Rat
	idealIn   *big.Rat // total input including the spread fee
	steps     []clStep
	crossings int
	hitGap    bool
	landedOn  bool // final price exactly on an initialised tick
	endSqrt   *big.Rat
}

// walk follows the exact piecewise curve. For exact-in, amount is the total input (fee included):
// the curve receives amount·(1−f). For exact-out, amount is the output; the total input is
// curve-input/(1−f).
func (s *clState) walk(zeroForOne, exactIn bool, amount *big.Int) clWalk {
	one := big.NewRat(1, 1)
	omf := new(big.Rat).Sub(one, s.spread)
	rem := new(big.Rat).SetInt(amount)
	if exactIn {
		rem.Mul(rem, omf)
	}
	w := clWalk{idealOut: new(big.Rat), idealIn: new(big.Rat)}
	cur := new(big.Rat).Set(s.sqrtP)
	L := new(big.Rat).Set(s.liq)
	tick := s.tick
	curveIn, curveOut := new(big.Rat), new(big.Rat)
	// global price limits of a swap without a user limit: sqrt(1e-12) going down, sqrt(1e38) going up
	limit := ratBD(cltypes.MinSqrtPriceBigDec)
	if !zeroForOne {
		limit = ratBD(cltypes.MaxSqrtPriceBigDec)
	}
	finish := func() clWalk {
		w.ok = true
		w.endSqrt = cur
		w.idealOut = curveOut
		w.idealIn = new(big.Rat).Quo(curveIn, omf)
		return w
	}
	for iter := 0; rem.Sign() > 0; iter++ {
		if iter > 100000 {
			return w
		}
		if cur.Cmp(limit) == 0 {
			w.hitLimit = true
			return finish()
		}
		nt, ok := s.nextTickFrom(zeroForOne, tick)
		if !ok {
			// ran out of initialised ticks. Every completed step of the implementation rounds its input up to a
			// whole unit (and its spread charge likewise), so a leftover of at most two units per step is absorbed
			// by those roundings and the swap still executes; anything larger is not fillable.
			slack := big.NewRat(int64(2*len(w.steps)+2), 1)
			if exactIn && rem.Cmp(slack) <= 0 {
				w.absorbed = true
				return finish()
			}
			// exact-out: the implementation stops when the remaining output is <= 1e-18 and truncates the delivered
			// amount to whole units; a leftover below one unit is within that truncation
			if !exactIn && rem.Cmp(big.NewRat(1, 1)) < 0 {
				w.absorbed = true
				return finish()
			}
			return w
		}
		target := s.sqrtAt(nt)
		// amounts to reach the target on this bucket
		var maxIn, maxOut *big.Rat
		if zeroForOne {
			if target.Cmp(cur) > 0 {
				target = cur // price already below this tick's sqrt price (first-bucket float): zero-length step
			}
			if L.Sign() == 0 || target.Sign() == 0 {
				maxIn, maxOut = new(big.Rat), new(big.Rat)
			} else {
				maxIn = new(big.Rat).Mul(L, new(big.Rat).Sub(new(big.Rat).Inv(target), new(big.Rat).Inv(cur)))
				maxOut = new(big.Rat).Mul(L, new(big.Rat).Sub(cur, target))
			}
		} else {
			if target.Cmp(cur) < 0 {
				target = cur
			}
			if L.Sign() == 0 {
				maxIn, maxOut = new(big.Rat), new(big.Rat)
			} else {
				maxIn = new(big.Rat).Mul(L, new(big.Rat).Sub(target, cur))
				maxOut = new(big.Rat).Mul(L, new(big.Rat).Sub(new(big.Rat).Inv(cur), new(big.Rat).Inv(target)))
			}
		}
		lim := maxIn
		if !exactIn {
			lim = maxOut
		}
		st := clStep{L: new(big.Rat).Set(L), sqrtA: new(big.Rat).Set(cur)}
		if L.Sign() == 0 {
			w.hitGap = true
		}
		if rem.Cmp(lim) >= 0 {
			// reach the target, cross the tick
			st.reached, st.sqrtB, st.curveIn, st.curveOut = true, new(big.Rat).Set(target), maxIn, maxOut
			curveIn.Add(curveIn, maxIn)
			curveOut.Add(curveOut, maxOut)
			rem.Sub(rem, lim)
			cur = new(big.Rat).Set(target)
			if zeroForOne {
				L = new(big.Rat).Sub(L, s.netAt(nt))
				tick = nt - 1
			} else {
				L = new(big.Rat).Add(L, s.netAt(nt))
				tick = nt
			}
			w.crossings++
			w.steps = append(w.steps, st)
			if rem.Sign() == 0 {
				w.landedOn = true
			}
			continue
		}
		// final partial step inside the bucket
		var nxt, dIn, dOut *big.Rat
		if zeroForOne {
			if exactIn {
				// sqrt' = L·sqrt / (L + Δx·sqrt)
				nxt = new(big.Rat).Quo(new(big.Rat).Mul(L, cur), new(big.Rat).Add(L, new(big.Rat).Mul(rem, cur)))
				dIn = new(big.Rat).Set(rem)
				dOut = new(big.Rat).Mul(L, new(big.Rat).Sub(cur, nxt))
			} else {
				// Δy given: sqrt' = sqrt − Δy/L
				nxt = new(big.Rat).Sub(cur, new(big.Rat).Quo(rem, L))
				dOut = new(big.Rat).Set(rem)
				dIn = new(big.Rat).Mul(L, new(big.Rat).Sub(new(big.Rat).Inv(nxt), new(big.Rat).Inv(cur)))
			}
		} else {
			if exactIn {
				nxt = new(big.Rat).Add(cur, new(big.Rat).Quo(rem, L))
				dIn = new(big.Rat).Set(rem)
				dOut = new(big.Rat).Mul(L, new(big.Rat).Sub(new(big.Rat).Inv(cur), new(big.Rat).Inv(nxt)))
			} else {
				// Δx given: sqrt' = L·sqrt / (L − Δx·sqrt)
				nxt = new(big.Rat).Quo(new(big.Rat).Mul(L, cur), new(big.Rat).Sub(L, new(big.Rat).Mul(rem, cur)))
				dOut = new(big.Rat).Set(rem)
				dIn = new(big.Rat).Mul(L, new(big.Rat).Sub(nxt, cur))
			}
		}
		st.sqrtB, st.curveIn, st.curveOut = nxt, dIn, dOut
		curveIn.Add(curveIn, dIn)
		curveOut.Add(curveOut, dOut)
		rem = new(big.Rat)
		cur = nxt
		w.steps = append(w.steps, st)
	}
	return finish()
}

func (s *clState) describe() string {
	out := fmt.Sprintf("sqrtP=%s tick=%d L=%s spread=%s ticks=[", s.sqrtP.FloatString(36), s.tick, s.liq.FloatString(18), s.spread.FloatString(6))
	for i, t := range s.ticks {
		if i > 12 {
			out += " …"
			break
		}
		out += fmt.Sprintf(" %d:net=%s", t.idx, t.net.FloatString(4))
	}
	return out + " ]"
}
