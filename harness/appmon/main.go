//go:build verif

// Command appmon hosts the monitors that run around a real OsmosisApp (drivers D1/D2).
package main

import (
	"fmt"
	"os"

	"github.com/osmosis-labs/osmosis/v31/zzverif/vk"
)

var monitors = map[string]func(*vk.Ctx){
	"smoke": runSmoke,
	"smoketx": runSmokeTx,
	"dbg19":   runDbg19,
	"C01":   runC01,
	"C02":   runC02,
	"C03":   runC03,
	"C04":   runC04,
	"C05":   runC05,
	"C06":   runC06,
	"C07":   runC07,
	"C08":   runC08,
	"C09":   runC09,
	"C10":   runC10,
	"C11":   runC11,
	"C17":   runC17,
	"C18":   runC18,
	"C19":   runC19,
	"C20":   runC20,
}

func main() {
	if len(os.Args) < 2 {
		fmt.Println("usage: appmon <property>")
		os.Exit(2)
	}
	fn, ok := monitors[os.Args[1]]
	if !ok {
		fmt.Println("unknown property", os.Args[1])
		os.Exit(2)
	}
	c := vk.NewCtx(os.Args[1])
	fn(c)
	c.Finish()
}
