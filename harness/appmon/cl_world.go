//go:build verif

package main

// Common concentrated-liquidity workload shared by the C01 / C03 / C07 / C08 monitors:
// one pool per history on a real app, several LP accounts and traders, and an operation
// generator (positions, swaps, claims, incentives, transfers, time). The monitors hook in
// through clHooks.

import (
	"fmt"
	"math/big"
	"sort"
	"strings"
	"time"

	sdkmath "cosmossdk.io/math"
	sdk "github.com/cosmos/cosmos-sdk/types"

	"github.com/osmosis-labs/osmosis/osmomath"
	clmath "github.com/osmosis-labs/osmosis/v31/x/concentrated-liquidity/math"
	clmodel "github.com/osmosis-labs/osmosis/v31/x/concentrated-liquidity/model"
	cltypes "github.com/osmosis-labs/osmosis/v31/x/concentrated-liquidity/types"
	poolmanagertypes "github.com/osmosis-labs/osmosis/v31/x/poolmanager/types"
	"github.com/osmosis-labs/osmosis/v31/zzverif/chain"
	"github.com/osmosis-labs/osmosis/v31/zzverif/vk"
)

type clPos struct {
	id     uint64
	owner  int
	lower  int64
	upper  int64
	liq    sdkmath.LegacyDec
	join   time.Time
	tag    string // "twinA"/"twinB"/"triple"/"far" for the C08 fairness probes
	everIn bool   // price was ever inside [lower, upper) while the position existed
}

type clSwapRec struct {
	zeroForOne bool
	exactIn    bool
	amount     sdkmath.Int // specified amount
	in, out    sdkmath.Int // executed: the trader's balance deltas
	respAmount sdkmath.Int // the amount reported in the message response
	executed   bool
	errStr     string
	kind       string
}

type clIncent struct {
	denom string
	amt   sdkmath.Int
	rate  sdkmath.LegacyDec
	start time.Time
	// creation synchronises the pool's uptime accumulators, so nothing emitted before this instant can be charged to the record
	created time.Time
}

type clHooks struct {
	// beforeSwap is called with the message about to be executed (state not yet touched); it may
	// return a closure that is called with the result afterwards.
	beforeSwap func(w *clWorld, zeroForOne, exactIn bool, amount sdkmath.Int) func(rec clSwapRec)
	afterOp    func(w *clWorld, op string) bool // false = stop the history (violation recorded)
	// aroundPosOp is called before a claim / add / withdraw / transfer on position p; the returned closure is
	// called after a successful message with the id the position has afterwards (0 = it no longer exists).
	aroundPosOp func(w *clWorld, p *clPos, op string) func(res chain.ExecResult, idAfter uint64)
	// protected positions (fairness probes) are not touched by the random operations
	protect func(p *clPos) bool
	// neighbour: one history in three gets a second concentrated pool whose decimal id starts with the main pool's
	// (1 and 10), with its own positions and incentive records, and claims that list positions of both pools
	neighbour bool
}

type clWorld struct {
	c       *vk.Ctx
	ch      *chain.Chain
	r       *vk.Rng
	poolID  uint64
	d0, d1  string
	spacing int64
	spread  osmomath.Dec
	scaled  bool // pool is above the spread-reward accumulator-scaling migration threshold
	scaledIncent bool // pool is above the incentive accumulator-scaling migration threshold
	lps     []chain.Account
	traders []chain.Account
	funder  chain.Account
	pos     map[uint64]*clPos
	hooks   clHooks
	uptimes []time.Duration
	// ledgers kept by the workload from message responses and observed transfers
	feesPaid       sdk.Coins // spread rewards paid into the spread-reward account (observed balance deltas)
	incentFunded   sdk.Coins
	incents        map[uint64]clIncent // incentive records created by the world, by id
	spreadClaimed  sdk.Coins
	incentClaimed  sdk.Coins
	swapsExecuted  int
	swapsRejected  int
	recoveredPanic int
	nSteps         int
	incentDenoms   []string
	lastTick       int64
	haveLastTick   bool
	minIncentUptime time.Duration // smallest uptime of any incentive record created so far (0 = none yet)
	claimsByPos    map[uint64]sdk.Coins
	// time during which the pool had active liquidity, per incentive record (since the record's creation)
	liquidTime    map[uint64]time.Duration
	prevCheckTime time.Time
	prevLiquidity osmomath.Dec
	incDust       map[string]*big.Rat // allowance for truncated incentive emissions, per denom
	liquidAfterStart map[uint64]time.Duration // the same, counted from the record's start time
	uptimeGov        bool                     // governance has changed the authorised uptimes during this history
	// "square" histories (one in ten): price 4 and position bounds at prices whose square roots are short decimals
	// (1.21, 1.44, 2.25, 6.25, 9), liquidity a round number: a swap can then end exactly on an initialised tick with
	// nothing left over, for all four swap kinds
	square      bool
	squareStage int
	squareL     int64
	// the neighbour pool (0 = none) and its positions (id -> owner index)
	nbrID  uint64
	nbrPos map[uint64]int
}

func (w *clWorld) pool() cltypes.ConcentratedPoolExtension {
	p, err := w.ch.App.ConcentratedLiquidityKeeper.GetConcentratedPoolById(w.ch.Ctx, w.poolID)
	if err != nil {
		panic(err)
	}
	return p
}

func (w *clWorld) poolOn(ctx sdk.Context) cltypes.ConcentratedPoolExtension {
	p, err := w.ch.App.ConcentratedLiquidityKeeper.GetConcentratedPoolById(ctx, w.poolID)
	if err != nil {
		panic(err)
	}
	return p
}

func (w *clWorld) sortedPos() []*clPos {
	out := make([]*clPos, 0, len(w.pos))
	for _, p := range w.pos {
		out = append(out, p)
	}
	sort.Slice(out, func(i, j int) bool { return out[i].id < out[j].id })
	return out
}

func (w *clWorld) ownerIdx(addr string) int {
	for i, a := range w.lps {
		if a.Addr.String() == addr {
			return i
		}
	}
	return -1
}

var clSpacings = []int64{1, 10, 100, 1000}

func newCLWorld(c *vk.Ctx, r *vk.Rng, hooks clHooks) *clWorld {
	w := &clWorld{c: c, r: r, hooks: hooks, pos: map[uint64]*clPos{}, feesPaid: sdk.NewCoins(), incentFunded: sdk.NewCoins(), spreadClaimed: sdk.NewCoins(), incentClaimed: sdk.NewCoins()}
	w.d0, w.d1 = "eth", "usdc"
	w.incentDenoms = []string{"uosmo", "rwd"}
	w.ch = chain.New(chain.Options{Denoms: []string{"eth", "usdc", "rwd"}, NumAccounts: 8})
	w.ch.NextBlock(5 * time.Second)
	w.lps = w.ch.Accs[0:4]
	w.traders = w.ch.Accs[4:6]
	w.funder = w.ch.Accs[6]
	w.spacing = clSpacings[r.Intn(4)]
	w.spread = cltypes.AuthorizedSpreadFactors[r.Intn(len(cltypes.AuthorizedSpreadFactors))]
	w.square = r.Intn(10) == 0
	k := w.ch.App.ConcentratedLiquidityKeeper
	// the spread-reward and the incentive accumulators migrated to scaled values at different pool ids:
	// a pool can be above one threshold and below the other
	w.scaled = r.Bool()
	scaledIncent := w.scaled
	if r.Intn(3) == 0 {
		scaledIncent = !w.scaled
	}
	thr := func(on bool) uint64 {
		if on {
			return 0
		}
		return 1000
	}
	k.SetSpreadFactorPoolIDMigrationThreshold(w.ch.Ctx, thr(w.scaled))
	k.SetIncentivePoolIDMigrationThreshold(w.ch.Ctx, thr(scaledIncent))
	w.scaledIncent = scaledIncent
	// authorised uptimes: all six in half of the histories, a seed-chosen subset otherwise
	w.uptimes = cltypes.SupportedUptimes
	if r.Bool() {
		var sub []time.Duration
		for _, u := range cltypes.SupportedUptimes {
			if r.Bool() || u == time.Nanosecond {
				sub = append(sub, u)
			}
		}
		w.uptimes = sub
		p := k.GetParams(w.ch.Ctx)
		p.AuthorizedUptimes = sub
		k.SetParams(w.ch.Ctx, p)
	}
	msg := clmodel.NewMsgCreateConcentratedPool(w.lps[0].Addr, w.d0, w.d1, uint64(w.spacing), w.spread)
	res := w.ch.Exec(&msg)
	if !res.OK() {
		panic("create CL pool: " + res.ErrString())
	}
	w.poolID = w.ch.App.PoolManagerKeeper.GetNextPoolId(w.ch.Ctx) - 1
	c.Logf("pool %d spacing=%d spread=%s scaled=%v uptimes=%v", w.poolID, w.spacing, w.spread, w.scaled, w.uptimes)
	if hooks.neighbour && r.Intn(3) == 0 {
		// pools 2..9 are empty fillers; pool 10 is the neighbour
		for w.ch.App.PoolManagerKeeper.GetNextPoolId(w.ch.Ctx) <= 10 {
			m := clmodel.NewMsgCreateConcentratedPool(w.lps[1].Addr, w.d0, w.d1, uint64(clSpacings[r.Intn(4)]), cltypes.AuthorizedSpreadFactors[r.Intn(len(cltypes.AuthorizedSpreadFactors))])
			if res := w.ch.Exec(&m); !res.OK() {
				panic("create filler CL pool: " + res.ErrString())
			}
		}
		w.nbrID = w.ch.App.PoolManagerKeeper.GetNextPoolId(w.ch.Ctx) - 1
		w.nbrPos = map[uint64]int{}
		w.nbrCreate(3, cltypes.MinInitializedTick, cltypes.MaxTick)
		c.Logf("neighbour pool %d", w.nbrID)
		// an incentive with the longest authorised uptime from the start: young positions forfeit what they accrue
		long := w.uptimes[len(w.uptimes)-1]
		cctx, write := w.ch.Ctx.CacheContext()
		// (the neighbour's incentives are paid in the pool tokens, which the main pool's incentives never are: reward
		// coins that end up in the wrong pool's books have nothing to hide behind)
		if _, err := k.CreateIncentive(cctx, w.nbrID, w.funder.Addr, sdk.NewCoin([]string{w.d0, w.d1}[r.Intn(2)], w.amount(12, 18)), sdkmath.LegacyNewDecFromBigIntWithPrec(r.BigMag(18, 24), 18), w.ch.Ctx.BlockTime(), long); err == nil {
			write()
		}
	}
	return w
}

// nbrCreate opens a position in the neighbour pool.
func (w *clWorld) nbrCreate(owner int, lo, hi int64) {
	np, err := w.ch.App.ConcentratedLiquidityKeeper.GetConcentratedPoolById(w.ch.Ctx, w.nbrID)
	if err != nil {
		return
	}
	sp := int64(np.GetTickSpacing())
	lo, hi = roundDown(lo, sp), roundDown(hi, sp)
	if lo < cltypes.MinInitializedTick {
		lo += sp
	}
	if hi <= lo {
		hi = lo + sp
	}
	coins := sdk.NewCoins(sdk.NewCoin(w.d0, sdkmath.NewInt(1_000_000+w.r.I64n(1_000_000_000_000))), sdk.NewCoin(w.d1, sdkmath.NewInt(1_000_000+w.r.I64n(1_000_000_000_000))))
	res := w.ch.Exec(&cltypes.MsgCreatePosition{PoolId: w.nbrID, Sender: w.lps[owner].Addr.String(), LowerTick: lo, UpperTick: hi, TokensProvided: coins, TokenMinAmount0: sdkmath.ZeroInt(), TokenMinAmount1: sdkmath.ZeroInt()})
	w.c.Logf("neighbour CreatePosition(owner %d, [%d,%d), %s) ok=%v %s", owner, lo, hi, coins, res.OK(), trunc(res.ErrString(), 120))
	if res.OK() {
		var rsp cltypes.MsgCreatePositionResponse
		if unpackResp(res, "MsgCreatePositionResponse", &rsp) {
			w.nbrPos[rsp.PositionId] = owner
		}
	}
}

// nbrStep is one operation on the neighbour pool: a young position, an incentive record, a full withdrawal.
func (w *clWorld) nbrStep() string {
	r := w.r
	k := w.ch.App.ConcentratedLiquidityKeeper
	if r.Intn(3) == 0 {
		// one owner claims for all its positions of both pools in one message, in a seed-chosen order
		for _, o := range []int{r.Intn(len(w.lps)), 0, 1, 2, 3} {
			var ids []uint64
			for _, p := range w.sortedPos() {
				if p.owner == o && (w.hooks.protect == nil || !w.hooks.protect(p)) {
					ids = append(ids, p.id)
				}
			}
			nMain := len(ids)
			var nb []uint64
			for id, oo := range w.nbrPos {
				if oo == o {
					nb = append(nb, id)
				}
			}
			sort.Slice(nb, func(a, b int) bool { return nb[a] < nb[b] })
			ids = append(ids, nb...)
			if nMain == 0 || len(nb) == 0 {
				continue
			}
			for a := len(ids) - 1; a > 0; a-- {
				b := r.Intn(a + 1)
				ids[a], ids[b] = ids[b], ids[a]
			}
			res := w.ch.Exec(&cltypes.MsgCollectIncentives{PositionIds: ids, Sender: w.lps[o].Addr.String()})
			w.c.Logf("CollectIncentives(owner %d, positions of both pools %v) ok=%v %s", o, ids, res.OK(), trunc(res.ErrString(), 120))
			if res.OK() {
				var rsp cltypes.MsgCollectIncentivesResponse
				unpackResp(res, "MsgCollectIncentivesResponse", &rsp)
				w.incentClaimed = w.incentClaimed.Add(rsp.CollectedIncentives...)
				w.c.Count("claims_spanning_both_pools", 1)
				if !rsp.ForfeitedIncentives.IsZero() {
					w.c.Count("claims_spanning_both_pools_with_forfeits", 1)
				}
			}
			return "collect-incentives"
		}
	}
	switch r.Intn(4) {
	case 0, 1:
		np, err := k.GetConcentratedPoolById(w.ch.Ctx, w.nbrID)
		if err != nil {
			return ""
		}
		cur, sp := np.GetCurrentTick(), int64(np.GetTickSpacing())
		w.nbrCreate(r.Intn(len(w.lps)), cur-sp*int64(1+r.Intn(50)), cur+sp*int64(1+r.Intn(50)))
		return "neighbour-create"
	case 2:
		d := []string{w.d0, w.d1}[r.Intn(2)]
		amt := w.amount(3, 18)
		rate := sdkmath.LegacyNewDecFromBigIntWithPrec(r.BigMag(14, 26), 18)
		up := w.uptimes[r.Intn(len(w.uptimes))]
		cctx, write := w.ch.Ctx.CacheContext()
		_, err := k.CreateIncentive(cctx, w.nbrID, w.funder.Addr, sdk.NewCoin(d, amt), rate, w.ch.Ctx.BlockTime(), up)
		w.c.Logf("neighbour CreateIncentive(%s%s, rate %s/s, uptime %s) err=%v", amt, d, rate, up, err)
		if err == nil {
			write()
		}
		return "neighbour-incentive"
	default:
		var ids []uint64
		for id := range w.nbrPos {
			ids = append(ids, id)
		}
		sort.Slice(ids, func(a, b int) bool { return ids[a] < ids[b] })
		if len(ids) < 2 {
			return ""
		}
		id := ids[1+r.Intn(len(ids)-1)] // the first (full-range) position stays
		pos, err := k.GetPosition(w.ch.Ctx, id)
		if err != nil {
			return ""
		}
		res := w.ch.Exec(&cltypes.MsgWithdrawPosition{PositionId: id, Sender: w.lps[w.nbrPos[id]].Addr.String(), LiquidityAmount: pos.Liquidity})
		w.c.Logf("neighbour WithdrawPosition(%d) ok=%v %s", id, res.OK(), trunc(res.ErrString(), 120))
		if res.OK() {
			delete(w.nbrPos, id)
		}
		return "neighbour-withdraw"
	}
}

func (w *clWorld) close() { w.ch.Close() }

func roundDown(t, s int64) int64 {
	m := t % s
	if m < 0 {
		m += s
	}
	return t - m
}

func (w *clWorld) clampTicks(lo, hi int64) (int64, int64) {
	minT := roundDown(cltypes.MinInitializedTick+w.spacing-1, w.spacing)
	maxT := roundDown(cltypes.MaxTick, w.spacing)
	lo, hi = roundDown(lo, w.spacing), roundDown(hi, w.spacing)
	if lo < minT {
		lo = minT
	}
	if hi > maxT {
		hi = maxT
	}
	if lo >= hi {
		if hi+w.spacing <= maxT {
			hi = lo + w.spacing
		} else {
			lo = hi - w.spacing
		}
	}
	return lo, hi
}

// pickRange chooses a tick range relative to the current state.
func (w *clWorld) pickRange() (int64, int64, string) {
	r := w.r
	cur := w.pool().GetCurrentTick()
	s := w.spacing
	minT := roundDown(cltypes.MinInitializedTick+s-1, s)
	maxT := roundDown(cltypes.MaxTick, s)
	base := roundDown(cur, s)
	var lo, hi int64
	kind := ""
	switch r.Intn(9) {
	case 0:
		lo, hi, kind = minT, maxT, "full"
	case 1, 2: // narrow around the current tick
		lo, hi, kind = base-s*(1+r.I64n(20)), base+s*(1+r.I64n(20)), "narrow"
	case 3: // one-sided above
		lo = base + s*(1+r.I64n(30))
		hi, kind = lo+s*(1+r.I64n(50)), "above"
	case 4: // one-sided below
		hi = base - s*r.I64n(30)
		lo, kind = hi-s*(1+r.I64n(50)), "below"
	case 5: // abutting an existing boundary
		ps := w.sortedPos()
		if len(ps) > 0 {
			p := ps[r.Intn(len(ps))]
			if r.Bool() {
				lo, hi = p.upper, p.upper+s*(1+r.I64n(40))
			} else {
				lo, hi = p.lower-s*(1+r.I64n(40)), p.lower
			}
			kind = "abutting"
		} else {
			lo, hi, kind = base-s*5, base+s*5, "narrow"
		}
	case 6: // wide
		lo, hi, kind = base-s*(100+r.I64n(100000)), base+s*(100+r.I64n(100000)), "wide"
	case 7: // at the extremes
		if r.Bool() {
			lo, hi, kind = minT, minT+s*(1+r.I64n(1000)), "at-min"
		} else {
			lo, hi, kind = maxT-s*(1+r.I64n(1000)), maxT, "at-max"
		}
	default: // exactly starting at the current bucket
		lo, hi, kind = base, base+s*(1+r.I64n(10)), "from-current"
	}
	lo, hi = w.clampTicks(lo, hi)
	return lo, hi, kind
}

func (w *clWorld) amount(lo, hi int) sdkmath.Int {
	return sdkmath.NewIntFromBigInt(w.r.BigMag(lo, hi))
}

// createPosition executes MsgCreatePosition and records the position on success.
func (w *clWorld) createPosition(owner int, lo, hi int64, a0, a1 sdkmath.Int, tag string) (*clPos, chain.ExecResult) {
	coins := sdk.NewCoins()
	if a0.IsPositive() {
		coins = coins.Add(sdk.NewCoin(w.d0, a0))
	}
	if a1.IsPositive() {
		coins = coins.Add(sdk.NewCoin(w.d1, a1))
	}
	msg := &cltypes.MsgCreatePosition{PoolId: w.poolID, Sender: w.lps[owner].Addr.String(), LowerTick: lo, UpperTick: hi, TokensProvided: coins, TokenMinAmount0: sdkmath.ZeroInt(), TokenMinAmount1: sdkmath.ZeroInt()}
	w.c.Logf("CreatePosition(owner %d, [%d,%d), %s) tag=%s", owner, lo, hi, coins, tag)
	res := w.ch.Exec(msg)
	if !res.OK() {
		w.c.Logf("  rejected: %s", trunc(res.ErrString(), 160))
		return nil, res
	}
	var rsp cltypes.MsgCreatePositionResponse
	if !unpackResp(res, "MsgCreatePositionResponse", &rsp) {
		panic("no MsgCreatePositionResponse")
	}
	p := &clPos{id: rsp.PositionId, owner: owner, lower: rsp.LowerTick, upper: rsp.UpperTick, liq: rsp.LiquidityCreated, join: w.ch.Ctx.BlockTime(), tag: tag}
	w.pos[p.id] = p
	w.c.Logf("  -> position %d liq=%s used %s/%s", p.id, p.liq, rsp.Amount0, rsp.Amount1)
	return p, res
}

type protoUnmarshaler interface{ Unmarshal([]byte) error }

func unpackResp(res chain.ExecResult, name string, into protoUnmarshaler) bool {
	if res.Res == nil {
		return false
	}
	for _, mr := range res.Res.MsgResponses {
		if strings.HasSuffix(mr.TypeUrl, name) {
			return into.Unmarshal(mr.Value) == nil
		}
	}
	return false
}

func trunc(s string, n int) string {
	if len(s) > n {
		return s[:n] + "…"
	}
	return s
}

// firstPosition sets the initial price with a seed-chosen amount ratio.
// squareTick is the tick of a price in [1, 10) given in millionths.
func squareTick(priceMicro int64) int64 { return priceMicro - 1_000_000 }

// squareStep runs the scripted opening of a "square" history, one operation per call.
func (w *clWorld) squareStep() string {
	r := w.r
	L := sdkmath.NewInt(w.squareL)
	stage := w.squareStage
	w.squareStage++
	switch stage {
	case 0: // A = [1.44, 6.25) around the price 4: amount0 = L(1/2 − 1/2.5) = L/10, amount1 = L(2 − 1.2) = 4L/5
		w.createPosition(1, squareTick(1_440_000), squareTick(6_250_000), L.QuoRaw(10), L.MulRaw(4).QuoRaw(5), "square-A")
		w.trackInRange()
		return "create"
	case 1: // B = [1.21, 2.25) below the price: amount1 = L(1.5 − 1.1) = 2L/5 ; C = [6.25, 9) above it: amount0 = L(1/2.5 − 1/3) = L/15
		w.createPosition(2, squareTick(1_210_000), squareTick(2_250_000), sdkmath.ZeroInt(), L.MulRaw(2).QuoRaw(5), "square-B")
		w.createPosition(3, squareTick(6_250_000), squareTick(9_000_000), L.QuoRaw(15), sdkmath.ZeroInt(), "square-C")
		w.trackInRange()
		return "create"
	case 2: // the opening full-range position leaves: the active liquidity is exactly L
		for _, p := range w.sortedPos() {
			if p.tag == "first" {
				res := w.ch.Exec(&cltypes.MsgWithdrawPosition{PositionId: p.id, Sender: w.lps[p.owner].Addr.String(), LiquidityAmount: p.liq})
				w.c.Logf("square: WithdrawPosition(%d) ok=%v %s", p.id, res.OK(), trunc(res.ErrString(), 120))
				if res.OK() {
					w.collectOnWithdraw(res)
					delete(w.pos, p.id)
				}
			}
		}
		w.trackInRange()
		return "withdraw"
	default: // the swap that ends exactly on the boundary tick (sqrt price 1.5 going down, 2.5 going up)
		zfo, exactIn := r.Bool(), r.Bool()
		var amt sdkmath.Int
		switch {
		case zfo && !exactIn: // token1 out: L(2 − 1.5)
			amt = L.QuoRaw(2)
		case !zfo && !exactIn: // token0 out: L(1/2 − 1/2.5)
			amt = L.QuoRaw(10)
		default:
			a, ok := w.amountToNextTick(zfo, true)
			if !ok {
				return ""
			}
			amt = a
		}
		w.c.Logf("square: liquidity %s, landing swap zfo=%v exactIn=%v amount %s", w.pool().GetLiquidity(), zfo, exactIn, amt)
		w.swap(r.Intn(len(w.traders)), zfo, exactIn, amt, "square-landing")
		return "swap"
	}
}

func (w *clWorld) firstPosition() bool {
	r := w.r
	if w.square {
		w.squareL = 30_000_000 * (1 + r.I64n(1_000_000))
		minT := roundDown(cltypes.MinInitializedTick+w.spacing-1, w.spacing)
		maxT := roundDown(cltypes.MaxTick, w.spacing)
		if p, _ := w.createPosition(0, minT, maxT, sdkmath.NewInt(1_000_000_000_000), sdkmath.NewInt(4_000_000_000_000), "first"); p != nil {
			return true
		}
		w.square = false
	}
	for attempt := 0; attempt < 6; attempt++ {
		// price = a1/a0 spanning 1e-12 … 1e38, biased to decade boundaries and to ~1
		e := int(r.Range(-11, 36))
		switch r.Intn(4) {
		case 0:
			e = int(r.Range(-3, 3))
		case 1:
			e = 0
		}
		base := int(r.Range(6, 20))
		var a0, a1 sdkmath.Int
		if e >= 0 {
			a0, a1 = w.amount(base, base), w.amount(base+e, base+e)
		} else {
			a0, a1 = w.amount(base-e, base-e), w.amount(base, base)
		}
		if r.Intn(3) == 0 { // exactly a power of ten
			a0 = sdkmath.NewIntFromBigInt(new(big.Int).Exp(big.NewInt(10), big.NewInt(int64(len(a0.String())-1)), nil))
			a1 = sdkmath.NewIntFromBigInt(new(big.Int).Exp(big.NewInt(10), big.NewInt(int64(len(a1.String())-1)), nil))
		}
		minT := roundDown(cltypes.MinInitializedTick+w.spacing-1, w.spacing)
		maxT := roundDown(cltypes.MaxTick, w.spacing)
		lo, hi := minT, maxT
		if r.Intn(3) == 0 {
			// range around the implied price
			t := priceToTickApprox(a1, a0)
			lo, hi = w.clampTicks(t-w.spacing*(1+r.I64n(2000)), t+w.spacing*(1+r.I64n(2000)))
		}
		if p, _ := w.createPosition(0, lo, hi, a0, a1, "first"); p != nil {
			return true
		}
	}
	return false
}

func priceToTickApprox(a1, a0 sdkmath.Int) int64 {
	p := osmomath.NewBigDecFromBigInt(a1.BigInt()).Quo(osmomath.NewBigDecFromBigInt(a0.BigInt()))
	t, err := clmath.CalculatePriceToTick(p)
	if err != nil {
		return 0
	}
	return t
}

// swap executes one swap message through the pool manager.
func (w *clWorld) swap(trader int, zeroForOne, exactIn bool, amount sdkmath.Int, kind string) clSwapRec {
	rec := clSwapRec{zeroForOne: zeroForOne, exactIn: exactIn, amount: amount, kind: kind}
	din, dout := w.d0, w.d1
	if !zeroForOne {
		din, dout = w.d1, w.d0
	}
	var after func(clSwapRec)
	if w.hooks.beforeSwap != nil {
		after = w.hooks.beforeSwap(w, zeroForOne, exactIn, amount)
	}
	sender := w.traders[trader].Addr
	sprAddr := w.pool().GetSpreadRewardsAddress()
	sprBefore := w.ch.AllBal(w.ch.Ctx, sprAddr)
	bIn, bOut := w.ch.Bal(sender, din), w.ch.Bal(sender, dout)
	var res chain.ExecResult
	if exactIn {
		w.c.Logf("SwapExactAmountIn(%s%s -> %s) [%s]", amount, din, dout, kind)
		res = w.ch.Exec(&poolmanagertypes.MsgSwapExactAmountIn{Sender: sender.String(), Routes: []poolmanagertypes.SwapAmountInRoute{{PoolId: w.poolID, TokenOutDenom: dout}}, TokenIn: sdk.NewCoin(din, amount), TokenOutMinAmount: sdkmath.OneInt()})
		if res.OK() {
			var rsp poolmanagertypes.MsgSwapExactAmountInResponse
			unpackResp(res, "MsgSwapExactAmountInResponse", &rsp)
			rec.respAmount, rec.executed = rsp.TokenOutAmount, true
		}
	} else {
		w.c.Logf("SwapExactAmountOut(%s%s <- %s) [%s]", amount, dout, din, kind)
		res = w.ch.Exec(&poolmanagertypes.MsgSwapExactAmountOut{Sender: sender.String(), Routes: []poolmanagertypes.SwapAmountOutRoute{{PoolId: w.poolID, TokenInDenom: din}}, TokenOut: sdk.NewCoin(dout, amount), TokenInMaxAmount: sdkmath.NewIntWithDecimal(1, 39)})
		if res.OK() {
			var rsp poolmanagertypes.MsgSwapExactAmountOutResponse
			unpackResp(res, "MsgSwapExactAmountOutResponse", &rsp)
			rec.respAmount, rec.executed = rsp.TokenInAmount, true
		}
	}
	if res.OK() {
		w.swapsExecuted++
		rec.in, rec.out = bIn.Sub(w.ch.Bal(sender, din)), w.ch.Bal(sender, dout).Sub(bOut)
		w.c.Logf("  -> in %s out %s (response %s)", rec.in, rec.out, rec.respAmount)
		d := w.ch.AllBal(w.ch.Ctx, sprAddr).Sub(sprBefore...)
		w.feesPaid = w.feesPaid.Add(d...)
		w.trackInRange()
	} else {
		rec.errStr = res.ErrString()
		w.swapsRejected++
		if res.Panicked {
			w.recoveredPanic++
		}
		w.c.Logf("  rejected: %s", trunc(rec.errStr, 160))
	}
	if after != nil {
		after(rec)
	}
	return rec
}

// trackInRange marks positions whose range contains the current tick or was swept by the price since
// the last call (a swap can pass through a whole range).
func (w *clWorld) trackInRange() {
	if len(w.pos) == 0 {
		w.haveLastTick = false
		return
	}
	t := w.pool().GetCurrentTick()
	lo, hi := t, t
	if w.haveLastTick {
		if w.lastTick < lo {
			lo = w.lastTick
		}
		if w.lastTick > hi {
			hi = w.lastTick
		}
	}
	for _, p := range w.pos {
		// range [p.lower, p.upper) intersects the swept tick interval [lo-1, hi+1] (one tick of margin for the
		// tick = t-1 convention after a downward crossing)
		if p.lower <= hi+1 && lo-1 < p.upper {
			p.everIn = true
		}
	}
	w.lastTick, w.haveLastTick = t, true
}

// swapAmount draws a swap size class.
func (w *clWorld) swapAmount(zeroForOne, exactIn bool) (sdkmath.Int, string) {
	r := w.r
	p := w.pool()
	bal0 := w.ch.Bal(p.GetAddress(), w.d0)
	bal1 := w.ch.Bal(p.GetAddress(), w.d1)
	// reference balance in the denom the amount is expressed in
	ref := bal0
	if (exactIn && !zeroForOne) || (!exactIn && zeroForOne) {
		ref = bal1
	}
	if !ref.IsPositive() {
		ref = sdkmath.NewInt(1000)
	}
	switch r.Intn(9) {
	case 0:
		return sdkmath.OneInt(), "one-unit"
	case 1:
		return sdkmath.NewInt(1 + r.I64n(10)), "dust"
	case 2: // a tiny fraction
		return sdkmath.MaxInt(sdkmath.OneInt(), ref.QuoRaw(1000000+r.I64n(1000000))), "tiny"
	case 3, 4:
		return sdkmath.MaxInt(sdkmath.OneInt(), ref.QuoRaw(10+r.I64n(1000))), "small"
	case 5:
		return sdkmath.MaxInt(sdkmath.OneInt(), ref.QuoRaw(2+r.I64n(6))), "large"
	case 6: // drain: everything that is available of the out token (exact-out) or a multiple of the reserve (exact-in)
		if exactIn {
			return ref.MulRaw(1 + r.I64n(5)), "drain"
		}
		return sdkmath.MaxInt(sdkmath.OneInt(), ref.SubRaw(r.I64n(3))), "drain"
	case 7: // exactly to the next initialised tick
		if amt, ok := w.amountToNextTick(zeroForOne, exactIn); ok {
			return amt, "to-next-tick"
		}
		return sdkmath.MaxInt(sdkmath.OneInt(), ref.QuoRaw(100)), "small"
	default:
		return sdkmath.MaxInt(sdkmath.OneInt(), sdkmath.NewIntFromBigInt(r.BigBelow(ref.BigInt()))), "random"
	}
}

// amountToNextTick computes (in exact rationals) the amount that moves the price exactly onto the
// next initialised tick in the direction of the swap.
func (w *clWorld) amountToNextTick(zeroForOne, exactIn bool) (sdkmath.Int, bool) {
	st := clReadState(w, w.ch.Ctx)
	if st == nil || st.liq.Sign() == 0 {
		return sdkmath.Int{}, false
	}
	nt, ok := st.nextTick(zeroForOne)
	if !ok {
		return sdkmath.Int{}, false
	}
	target := st.sqrtAt(nt)
	cur := st.sqrtP
	L := st.liq
	var in, out *big.Rat
	if zeroForOne {
		if target.Cmp(cur) >= 0 {
			return sdkmath.Int{}, false
		}
		in = new(big.Rat).Mul(L, new(big.Rat).Sub(new(big.Rat).Inv(target), new(big.Rat).Inv(cur)))
		out = new(big.Rat).Mul(L, new(big.Rat).Sub(cur, target))
	} else {
		if target.Cmp(cur) <= 0 {
			return sdkmath.Int{}, false
		}
		in = new(big.Rat).Mul(L, new(big.Rat).Sub(target, cur))
		out = new(big.Rat).Mul(L, new(big.Rat).Sub(new(big.Rat).Inv(cur), new(big.Rat).Inv(target)))
	}
	var x *big.Int
	if exactIn {
		tot := new(big.Rat).Quo(in, new(big.Rat).Sub(big.NewRat(1, 1), ratDec(w.spread)))
		x = ratCeil(tot)
		x.Add(x, big.NewInt(w.r.Range(-1, 1)))
	} else {
		x = ratFloorI(out)
		x.Add(x, big.NewInt(w.r.Range(-1, 1)))
	}
	if x.Sign() <= 0 || x.BitLen() > 200 {
		return sdkmath.Int{}, false
	}
	return sdkmath.NewIntFromBigInt(x), true
}

func ratDec(d osmomath.Dec) *big.Rat { return new(big.Rat).SetFrac(d.BigInt(), big.NewInt(1e18)) }
func ratCeil(x *big.Rat) *big.Int {
	q, m := new(big.Int).QuoRem(x.Num(), x.Denom(), new(big.Int))
	if m.Sign() > 0 {
		q.Add(q, big.NewInt(1))
	}
	return q
}
func ratFloorI(x *big.Rat) *big.Int {
	q, m := new(big.Int).QuoRem(x.Num(), x.Denom(), new(big.Int))
	if m.Sign() < 0 {
		q.Sub(q, big.NewInt(1))
	}
	return q
}

// step performs one seed-chosen operation; returns the op name ("" = nothing done).
func (w *clWorld) step(mix string) string {
	r := w.r
	// operation weights per mix: swap, create, add, withdraw, collect-spread, collect-incentives, incentive, transfer, time
	weights := map[string][9]int{
		"mixed":      {40, 14, 6, 10, 6, 5, 4, 3, 12},
		"swap-heavy": {55, 10, 5, 7, 4, 3, 3, 2, 11},
		"rewards":    {38, 8, 5, 7, 5, 7, 10, 3, 17},
	}
	wt, okMix := weights[mix]
	if !okMix {
		wt = weights["mixed"]
	}
	if r.Intn(40) == 0 {
		// governance changes the set of authorised uptimes while records of the old set may still be emitting
		var sub []time.Duration
		for _, u := range cltypes.SupportedUptimes {
			if r.Bool() || u == time.Nanosecond {
				sub = append(sub, u)
			}
		}
		k := w.ch.App.ConcentratedLiquidityKeeper
		p := k.GetParams(w.ch.Ctx)
		p.AuthorizedUptimes = sub
		k.SetParams(w.ch.Ctx, p)
		w.uptimes = sub
		w.uptimeGov = true
		w.c.Logf("governance: authorised uptimes = %v", sub)
		return "governance-uptimes"
	}
	if w.square && w.squareStage < 4 {
		return w.squareStep()
	}
	if w.nbrID != 0 && r.Intn(6) == 0 {
		if op := w.nbrStep(); op != "" {
			return op
		}
	}
	total := 0
	for _, x := range wt {
		total += x
	}
	pickOp := r.Intn(total)
	opIdx := 0
	for acc := 0; opIdx < len(wt); opIdx++ {
		acc += wt[opIdx]
		if pickOp < acc {
			break
		}
	}
	ps := w.sortedPos()
	if w.hooks.protect != nil {
		var free []*clPos
		for _, p := range ps {
			if !w.hooks.protect(p) {
				free = append(free, p)
			}
		}
		ps = free
	}
	around := func(p *clPos, op string) func(chain.ExecResult, uint64) {
		if w.hooks.aroundPosOp == nil {
			return func(chain.ExecResult, uint64) {}
		}
		if f := w.hooks.aroundPosOp(w, p, op); f != nil {
			return f
		}
		return func(chain.ExecResult, uint64) {}
	}
	switch {
	case opIdx == 0:
		zfo, exactIn := r.Bool(), r.Bool()
		amt, kind := w.swapAmount(zfo, exactIn)
		w.swap(r.Intn(len(w.traders)), zfo, exactIn, amt, kind)
		return "swap"
	case opIdx == 1:
		lo, hi, kind := w.pickRange()
		a0, a1 := w.amount(0, 24), w.amount(0, 24)
		switch r.Intn(6) {
		case 0:
			a0 = sdkmath.ZeroInt()
		case 1:
			a1 = sdkmath.ZeroInt()
		case 2:
			a0, a1 = w.amount(0, 4), w.amount(0, 4)
		}
		if a0.IsZero() && a1.IsZero() {
			a0 = sdkmath.OneInt()
		}
		owner := r.Intn(len(w.lps))
		if r.Intn(8) == 0 {
			// the sender offers more than it owns: everything up to the payment goes through (position record,
			// ticks, accumulators), the bank send fails, and none of it may remain — in the stores or anywhere else
			a0 = w.ch.Bal(w.lps[owner].Addr, w.d0).MulRaw(2).AddRaw(1)
			a1 = w.ch.Bal(w.lps[owner].Addr, w.d1).MulRaw(2).AddRaw(1)
			kind = "overdrawn"
			if _, res := w.createPosition(owner, lo, hi, a0, a1, kind); !res.OK() {
				w.c.Count("overdrawn_create_rejected", 1)
			}
			w.trackInRange()
			return "create-overdrawn"
		}
		w.createPosition(owner, lo, hi, a0, a1, kind)
		w.trackInRange()
		return "create"
	case opIdx == 2 && len(ps) > 0:
		p := ps[r.Intn(len(ps))]
		a0, a1 := w.amount(0, 20), w.amount(0, 20)
		w.c.Logf("AddToPosition(%d, +%s/+%s)", p.id, a0, a1)
		aft := around(p, "add")
		res := w.ch.Exec(&cltypes.MsgAddToPosition{PositionId: p.id, Sender: w.lps[p.owner].Addr.String(), Amount0: a0, Amount1: a1, TokenMinAmount0: sdkmath.ZeroInt(), TokenMinAmount1: sdkmath.ZeroInt()})
		if res.OK() {
			var rsp cltypes.MsgAddToPositionResponse
			unpackResp(res, "MsgAddToPositionResponse", &rsp)
			np, err := w.ch.App.ConcentratedLiquidityKeeper.GetPosition(w.ch.Ctx, rsp.PositionId)
			if err != nil {
				panic(err)
			}
			w.collectOnWithdraw(res)
			delete(w.pos, p.id)
			w.pos[np.PositionId] = &clPos{id: np.PositionId, owner: p.owner, lower: np.LowerTick, upper: np.UpperTick, liq: np.Liquidity, join: w.ch.Ctx.BlockTime(), tag: p.tag, everIn: p.everIn}
			w.c.Logf("  -> new position %d liq=%s", np.PositionId, np.Liquidity)
			w.trackInRange()
			aft(res, np.PositionId)
		} else {
			w.c.Logf("  rejected: %s", trunc(res.ErrString(), 160))
		}
		return "add"
	case opIdx == 3 && len(ps) > 0:
		p := ps[r.Intn(len(ps))]
		liq := p.liq
		full := r.Intn(3) == 0
		balanced := false
		if r.Intn(5) == 0 {
			// withdraw exactly what makes the liquidity on the two sides of a shared boundary tick equal
			// (net liquidity of the tick 0 while positions still reference it)
			for _, q := range ps {
				for _, T := range []int64{q.lower, q.upper} {
					net, others := sdkmath.LegacyZeroDec(), 0
					for _, o := range w.pos {
						if o.lower == T {
							net = net.Add(o.liq)
						}
						if o.upper == T {
							net = net.Sub(o.liq)
						}
						if o.id != q.id && (o.lower == T || o.upper == T) {
							others++
						}
					}
					need := net
					if T == q.upper {
						need = net.Neg()
					}
					if others > 0 && need.IsPositive() && need.LTE(q.liq) && !balanced {
						p, liq, full, balanced = q, need, need.Equal(q.liq), true
					}
				}
			}
		}
		if !full && !balanced {
			// a fraction of the liquidity, 18 decimals
			f := sdkmath.LegacyNewDecWithPrec(1+r.I64n(999), 3)
			liq = p.liq.Mul(f)
			if liq.IsZero() {
				liq = p.liq
				full = true
			}
		}
		w.c.Logf("WithdrawPosition(%d, %s of %s)", p.id, liq, p.liq)
		aft := around(p, "withdraw")
		res := w.ch.Exec(&cltypes.MsgWithdrawPosition{PositionId: p.id, Sender: w.lps[p.owner].Addr.String(), LiquidityAmount: liq})
		if res.OK() {
			w.collectOnWithdraw(res)
			if full || liq.Equal(p.liq) {
				delete(w.pos, p.id)
				aft(res, 0)
			} else {
				p.liq = p.liq.Sub(liq)
				aft(res, p.id)
			}
		} else {
			w.c.Logf("  rejected: %s", trunc(res.ErrString(), 160))
		}
		return "withdraw"
	case opIdx == 4 && len(ps) > 0:
		p := ps[r.Intn(len(ps))]
		w.c.Logf("CollectSpreadRewards(%d)", p.id)
		aft := around(p, "collect-spread")
		res := w.ch.Exec(&cltypes.MsgCollectSpreadRewards{PositionIds: []uint64{p.id}, Sender: w.lps[p.owner].Addr.String()})
		if res.OK() {
			var rsp cltypes.MsgCollectSpreadRewardsResponse
			unpackResp(res, "MsgCollectSpreadRewardsResponse", &rsp)
			w.spreadClaimed = w.spreadClaimed.Add(rsp.CollectedSpreadRewards...)
			aft(res, p.id)
		}
		return "collect-spread"
	case opIdx == 5 && len(ps) > 0:
		p := ps[r.Intn(len(ps))]
		w.c.Logf("CollectIncentives(%d)", p.id)
		aft := around(p, "collect-incentives")
		ids := []uint64{p.id}
		if w.nbrID != 0 && r.Bool() {
			// one message claims for positions of both pools, in either order
			var mine []uint64
			for id, o := range w.nbrPos {
				if o == p.owner {
					mine = append(mine, id)
				}
			}
			sort.Slice(mine, func(a, b int) bool { return mine[a] < mine[b] })
			for _, id := range mine {
				if r.Bool() {
					ids = append(ids, id)
				} else {
					ids = append([]uint64{id}, ids...)
				}
			}
			w.c.Logf("  with neighbour positions: %v", ids)
		}
		res := w.ch.Exec(&cltypes.MsgCollectIncentives{PositionIds: ids, Sender: w.lps[p.owner].Addr.String()})
		if res.OK() {
			var rsp cltypes.MsgCollectIncentivesResponse
			unpackResp(res, "MsgCollectIncentivesResponse", &rsp)
			w.incentClaimed = w.incentClaimed.Add(rsp.CollectedIncentives...)
			if len(ids) > 1 {
				w.c.Count("claims_spanning_both_pools", 1)
				if !rsp.ForfeitedIncentives.IsZero() {
					w.c.Count("claims_spanning_both_pools_with_forfeits", 1)
					w.c.Logf("  forfeited %s", rsp.ForfeitedIncentives)
				}
			}
			aft(res, p.id)
		}
		return "collect-incentives"
	case opIdx == 6:
		// incentive record through the exported keeper entry point
		d := w.incentDenoms[r.Intn(len(w.incentDenoms))]
		amt := w.amount(3, 22)
		// emission rate 1e-6 … 1e12 per second
		rate := sdkmath.LegacyNewDecFromBigIntWithPrec(r.BigMag(12, 30), 18)
		start := w.ch.Ctx.BlockTime()
		if r.Intn(3) == 0 {
			start = start.Add(time.Duration(r.I64n(int64(48 * time.Hour))))
		}
		up := w.uptimes[r.Intn(len(w.uptimes))]
		w.c.Logf("CreateIncentive(%s%s, rate %s/s, start +%s, uptime %s)", amt, d, rate, start.Sub(w.ch.Ctx.BlockTime()), up)
		cctx, write := w.ch.Ctx.CacheContext()
		rec, err := w.ch.App.ConcentratedLiquidityKeeper.CreateIncentive(cctx, w.poolID, w.funder.Addr, sdk.NewCoin(d, amt), rate, start, up)
		if err == nil {
			write()
			if w.incents == nil {
				w.incents = map[uint64]clIncent{}
			}
			w.incents[rec.IncentiveId] = clIncent{denom: d, amt: amt, rate: rate, start: start, created: w.ch.Ctx.BlockTime()}
			w.incentFunded = w.incentFunded.Add(sdk.NewCoin(d, amt))
			if w.minIncentUptime == 0 || up < w.minIncentUptime {
				w.minIncentUptime = up
			}
		} else {
			w.c.Logf("  rejected: %s", trunc(err.Error(), 160))
		}
		return "incentive"
	case opIdx == 7 && len(ps) > 1:
		p := ps[r.Intn(len(ps))]
		to := (p.owner + 1 + r.Intn(len(w.lps)-1)) % len(w.lps)
		w.c.Logf("TransferPositions(%d: owner %d -> %d)", p.id, p.owner, to)
		aft := around(p, "transfer")
		res := w.ch.Exec(&cltypes.MsgTransferPositions{PositionIds: []uint64{p.id}, Sender: w.lps[p.owner].Addr.String(), NewOwner: w.lps[to].Addr.String()})
		if res.OK() {
			p.owner = to
			aft(res, p.id)
		} else {
			w.c.Logf("  rejected: %s", trunc(res.ErrString(), 160))
		}
		return "transfer"
	default:
		var dt time.Duration
		switch r.Intn(6) {
		case 0:
			dt = 0
		case 1:
			dt = time.Duration(1 + r.I64n(1000)) // nanoseconds
		case 2: // cross a supported uptime exactly / ±1ns
			dt = cltypes.SupportedUptimes[r.Intn(len(cltypes.SupportedUptimes))] + time.Duration(r.Range(-1, 1))
		case 3:
			dt = time.Duration(r.I64n(int64(14 * 24 * time.Hour)))
		default:
			dt = time.Duration(r.I64n(int64(2 * time.Hour)))
		}
		if dt < 0 {
			dt = 0
		}
		w.c.Logf("NextBlock(+%s)", dt)
		w.ch.NextBlock(dt)
		return "time"
	}
}

// collectOnWithdraw accounts rewards that a withdraw / add-to-position pays out implicitly, from
// the bank events of the message (transfers out of the two reward accounts).
func (w *clWorld) collectOnWithdraw(res chain.ExecResult) {
	p := w.pool()
	spr, inc := p.GetSpreadRewardsAddress().String(), p.GetIncentivesAddress().String()
	for _, ev := range res.Events {
		if ev.Type != "transfer" {
			continue
		}
		from, amt := ev.Attr("sender"), ev.Attr("amount")
		if from != spr && from != inc {
			continue
		}
		coins, err := sdk.ParseCoinsNormalized(amt)
		if err != nil {
			continue
		}
		if from == spr {
			w.spreadClaimed = w.spreadClaimed.Add(coins...)
		} else {
			// forfeited incentives are re-deposited: they go from the incentive account back to it via the
			// owner only in old versions; here a transfer out of the incentive account is a claim
			w.incentClaimed = w.incentClaimed.Add(coins...)
		}
	}
}

func fmtCoins(c sdk.Coins) string { return fmt.Sprint(c) }
