//go:build verif

package main

// C06 — lockup: locked funds are safe, time-locked and exactly indexed.
// Oracle: a lock book (reference model) updated from message responses, compared with
// every lockup query, the module balance and the owners' balances after every operation.

import (
	"fmt"
	"sort"
	"strings"
	"time"

	sdkmath "cosmossdk.io/math"
	sdk "github.com/cosmos/cosmos-sdk/types"
	authtypes "github.com/cosmos/cosmos-sdk/x/auth/types"

	"github.com/osmosis-labs/osmosis/v31/x/lockup"
	lockupkeeper "github.com/osmosis-labs/osmosis/v31/x/lockup/keeper"
	lockuptypes "github.com/osmosis-labs/osmosis/v31/x/lockup/types"
	tftypes "github.com/osmosis-labs/osmosis/v31/x/tokenfactory/types"
	sftypes "github.com/osmosis-labs/osmosis/v31/x/superfluid/types"
	"github.com/osmosis-labs/osmosis/v31/zzverif/chain"
	"github.com/osmosis-labs/osmosis/v31/zzverif/vk"
)

type c06Lock struct {
	id       uint64
	owner    int
	denom    string
	amt      sdkmath.Int
	dur      time.Duration
	end      time.Time // zero = not unlocking
	receiver string    // "" = owner
}

func (l *c06Lock) unlocking() bool { return !l.end.IsZero() }

type c06Model struct {
	locks  map[uint64]*c06Lock
	lastID uint64
}

func (m *c06Model) sorted() []*c06Lock {
	out := make([]*c06Lock, 0, len(m.locks))
	for _, l := range m.locks {
		out = append(out, l)
	}
	sort.Slice(out, func(i, j int) bool { return out[i].id < out[j].id })
	return out
}

func c06Render(l *c06Lock, owners []chain.Account) string {
	e := "-"
	if l.unlocking() {
		e = fmt.Sprint(l.end.UnixNano())
	}
	return fmt.Sprintf("%d|%s|%s%s|%d|%s|%s", l.id, owners[l.owner].Addr.String(), l.amt, l.denom, int64(l.dur), e, l.receiver)
}

func c06RenderImpl(l lockuptypes.PeriodLock) string {
	e := "-"
	if !l.EndTime.IsZero() {
		e = fmt.Sprint(l.EndTime.UnixNano())
	}
	return fmt.Sprintf("%d|%s|%s|%d|%s|%s", l.ID, l.Owner, l.Coins.String(), int64(l.Duration), e, l.RewardReceiverAddress)
}

func c06SetEq(model []string, impl []lockuptypes.PeriodLock) string {
	got := make([]string, 0, len(impl))
	for _, l := range impl {
		got = append(got, c06RenderImpl(l))
	}
	sort.Strings(got)
	sort.Strings(model)
	if len(got) != len(model) {
		return fmt.Sprintf("returned %d locks %v, model has %d %v", len(got), got, len(model), model)
	}
	for i := range got {
		if got[i] != model[i] {
			return fmt.Sprintf("returned %v, model %v", got, model)
		}
	}
	return ""
}

func runC06(c *vk.Ctx) {
	c.R.Rule = "cases = histories of LockTokens (new / add-to-existing), ExtendLockup, BeginUnlocking (full / partial → split), BeginUnlockingAll, SetRewardReceiverAddress, wrong-owner and invalid attempts, block-time jumps landing before / exactly at / after unlock end times, and matured-lock sweeps (real EndBlocker at heights divisible by 120; every 10th history runs 120 real consecutive blocks per sweep) by 4 owners over 3 denoms (one a strict prefix of another; in every fourth history a concentrated share denom, whose matured locks are burned by design; in every third a factory denom merely containing cl/pool) and 3 usual + up to 20 arbitrary durations (one history in six starts with 24 locks of one denom under 24 distinct whole-hour durations, then fully unlocks, matures and sweeps every lock of a contiguous range of those durations, so that the per-denom accumulation tree has inner nodes that empty out); after every operation the module balance, LockedDenom(denom, d) for every used duration ±1ns and 0, 12 by-owner/denom/duration/time list queries and the module-wide by-denom keeper lists GetLocksDenom / GetLocksLongerThanDurationDenom / GetLocksPastTimeDenom (as sets), LockedByID and owner balance + locked conservation are compared with the lock book. distinct_nontrivial counts distinct (operation, outcome, #live locks bucket, #unlocking bucket, sweep mode) tuples."
	nHist := c.N(120, 480)
	opsPer := c.N(60, 250)
	// "foo" is a strict prefix of "foox" (as gamm/pool/1 is of gamm/pool/10); "cl/pool/7" is a concentrated share
	// denom, whose matured locks are burned by design instead of being returned
	denoms := []string{"foo", "foox", "baz"}
	const clShare = "cl/pool/7"
	c.Cases("history", nHist, func(i int, r *vk.Rng) {
		ch := chain.New(chain.Options{Denoms: append(append([]string{}, denoms...), clShare), NumAccounts: 5})
		defer ch.Close()
		ch.NextBlock(5 * time.Second)
		owners := append([]chain.Account{}, ch.Accs[:4]...)
		unpayable := -1
		// every third history locks a factory denom whose name merely contains "cl/pool" instead of baz
		denoms := append([]string{}, denoms...)
		if i%3 == 1 {
			cr := ch.Accs[4]
			if res := ch.Exec(&tftypes.MsgCreateDenom{Sender: cr.Addr.String(), Subdenom: "cl/pool/1"}); res.OK() {
				fd := "factory/" + cr.Addr.String() + "/cl/pool/1"
				ok := true
				for _, o := range owners {
					if !ch.Exec(&tftypes.MsgMint{Sender: cr.Addr.String(), Amount: sdk.NewCoin(fd, sdkmath.NewIntWithDecimal(1, 40)), MintToAddress: o.Addr.String()}).OK() {
						ok = false
					}
				}
				if ok {
					denoms[2] = fd
				}
			}
		}
		if i%4 == 2 {
			denoms[1] = clShare
		}
		// every fifth history (shortcut sweeps only): a fifth owner that the bank module refuses to pay — the governance
		// module account, which can come to own a lock through a governance-executed message. Paying out its matured
		// lock fails; on this code the end blocker then panics (the block, and with it the chain, halts) and nothing is
		// written. The history ends there; what must never happen is that the lock disappears while its coins stay behind.
		if i%5 == 4 && i%10 != 9 && i%3 != 1 {
			gov := authtypes.NewModuleAddress("gov")
			fund := sdk.NewCoins()
			for _, d := range denoms {
				fund = fund.Add(sdk.NewCoin(d, sdkmath.NewIntWithDecimal(1, 39)))
			}
			if err := ch.App.BankKeeper.SendCoins(ch.Ctx, ch.Accs[4].Addr, gov, fund); err == nil {
				owners = append(owners, chain.Account{Addr: gov})
				unpayable = len(owners) - 1
			}
		}
		burned := map[string]sdkmath.Int{} // owner/denom -> concentrated shares burned at maturity
		q := lockupkeeper.NewQuerier(*ch.App.LockupKeeper)
		modAddr := authtypes.NewModuleAddress(lockuptypes.ModuleName)
		realSweeps := i%10 == 9
		mode := "shortcut"
		if realSweeps {
			mode = "real120"
		}
		m := &c06Model{locks: map[uint64]*c06Lock{}}
		durPool := []time.Duration{24 * time.Hour, 7 * 24 * time.Hour, 14 * 24 * time.Hour}
		nArb := r.Intn(21)
		for k := 0; k < nArb; k++ {
			durPool = append(durPool, time.Duration(1+r.I64n(int64(20*24*time.Hour))))
		}
		if r.Intn(3) == 0 {
			durPool = append(durPool, 1, 2, time.Second)
		}
		usedDur := map[time.Duration]bool{}
		start := map[string]sdkmath.Int{}
		for oi, o := range owners {
			for _, d := range denoms {
				start[fmt.Sprintf("%d/%s", oi, d)] = ch.Bal(o.Addr, d)
			}
		}
		sig := func(op string) map[string]any { return map[string]any{"op": op, "sweep": mode} }

		check := func(op string) bool {
			ctx := ch.Ctx
			now := ctx.BlockTime()
			// module balance == Σ live locks, per denom
			for _, d := range denoms {
				sum := sdkmath.ZeroInt()
				for _, l := range m.locks {
					if l.denom == d {
						sum = sum.Add(l.amt)
					}
				}
				if got := ch.Bal(modAddr, d); !got.Equal(sum) {
					c.Violate("C06.module_balance", sig(op), "after %s: lockup module holds %s%s, Σ live locks = %s", op, got, d, sum)
					return false
				}
			}
			// conservation per owner/denom
			for oi, o := range owners {
				for _, d := range denoms {
					locked := sdkmath.ZeroInt()
					for _, l := range m.locks {
						if l.owner == oi && l.denom == d {
							locked = locked.Add(l.amt)
						}
					}
					if b, ok := burned[fmt.Sprintf("%d/%s", oi, d)]; ok {
						locked = locked.Add(b)
					}
					if got := ch.Bal(o.Addr, d).Add(locked); !got.Equal(start[fmt.Sprintf("%d/%s", oi, d)]) {
						c.Violate("C06.conservation", sig(op), "after %s: owner %d balance + locked %s = %s, started with %s", op, oi, d, got, start[fmt.Sprintf("%d/%s", oi, d)])
						return false
					}
				}
			}
			// accumulation for every used duration ±1ns and 0
			durs := []time.Duration{0}
			for d := range usedDur {
				durs = append(durs, d, d+1)
				if d > 1 {
					durs = append(durs, d-1)
				}
			}
			for _, d := range denoms {
				for _, du := range durs {
					want := sdkmath.ZeroInt()
					for _, l := range m.locks {
						if l.denom == d && l.dur >= du {
							want = want.Add(l.amt)
						}
					}
					res, err := q.LockedDenom(ctx, &lockuptypes.LockedDenomRequest{Denom: d, Duration: du})
					if err != nil || !res.Amount.Equal(want) {
						c.Violate("C06.locked_denom", sig(op), "after %s: LockedDenom(%s, %s) = %v (%v), Σ live locks with duration >= d is %s", op, d, du, res, err, want)
						return false
					}
				}
			}
			c.Count("accumulation_queries", int64(len(denoms)*len(durs)))
			// by id
			for _, l := range m.locks {
				res, err := q.LockedByID(ctx, &lockuptypes.LockedRequest{LockId: l.id})
				if err != nil || res.Lock == nil || c06RenderImpl(*res.Lock) != c06Render(l, owners) {
					c.Violate("C06.lock_by_id", sig(op), "after %s: LockedByID(%d) = %v (%v), model %s", op, l.id, res, err, c06Render(l, owners))
					return false
				}
			}
			// a swept / never existing id must not resolve
			if res, err := q.LockedByID(ctx, &lockuptypes.LockedRequest{LockId: m.lastID + 1}); err == nil && res.Lock != nil {
				c.Violate("C06.lock_by_id", sig(op), "LockedByID(%d) resolves although no such lock exists", m.lastID+1)
				return false
			}
			// time points of interest
			tps := []time.Time{now, now.Add(1), now.Add(-1), now.Add(24 * time.Hour)}
			for _, l := range m.locks {
				if l.unlocking() {
					tps = append(tps, l.end, l.end.Add(1), l.end.Add(-1))
				} else if len(tps) < 40 {
					tps = append(tps, now.Add(l.dur), now.Add(l.dur+1), now.Add(l.dur-1))
				}
			}
			if len(tps) > 24 {
				// keep the check affordable: a seed-chosen subset plus the fixed four
				sub := tps[:4]
				for k := 0; k < 20; k++ {
					sub = append(sub, tps[4+r.Intn(len(tps)-4)])
				}
				tps = sub
			}
			dq := durs
			if len(dq) > 16 {
				dq = append([]time.Duration{0}, dq[1+r.Intn(len(dq)-15):][:15]...)
			}
			sel := func(oi int, f func(l *c06Lock) bool) []string {
				var out []string
				for _, l := range m.locks {
					if l.owner == oi && f(l) {
						out = append(out, c06Render(l, owners))
					}
				}
				return out
			}
			coinsOf := func(oi int, f func(l *c06Lock) bool) sdk.Coins {
				cs := sdk.NewCoins()
				for _, l := range m.locks {
					if l.owner == oi && f(l) {
						cs = cs.Add(sdk.NewCoin(l.denom, l.amt))
					}
				}
				return cs
			}
			nq := int64(0)
			for oi, o := range owners {
				addr := o.Addr.String()
				// coin queries
				uc, e1 := q.AccountUnlockableCoins(ctx, &lockuptypes.AccountUnlockableCoinsRequest{Owner: addr})
				ug, e2 := q.AccountUnlockingCoins(ctx, &lockuptypes.AccountUnlockingCoinsRequest{Owner: addr})
				lc, e3 := q.AccountLockedCoins(ctx, &lockuptypes.AccountLockedCoinsRequest{Owner: addr})
				if e1 != nil || e2 != nil || e3 != nil {
					c.Violate("C06.query_error", sig(op), "coin queries failed: %v %v %v", e1, e2, e3)
					return false
				}
				wUC := coinsOf(oi, func(l *c06Lock) bool { return l.unlocking() && !l.end.After(now) })
				wUG := coinsOf(oi, func(l *c06Lock) bool { return l.unlocking() && l.end.After(now) })
				wLC := coinsOf(oi, func(l *c06Lock) bool { return !l.unlocking() || l.end.After(now) })
				if !uc.Coins.Equal(wUC) || !ug.Coins.Equal(wUG) || !lc.Coins.Equal(wLC) {
					c.Violate("C06.account_coins", sig(op), "after %s owner %d: unlockable %s (model %s), unlocking %s (model %s), locked %s (model %s)", op, oi, uc.Coins, wUC, ug.Coins, wUG, lc.Coins, wLC)
					return false
				}
				nq += 3
				for _, ts := range tps {
					dur := time.Duration(0)
					if ts.After(now) {
						dur = ts.Sub(now)
					}
					r1, e1 := q.AccountLockedPastTime(ctx, &lockuptypes.AccountLockedPastTimeRequest{Owner: addr, Timestamp: ts})
					r2, e2 := q.AccountLockedPastTimeNotUnlockingOnly(ctx, &lockuptypes.AccountLockedPastTimeNotUnlockingOnlyRequest{Owner: addr, Timestamp: ts})
					r3, e3 := q.AccountUnlockedBeforeTime(ctx, &lockuptypes.AccountUnlockedBeforeTimeRequest{Owner: addr, Timestamp: ts})
					if e1 != nil || e2 != nil || e3 != nil {
						c.Violate("C06.query_error", sig(op), "time queries failed: %v %v %v", e1, e2, e3)
						return false
					}
					w1 := sel(oi, func(l *c06Lock) bool { return (l.unlocking() && l.end.After(ts)) || (!l.unlocking() && l.dur >= dur) })
					w2 := sel(oi, func(l *c06Lock) bool { return !l.unlocking() && l.dur >= dur })
					w3 := sel(oi, func(l *c06Lock) bool {
						if l.unlocking() {
							return !l.end.After(ts)
						}
						return !ts.Before(now) && l.dur < ts.Sub(now)
					})
					for k, pair := range []struct {
						name string
						w    []string
						g    []lockuptypes.PeriodLock
					}{{"AccountLockedPastTime", w1, r1.Locks}, {"AccountLockedPastTimeNotUnlockingOnly", w2, r2.Locks}, {"AccountUnlockedBeforeTime", w3, r3.Locks}} {
						_ = k
						if msg := c06SetEq(pair.w, pair.g); msg != "" {
							s := sig(op)
							s["query"] = pair.name
							c.Violate("C06.list_query", s, "after %s: %s(owner %d, t=now%+d ns): %s", op, pair.name, oi, ts.Sub(now), msg)
							return false
						}
					}
					nq += 3
					for _, d := range denoms {
						r4, e4 := q.AccountLockedPastTimeDenom(ctx, &lockuptypes.AccountLockedPastTimeDenomRequest{Owner: addr, Timestamp: ts, Denom: d})
						w4 := sel(oi, func(l *c06Lock) bool {
							return l.denom == d && ((l.unlocking() && l.end.After(ts)) || (!l.unlocking() && l.dur >= dur))
						})
						if e4 != nil {
							c.Violate("C06.query_error", sig(op), "AccountLockedPastTimeDenom failed: %v", e4)
							return false
						}
						if msg := c06SetEq(w4, r4.Locks); msg != "" {
							s := sig(op)
							s["query"] = "AccountLockedPastTimeDenom"
							c.Violate("C06.list_query", s, "after %s: AccountLockedPastTimeDenom(owner %d, %s, t=now%+d ns): %s", op, oi, d, ts.Sub(now), msg)
							return false
						}
						nq++
					}
				}
				for _, du := range dq {
					r1, e1 := q.AccountLockedLongerDuration(ctx, &lockuptypes.AccountLockedLongerDurationRequest{Owner: addr, Duration: du})
					r2, e2 := q.AccountLockedDuration(ctx, &lockuptypes.AccountLockedDurationRequest{Owner: addr, Duration: du})
					r3, e3 := q.AccountLockedLongerDurationNotUnlockingOnly(ctx, &lockuptypes.AccountLockedLongerDurationNotUnlockingOnlyRequest{Owner: addr, Duration: du})
					if e1 != nil || e2 != nil || e3 != nil {
						c.Violate("C06.query_error", sig(op), "duration queries failed: %v %v %v", e1, e2, e3)
						return false
					}
					w1 := sel(oi, func(l *c06Lock) bool { return l.dur >= du })
					w2 := sel(oi, func(l *c06Lock) bool { return l.dur == du })
					w3 := sel(oi, func(l *c06Lock) bool { return !l.unlocking() && l.dur >= du })
					for _, pair := range []struct {
						name string
						w    []string
						g    []lockuptypes.PeriodLock
					}{{"AccountLockedLongerDuration", w1, r1.Locks}, {"AccountLockedDuration", w2, r2.Locks}, {"AccountLockedLongerDurationNotUnlockingOnly", w3, r3.Locks}} {
						if msg := c06SetEq(pair.w, pair.g); msg != "" {
							s := sig(op)
							s["query"] = pair.name
							c.Violate("C06.list_query", s, "after %s: %s(owner %d, %s): %s", op, pair.name, oi, du, msg)
							return false
						}
					}
					nq += 3
					for _, d := range denoms {
						r4, e4 := q.AccountLockedLongerDurationDenom(ctx, &lockuptypes.AccountLockedLongerDurationDenomRequest{Owner: addr, Duration: du, Denom: d})
						w4 := sel(oi, func(l *c06Lock) bool { return l.denom == d && l.dur >= du })
						if e4 != nil {
							c.Violate("C06.query_error", sig(op), "AccountLockedLongerDurationDenom failed: %v", e4)
							return false
						}
						if msg := c06SetEq(w4, r4.Locks); msg != "" {
							s := sig(op)
							s["query"] = "AccountLockedLongerDurationDenom"
							c.Violate("C06.list_query", s, "after %s: AccountLockedLongerDurationDenom(owner %d, %s, %s): %s", op, oi, d, du, msg)
							return false
						}
						nq++
					}
				}
			}
			// module-wide by-denom lists (what x/incentives selects reward recipients with)
			selAll := func(f func(l *c06Lock) bool) []string {
				var out []string
				for _, l := range m.locks {
					if f(l) {
						out = append(out, c06Render(l, owners))
					}
				}
				return out
			}
			lkk := ch.App.LockupKeeper
			for _, d := range denoms {
				d := d
				if msg := c06SetEq(selAll(func(l *c06Lock) bool { return l.denom == d }), lkk.GetLocksDenom(ctx, d)); msg != "" {
					s := sig(op)
					s["query"] = "GetLocksDenom"
					c.Violate("C06.list_query", s, "after %s: GetLocksDenom(%s): %s", op, d, msg)
					return false
				}
				for _, du := range dq {
					du := du
					if msg := c06SetEq(selAll(func(l *c06Lock) bool { return l.denom == d && l.dur >= du }), lkk.GetLocksLongerThanDurationDenom(ctx, d, du)); msg != "" {
						s := sig(op)
						s["query"] = "GetLocksLongerThanDurationDenom"
						c.Violate("C06.list_query", s, "after %s: GetLocksLongerThanDurationDenom(%s, %s): %s", op, d, du, msg)
						return false
					}
					nq++
				}
				for _, ts := range tps[:4] {
					ts := ts
					dur := time.Duration(0)
					if ts.After(now) {
						dur = ts.Sub(now)
					}
					w := selAll(func(l *c06Lock) bool {
						return l.denom == d && ((l.unlocking() && l.end.After(ts)) || (!l.unlocking() && l.dur >= dur))
					})
					if msg := c06SetEq(w, lkk.GetLocksPastTimeDenom(ctx, d, ts)); msg != "" {
						s := sig(op)
						s["query"] = "GetLocksPastTimeDenom"
						c.Violate("C06.list_query", s, "after %s: GetLocksPastTimeDenom(%s, t=now%+d ns): %s", op, d, ts.Sub(now), msg)
						return false
					}
					nq++
				}
			}
			// module-wide locked amount
			ml, err := q.ModuleLockedAmount(ctx, &lockuptypes.ModuleLockedAmountRequest{})
			wML := sdk.NewCoins()
			for _, l := range m.locks {
				if !l.unlocking() || l.end.After(now) {
					wML = wML.Add(sdk.NewCoin(l.denom, l.amt))
				}
			}
			if err != nil || !ml.Coins.Equal(wML) {
				c.Violate("C06.module_locked_amount", sig(op), "after %s: ModuleLockedAmount = %v (%v), model %s", op, ml, err, wML)
				return false
			}
			c.Count("list_queries", nq)
			c.Eval(nq)
			return true
		}

		sweep := func() {
			// the sweep runs in the end blocker of heights divisible by 120
			if realSweeps {
				for ch.Height%120 != 0 {
					ch.NextBlock(time.Second)
				}
				ch.NextBlock(time.Second) // executes EndBlocker of the height divisible by 120
			} else {
				h := (ch.Ctx.BlockHeight()/120 + 1) * 120
				lockup.EndBlocker(ch.Ctx.WithBlockHeight(h), *ch.App.LockupKeeper)
			}
		}
		modelSweep := func(at time.Time) int {
			n := 0
			for id, l := range m.locks {
				if l.unlocking() && !l.end.After(at) {
					if strings.HasPrefix(l.denom, "cl/pool") {
						k := fmt.Sprintf("%d/%s", l.owner, l.denom)
						if burned[k].IsNil() {
							burned[k] = sdkmath.ZeroInt()
						}
						burned[k] = burned[k].Add(l.amt)
					}
					delete(m.locks, id)
					n++
				}
			}
			return n
		}

		// "deep" histories (one in six, never with the unpayable owner) start with a scripted prelude: one denom is
		// locked under 24 distinct durations (the per-denom accumulation tree then has inner nodes), every lock of a
		// contiguous range of durations is fully unlocked, matures and is swept; the random operations follow
		type c06Forced struct {
			k      int
			owner  int
			denom  string
			dur    time.Duration
			lockID uint64
			dt     time.Duration
		}
		deep := unpayable < 0 && i%6 == 2
		deepDenom := denoms[r.Intn(len(denoms))]
		deepPerm := make([]int, 24)
		for j := range deepPerm {
			deepPerm[j] = j + 1
		}
		for j := len(deepPerm) - 1; j > 0; j-- {
			x := r.Intn(j + 1)
			deepPerm[j], deepPerm[x] = deepPerm[x], deepPerm[j]
		}
		deepLo := 2 + r.Intn(12)
		deepHi := deepLo + 3 + r.Intn(8)
		deepPhase := 0
		if deep {
			mode += "+deep"
		}
		nextForced := func(step int) *c06Forced {
			if !deep {
				return nil
			}
			switch {
			case step < 24:
				return &c06Forced{k: 0, owner: step % len(owners), denom: deepDenom, dur: time.Duration(deepPerm[step]) * time.Hour}
			case deepPhase == 0:
				for _, l := range m.sorted() {
					if l.denom == deepDenom && !l.unlocking() && l.dur >= time.Duration(deepLo)*time.Hour && l.dur <= time.Duration(deepHi)*time.Hour && l.dur%time.Hour == 0 {
						return &c06Forced{k: 30, owner: l.owner, lockID: l.id}
					}
				}
				deepPhase = 1
				return &c06Forced{k: 80, dt: time.Duration(deepHi)*time.Hour + time.Second}
			case deepPhase == 1:
				deepPhase = 2
				return &c06Forced{k: 99}
			}
			return nil
		}
		for step := 0; step < opsPer; step++ {
			oi := r.Intn(len(owners))
			if unpayable >= 0 && r.Intn(3) == 0 {
				oi = unpayable
			}
			k := r.Intn(100)
			forced := nextForced(step)
			if forced != nil {
				k = forced.k
				if forced.k != 80 && forced.k != 99 {
					oi = forced.owner
				}
			}
			o := owners[oi]
			var op, outcome string
			c.Eval(1)
			live := m.sorted()
			pick := func(f func(l *c06Lock) bool) *c06Lock {
				var cand []*c06Lock
				for _, l := range live {
					if f(l) {
						cand = append(cand, l)
					}
				}
				if len(cand) == 0 {
					return nil
				}
				return cand[r.Intn(len(cand))]
			}
			switch {
			case k < 30:
				op = "LockTokens"
				d := denoms[r.Intn(len(denoms))]
				du := durPool[r.Intn(len(durPool))]
				if forced != nil {
					d, du = forced.denom, forced.dur
				}
				amt := sdkmath.NewIntFromBigInt(r.BigMag(0, 30))
				c.Logf("LockTokens(owner %d, %s%s, %s)", oi, amt, d, du)
				res := ch.Exec(&lockuptypes.MsgLockTokens{Owner: o.Addr.String(), Duration: du, Coins: sdk.NewCoins(sdk.NewCoin(d, amt))})
				if !res.OK() {
					c.Violate("C06.valid_op_failed", sig(op), "LockTokens failed: %s", res.ErrString())
					return
				}
				id := lockIDFrom(res)
				usedDur[du] = true
				var ex *c06Lock
				for _, l := range live {
					if l.owner == oi && l.denom == d && l.dur == du && !l.unlocking() && (ex == nil || l.id < ex.id) {
						ex = l
					}
				}
				if ex != nil {
					// adds to an existing not-unlocking lock of the same owner, denom and duration
					outcome = "added"
					if id != 0 && m.locks[id] == nil {
						c.Violate("C06.lock_id", sig(op), "LockTokens returned id %d, model expected a top-up of an existing lock (e.g. %d)", id, ex.id)
						return
					}
					tgt := m.locks[id]
					if tgt == nil || tgt.owner != oi || tgt.denom != d || tgt.dur != du || tgt.unlocking() {
						c.Violate("C06.lock_id", sig(op), "LockTokens topped up lock %d which is not a not-unlocking lock of this owner/denom/duration", id)
						return
					}
					tgt.amt = tgt.amt.Add(amt)
				} else {
					outcome = "created"
					if id != m.lastID+1 {
						c.Violate("C06.lock_id", sig(op), "LockTokens created id %d, expected %d", id, m.lastID+1)
						return
					}
					m.lastID = id
					m.locks[id] = &c06Lock{id: id, owner: oi, denom: d, amt: amt, dur: du}
				}
			case k < 45:
				op = "BeginUnlocking"
				l := pick(func(l *c06Lock) bool { return l.owner == oi && !l.unlocking() })
				if forced != nil {
					l = m.locks[forced.lockID]
				}
				if l == nil {
					continue
				}
				var coins sdk.Coins
				partial := r.Intn(2) == 0 && l.amt.GT(sdkmath.OneInt()) && forced == nil
				amt := l.amt
				if partial {
					amt = sdkmath.NewIntFromBigInt(r.BigBelow(l.amt.SubRaw(1).BigInt())).AddRaw(1)
					coins = sdk.NewCoins(sdk.NewCoin(l.denom, amt))
				} else if r.Bool() {
					coins = sdk.NewCoins(sdk.NewCoin(l.denom, l.amt)) // whole amount given explicitly
				}
				c.Logf("BeginUnlocking(owner %d, id %d, %s)", oi, l.id, coins)
				res := ch.Exec(&lockuptypes.MsgBeginUnlocking{Owner: o.Addr.String(), ID: l.id, Coins: coins})
				if !res.OK() {
					c.Violate("C06.valid_op_failed", sig(op), "BeginUnlocking failed: %s", res.ErrString())
					return
				}
				end := ch.Ctx.BlockTime().Add(l.dur)
				if partial {
					outcome = "split"
					m.lastID++
					l.amt = l.amt.Sub(amt)
					m.locks[m.lastID] = &c06Lock{id: m.lastID, owner: oi, denom: l.denom, amt: amt, dur: l.dur, end: end, receiver: l.receiver}
				} else {
					outcome = "full"
					l.end = end
				}
			case k < 50:
				op = "BeginUnlockingAll"
				c.Logf("BeginUnlockingAll(owner %d)", oi)
				res := ch.Exec(&lockuptypes.MsgBeginUnlockingAll{Owner: o.Addr.String()})
				if !res.OK() {
					c.Violate("C06.valid_op_failed", sig(op), "BeginUnlockingAll failed: %s", res.ErrString())
					return
				}
				n := 0
				for _, l := range live {
					if l.owner == oi && !l.unlocking() {
						l.end = ch.Ctx.BlockTime().Add(l.dur)
						n++
					}
				}
				outcome = fmt.Sprintf("n%d", min(n, 3))
			case k < 60:
				op = "ExtendLockup"
				wantUnlocking := r.Intn(4) == 0
				l := pick(func(l *c06Lock) bool { return l.owner == oi && l.unlocking() == wantUnlocking })
				if l == nil {
					continue
				}
				if l.unlocking() {
					// extending a lock that is already unlocking: the code refuses; were it accepted, the
					// statement's "never before its unlock start plus its duration" moves the end time out
					op = "ExtendLockup(unlocking)"
					nd := l.dur + time.Duration(1+r.I64n(int64(10*24*time.Hour)))
					c.Logf("ExtendLockup(owner %d, unlocking id %d, %s -> %s)", oi, l.id, l.dur, nd)
					res := ch.Exec(&lockuptypes.MsgExtendLockup{Owner: o.Addr.String(), ID: l.id, Duration: nd})
					if res.OK() {
						outcome = "extended-while-unlocking"
						l.end = l.end.Add(nd - l.dur)
						l.dur = nd
						usedDur[nd] = true
					} else {
						outcome = "rejected-unlocking"
					}
					break
				}
				nd := l.dur + time.Duration(1+r.I64n(int64(10*24*time.Hour)))
				if r.Intn(3) == 0 {
					nd = durPool[r.Intn(len(durPool))]
				}
				if r.Intn(8) == 0 {
					nd = l.dur // a no-op extension
				}
				c.Logf("ExtendLockup(owner %d, id %d, %s -> %s)", oi, l.id, l.dur, nd)
				res := ch.Exec(&lockuptypes.MsgExtendLockup{Owner: o.Addr.String(), ID: l.id, Duration: nd})
				if nd == l.dur {
					// the statement does not say whether a no-op extension is refused or accepted: either way the lock
					// and every index must be exactly as before, which the comparison after the operation decides
					outcome = "same-duration-rejected"
					if res.OK() {
						outcome = "same-duration-accepted"
					}
				} else if nd < l.dur {
					outcome = "rejected-not-longer"
					if res.OK() {
						c.Violate("C06.invalid_op_succeeded", sig(op), "ExtendLockup to a shorter duration succeeded")
						return
					}
				} else {
					outcome = "extended"
					if !res.OK() {
						c.Violate("C06.valid_op_failed", sig(op), "ExtendLockup failed: %s", res.ErrString())
						return
					}
					l.dur = nd
					usedDur[nd] = true
				}
			case k < 66:
				op = "SetRewardReceiver"
				l := pick(func(l *c06Lock) bool { return l.owner == oi })
				if l == nil {
					continue
				}
				rc := ch.Accs[r.Intn(len(ch.Accs))].Addr.String()
				want := rc
				if rc == o.Addr.String() {
					want = ""
				}
				c.Logf("SetRewardReceiverAddress(owner %d, id %d, %s)", oi, l.id, rc)
				res := ch.Exec(&lockuptypes.MsgSetRewardReceiverAddress{Owner: o.Addr.String(), LockID: l.id, RewardReceiver: rc})
				if want == l.receiver {
					outcome = "rejected-same"
					if res.OK() {
						c.Violate("C06.invalid_op_succeeded", sig(op), "SetRewardReceiverAddress to the current receiver succeeded")
						return
					}
				} else {
					outcome = "set"
					if !res.OK() {
						c.Violate("C06.valid_op_failed", sig(op), "SetRewardReceiverAddress failed: %s", res.ErrString())
						return
					}
					l.receiver = want
				}
			case k < 76: // attempts that must fail and change nothing
				op = "invalid"
				l := pick(func(l *c06Lock) bool { return true })
				if l == nil {
					continue
				}
				other := owners[(l.owner+1+r.Intn(len(owners)-1))%len(owners)]
				var msg sdk.Msg
				switch r.Intn(6) {
				case 0:
					outcome = "wrong-owner-unlock"
					msg = &lockuptypes.MsgBeginUnlocking{Owner: other.Addr.String(), ID: l.id}
				case 1:
					outcome = "wrong-owner-extend"
					msg = &lockuptypes.MsgExtendLockup{Owner: other.Addr.String(), ID: l.id, Duration: l.dur + time.Hour}
				case 2:
					outcome = "wrong-owner-receiver"
					msg = &lockuptypes.MsgSetRewardReceiverAddress{Owner: other.Addr.String(), LockID: l.id, RewardReceiver: other.Addr.String()}
				case 3:
					outcome = "unlock-too-much"
					msg = &lockuptypes.MsgBeginUnlocking{Owner: owners[l.owner].Addr.String(), ID: l.id, Coins: sdk.NewCoins(sdk.NewCoin(l.denom, l.amt.AddRaw(1)))}
				case 4:
					outcome = "unlock-other-denom"
					od := denoms[0]
					if od == l.denom {
						od = denoms[1]
					}
					msg = &lockuptypes.MsgBeginUnlocking{Owner: owners[l.owner].Addr.String(), ID: l.id, Coins: sdk.NewCoins(sdk.NewCoin(od, sdkmath.OneInt()))}
				default:
					outcome = "force-unlock-not-allowed"
					msg = &lockuptypes.MsgForceUnlock{Owner: owners[l.owner].Addr.String(), ID: l.id}
				}
				if l.unlocking() && (outcome == "unlock-too-much" || outcome == "unlock-other-denom") {
					outcome += "-unlocking"
				}
				c.Logf("invalid attempt %s on lock %d", outcome, l.id)
				res := ch.Exec(msg)
				if res.OK() {
					c.Violate("C06.invalid_op_succeeded", map[string]any{"op": outcome}, "%s succeeded on lock %d (%s)", outcome, l.id, c06Render(l, owners))
					return
				}
			case k < 92:
				op = "time"
				var dt time.Duration
				switch r.Intn(5) {
				case 0:
					dt = time.Duration(r.I64n(int64(time.Hour)))
				case 1: // land exactly on / just before / just after some unlock end time
					l := pick(func(l *c06Lock) bool { return l.unlocking() && l.end.After(ch.Ctx.BlockTime()) })
					if l != nil {
						dt = l.end.Sub(ch.Ctx.BlockTime()) + time.Duration(r.Range(-1, 1))
					}
				case 2:
					dt = durPool[r.Intn(len(durPool))]
				default:
					dt = time.Duration(r.I64n(int64(3 * 24 * time.Hour)))
				}
				if forced != nil {
					dt = forced.dt
				}
				if dt < 0 {
					dt = 0
				}
				if unpayable >= 0 && ch.Height%120 == 0 {
					stuck := false
					for _, l := range m.locks {
						if l.owner == unpayable && l.unlocking() && !l.end.After(ch.Time) {
							stuck = true
						}
					}
					if stuck {
						c.Class("time|would-halt-on-unpayable-owner")
						return
					}
				}
				c.Logf("advance %s", dt)
				ch.NextBlock(dt)
				outcome = "advanced"
				// NextBlock executed one real block at the previous (height,time): a sweep may have run
				if (ch.Height-1)%120 == 0 {
					modelSweep(ch.Time.Add(-dt))
					outcome = "advanced+natural-sweep"
				}
			default:
				op = "sweep"
				c.Logf("sweep at %s", ch.Ctx.BlockTime())
				if realSweeps {
					// blocks run at successive times; each real block with height%120==0 sweeps at its own time
					for ch.Height%120 != 0 {
						ch.NextBlock(time.Second)
					}
					at := ch.Time
					ch.NextBlock(time.Second)
					n := modelSweep(at)
					outcome = fmt.Sprintf("real-swept%d", min(n, 3))
				} else {
					at := ch.Ctx.BlockTime()
					stuck := false
					for _, l := range m.locks {
						if l.owner == unpayable && l.unlocking() && !l.end.After(at) {
							stuck = true
						}
					}
					if stuck {
						// a matured lock whose owner cannot be paid: run the sweep on a branch
						h := (ch.Ctx.BlockHeight()/120 + 1) * 120
						cctx, write := ch.Ctx.CacheContext()
						rec, _ := vk.Guard(func() { lockup.EndBlocker(cctx.WithBlockHeight(h), *ch.App.LockupKeeper) })
						if rec != nil {
							c.Class("sweep|halts-on-unpayable-owner|live%d", bucket(len(m.locks)))
							return // the chain halts here on this code; nothing was written
						}
						write()
						modelSweep(at)
						outcome = "swept-with-unpayable-owner"
						// the sweep completed: every matured lock, the unpayable one included, must then really be paid out
					} else {
						sweep()
						n := modelSweep(at)
						outcome = fmt.Sprintf("swept%d", min(n, 3))
					}
				}
			}
			okc := false
			if rec, stack := vk.Guard(func() { okc = check(op) }); rec != nil {
				c.Violate("C06.query_panicked", sig(op), "after %s a lockup query panicked: %v\n%s", op, rec, trunc(stack, 1800))
				return
			}
			if !okc {
				return
			}
			nu := 0
			for _, l := range m.locks {
				if l.unlocking() {
					nu++
				}
			}
			c.Class("%s|%s|live%d|unl%d|%s", op, outcome, bucket(len(m.locks)), bucket(nu), mode)
		}
		if i < 2 {
			var fin []string
			for _, l := range m.sorted() {
				fin = append(fin, c06Render(l, owners))
			}
			if len(fin) > 6 {
				fin = fin[:6]
			}
			c.Sample(map[string]any{"ops": opsPer, "sweep_mode": mode, "durations": len(durPool), "final_locks_head": fin, "last_lock_id": m.lastID})
		}
	})
}

func bucket(n int) int {
	switch {
	case n == 0:
		return 0
	case n <= 2:
		return 2
	case n <= 8:
		return 8
	case n <= 32:
		return 32
	}
	return 99
}

func lockIDFrom(res chain.ExecResult) uint64 {
	if res.Res == nil {
		return 0
	}
	for _, mr := range res.Res.MsgResponses {
		if strings.Contains(mr.TypeUrl, "MsgLockTokensResponse") {
			var r lockuptypes.MsgLockTokensResponse
			if err := r.Unmarshal(mr.Value); err == nil {
				return r.ID
			}
		}
		if strings.Contains(mr.TypeUrl, "MsgLockAndSuperfluidDelegateResponse") {
			var r sftypes.MsgLockAndSuperfluidDelegateResponse
			if err := r.Unmarshal(mr.Value); err == nil {
				return r.ID
			}
		}
	}
	return 0
}
