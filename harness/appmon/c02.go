//go:build verif

package main

// C02 — classic pools and the swap router neither create nor lose funds.
// O-ledger per message + three equalities (pool balance = reported reserves + direct sends,
// share supply = reported shares, non-share supply constant) after every message.

import (
	"fmt"
	"time"

	sdkmath "cosmossdk.io/math"
	sdk "github.com/cosmos/cosmos-sdk/types"
	banktypes "github.com/cosmos/cosmos-sdk/x/bank/types"

	gammtypes "github.com/osmosis-labs/osmosis/v31/x/gamm/types"
	poolmanagertypes "github.com/osmosis-labs/osmosis/v31/x/poolmanager/types"
	"github.com/osmosis-labs/osmosis/v31/zzverif/vk"
)

func c02Check(c *vk.Ctx, w *gmWorld, op string, before map[string]sdk.Coins) bool {
	ctx := w.ch.Ctx
	sig := map[string]any{"op": op}
	c.Eval(1)
	for _, p := range w.classicPools() {
		liq, shares, err := w.reported(ctx, p)
		if err != nil {
			c.Violate("C02.pool_query", sig, "pool %d query failed: %v", p.id, err)
			return false
		}
		bal := w.ch.AllBal(ctx, p.addr)
		want := liq.Add(p.directSent...)
		// the pool account may only hold its own assets (and what was sent to it directly)
		if !bal.Equal(want) {
			s := map[string]any{"op": op, "pool_kind": p.kind}
			c.Violate("C02.pool_balance_vs_reserves", s, "after %s: pool %d (%s) account holds %s, the pool reports reserves %s plus %s sent to it directly", op, p.id, p.kind, bal, liq, p.directSent)
			return false
		}
		sup := w.ch.App.BankKeeper.GetSupply(ctx, p.shareDenom).Amount
		if !sup.Equal(shares) {
			s := map[string]any{"op": op, "pool_kind": p.kind}
			c.Violate("C02.share_supply", s, "after %s: supply of %s is %s, pool %d reports %s total shares", op, p.shareDenom, sup, p.id, shares)
			return false
		}
		// every share is held by somebody we know
		held := sdkmath.ZeroInt()
		for _, a := range w.tracked {
			held = held.Add(w.ch.BalOn(ctx, a, p.shareDenom))
		}
		if !held.Equal(sup) {
			c.Violate("C02.share_holders", sig, "after %s: %s of %s exist but the actors hold %s", op, sup, p.shareDenom, held)
			return false
		}
	}
	if s := w.nonShareSupply(); !s.Equal(w.supply0) {
		c.Violate("C02.token_supply_changed", sig, "after %s: total supply of the traded tokens changed from %s to %s", op, w.supply0, s)
		return false
	}
	// per-message ledger over every account that can legitimately take part
	if before != nil {
		after := w.balances(ctx)
		net := map[string]sdkmath.Int{}
		for addr, b := range before {
			a := after[addr]
			for _, d := range gmDenoms {
				x := a.AmountOf(d).Sub(b.AmountOf(d))
				if net[d].IsNil() {
					net[d] = sdkmath.ZeroInt()
				}
				net[d] = net[d].Add(x)
			}
		}
		for _, d := range gmDenoms {
			if !net[d].IsNil() && !net[d].IsZero() {
				c.Violate("C02.message_ledger", sig, "%s: the balances of all actors, pools and the taker-fee collector changed by a net %s%s (a unit paid by a trader is neither in a pool, nor with the collector, nor back with the trader)", op, net[d], d)
				return false
			}
		}
	}
	return true
}

func runC02(c *vk.Ctx) {
	c.R.Rule = "cases = histories over a zoo of 3-6 pools (balancer 2..8 assets with weights 1..2^20, stableswap 2..5 assets with scaling factors 1..1e6, a concentrated pool as router hop; spread factors 0..10%; random per-pair taker fees 0..5%, default taker fee and reduced-fee whitelist in a third of the histories) with 5 actors: JoinPool, JoinSwapExternAmountIn, JoinSwapShareAmountOut, ExitPool, ExitSwapShareAmountIn, ExitSwapExternAmountOut, single / multi-hop / split-route swaps exact-in and exact-out (pool-manager and legacy gamm messages), direct bank sends to pool accounts. After EVERY message (successful or rejected): pool account balance = reported reserves + direct sends, share supply = reported shares = Σ holders, supply of every traded token unchanged, and the per-message net balance change over all actors, pools and the taker-fee collector is zero per denom. distinct_nontrivial counts distinct (message type, pool kind, outcome, taker fee charged?, #hops) tuples."
	nHist := c.N(960, 9600)
	opsPer := c.N(40, 150)
	c.Cases("history", nHist, func(i int, r *vk.Rng) {
		w := newGMWorld(c, r)
		defer w.close()
		if !c02Check(c, w, "setup", nil) {
			return
		}
		for step := 0; step < opsPer; step++ {
			if r.Intn(10) == 0 {
				w.governance()
			}
			msg, op, kind, hops := w.randomMsg()
			if msg == nil {
				continue
			}
			before := w.balances(w.ch.Ctx)
			takerBefore := w.ch.AllBal(w.ch.Ctx, w.takerAcc)
			c.Logf("%s", trunc(gmDescribe(msg), 400))
			res := w.ch.Exec(msg)
			outcome := "ok"
			if !res.OK() {
				outcome = "rejected"
				c.Logf("  rejected: %s", trunc(res.ErrString(), 200))
			} else if ms, ok := msg.(*banktypes.MsgSend); ok {
				for _, p := range w.pools {
					if p.addr.String() == ms.ToAddress {
						p.directSent = p.directSent.Add(ms.Amount...)
					}
				}
			}
			if !c02Check(c, w, op, before) {
				return
			}
			tf := !w.ch.AllBal(w.ch.Ctx, w.takerAcc).Equal(takerBefore)
			c.Class("%s|%s|%s|taker%v|hops%d", op, kind, outcome, tf, hops)
			if r.Intn(12) == 0 {
				w.ch.NextBlock(time.Duration(5+r.Intn(40)) * time.Second)
			}
		}
		if i < 2 {
			var ps []string
			for _, p := range w.pools {
				ps = append(ps, fmt.Sprintf("%d:%s%v", p.id, p.kind, p.denoms))
			}
			c.Sample(map[string]any{"pools": ps, "ops": opsPer, "whitelisted_actor": w.whitelisted})
		}
	})
}

// randomMsg draws one message; returns (msg, op name, pool kind, hops).
func (w *gmWorld) randomMsg() (sdk.Msg, string, string, int) {
	r := w.r
	actor := w.actors[r.Intn(len(w.actors))]
	cl := w.classicPools()
	p := cl[r.Intn(len(cl))]
	ctx := w.ch.Ctx
	liq, shares, err := w.reported(ctx, p)
	if err != nil {
		return nil, "", "", 0
	}
	huge := sdkmath.NewIntWithDecimal(1, 60)
	switch r.Intn(13) {
	case 0: // all-asset join for a share amount
		sh := sdkmath.MaxInt(sdkmath.OneInt(), shares.QuoRaw(2+r.I64n(100000)))
		var maxs sdk.Coins
		for _, cn := range liq {
			maxs = maxs.Add(sdk.NewCoin(cn.Denom, huge))
		}
		return &gammtypes.MsgJoinPool{Sender: actor.Addr.String(), PoolId: p.id, ShareOutAmount: sh, TokenInMaxs: maxs}, "JoinPool", p.kind, 0
	case 1:
		d := p.denoms[r.Intn(len(p.denoms))]
		return &gammtypes.MsgJoinSwapExternAmountIn{Sender: actor.Addr.String(), PoolId: p.id, TokenIn: sdk.NewCoin(d, w.tradeAmount(p, d)), ShareOutMinAmount: sdkmath.OneInt()}, "JoinSwapExternAmountIn", p.kind, 0
	case 2:
		d := p.denoms[r.Intn(len(p.denoms))]
		sh := sdkmath.MaxInt(sdkmath.OneInt(), shares.QuoRaw(10+r.I64n(100000)))
		return &gammtypes.MsgJoinSwapShareAmountOut{Sender: actor.Addr.String(), PoolId: p.id, TokenInDenom: d, ShareOutAmount: sh, TokenInMaxAmount: huge}, "JoinSwapShareAmountOut", p.kind, 0
	case 3:
		have := w.ch.Bal(actor.Addr, p.shareDenom)
		if !have.IsPositive() {
			return nil, "", "", 0
		}
		sh := sdkmath.MaxInt(sdkmath.OneInt(), have.QuoRaw(1+r.I64n(20)))
		return &gammtypes.MsgExitPool{Sender: actor.Addr.String(), PoolId: p.id, ShareInAmount: sh, TokenOutMins: sdk.NewCoins()}, "ExitPool", p.kind, 0
	case 4:
		have := w.ch.Bal(actor.Addr, p.shareDenom)
		if !have.IsPositive() {
			return nil, "", "", 0
		}
		d := p.denoms[r.Intn(len(p.denoms))]
		sh := sdkmath.MaxInt(sdkmath.OneInt(), have.QuoRaw(2+r.I64n(50)))
		return &gammtypes.MsgExitSwapShareAmountIn{Sender: actor.Addr.String(), PoolId: p.id, TokenOutDenom: d, ShareInAmount: sh, TokenOutMinAmount: sdkmath.OneInt()}, "ExitSwapShareAmountIn", p.kind, 0
	case 5:
		d := p.denoms[r.Intn(len(p.denoms))]
		amt := sdkmath.MaxInt(sdkmath.OneInt(), liq.AmountOf(d).QuoRaw(100+r.I64n(100000)))
		return &gammtypes.MsgExitSwapExternAmountOut{Sender: actor.Addr.String(), PoolId: p.id, TokenOut: sdk.NewCoin(d, amt), ShareInMaxAmount: huge}, "ExitSwapExternAmountOut", p.kind, 0
	case 6, 7: // routed exact-in (pool manager)
		din, route, ps := w.randomRoute(4)
		if route == nil {
			return nil, "", "", 0
		}
		amt := w.tradeAmount(ps[0], din)
		kind := routeKind(ps)
		if r.Intn(4) == 0 {
			return &gammtypes.MsgSwapExactAmountIn{Sender: actor.Addr.String(), Routes: route, TokenIn: sdk.NewCoin(din, amt), TokenOutMinAmount: sdkmath.OneInt()}, "gamm.SwapExactAmountIn", kind, len(route)
		}
		return &poolmanagertypes.MsgSwapExactAmountIn{Sender: actor.Addr.String(), Routes: route, TokenIn: sdk.NewCoin(din, amt), TokenOutMinAmount: sdkmath.OneInt()}, "SwapExactAmountIn", kind, len(route)
	case 8, 9: // routed exact-out
		din, route, ps := w.randomRoute(4)
		if route == nil {
			return nil, "", "", 0
		}
		outRoute, dout := toOutRoute(din, route)
		last := ps[len(ps)-1]
		amt := sdkmath.MaxInt(sdkmath.OneInt(), w.ch.Bal(last.addr, dout).QuoRaw(20+r.I64n(100000)))
		kind := routeKind(ps)
		if r.Intn(4) == 0 {
			return &gammtypes.MsgSwapExactAmountOut{Sender: actor.Addr.String(), Routes: outRoute, TokenOut: sdk.NewCoin(dout, amt), TokenInMaxAmount: huge}, "gamm.SwapExactAmountOut", kind, len(route)
		}
		return &poolmanagertypes.MsgSwapExactAmountOut{Sender: actor.Addr.String(), Routes: outRoute, TokenOut: sdk.NewCoin(dout, amt), TokenInMaxAmount: huge}, "SwapExactAmountOut", kind, len(route)
	case 10: // split route exact-in: several routes from the same input denom to the same output denom
		din, route, ps := w.randomRoute(2)
		if route == nil {
			return nil, "", "", 0
		}
		dout := route[len(route)-1].TokenOutDenom
		legs := []poolmanagertypes.SwapAmountInSplitRoute{{Pools: route, TokenInAmount: w.tradeAmount(ps[0], din)}}
		if alt := w.poolWith(din, dout, map[uint64]bool{}); alt != nil {
			legs = append(legs, poolmanagertypes.SwapAmountInSplitRoute{Pools: []poolmanagertypes.SwapAmountInRoute{{PoolId: alt.id, TokenOutDenom: dout}}, TokenInAmount: w.tradeAmount(alt, din)})
		}
		return &poolmanagertypes.MsgSplitRouteSwapExactAmountIn{Sender: actor.Addr.String(), Routes: legs, TokenInDenom: din, TokenOutMinAmount: sdkmath.OneInt()}, "SplitRouteSwapExactAmountIn", routeKind(ps), len(legs)
	case 11: // split route exact-out
		din, route, ps := w.randomRoute(2)
		if route == nil {
			return nil, "", "", 0
		}
		outRoute, dout := toOutRoute(din, route)
		last := ps[len(ps)-1]
		legs := []poolmanagertypes.SwapAmountOutSplitRoute{{Pools: outRoute, TokenOutAmount: sdkmath.MaxInt(sdkmath.OneInt(), w.ch.Bal(last.addr, dout).QuoRaw(50+r.I64n(100000)))}}
		if alt := w.poolWith(din, dout, map[uint64]bool{}); alt != nil {
			legs = append(legs, poolmanagertypes.SwapAmountOutSplitRoute{Pools: []poolmanagertypes.SwapAmountOutRoute{{PoolId: alt.id, TokenInDenom: din}}, TokenOutAmount: sdkmath.MaxInt(sdkmath.OneInt(), w.ch.Bal(alt.addr, dout).QuoRaw(50+r.I64n(100000)))})
		}
		return &poolmanagertypes.MsgSplitRouteSwapExactAmountOut{Sender: actor.Addr.String(), Routes: legs, TokenOutDenom: dout, TokenInMaxAmount: huge}, "SplitRouteSwapExactAmountOut", routeKind(ps), len(legs)
	default: // somebody sends tokens straight to a pool account
		any := w.pools[r.Intn(len(w.pools))]
		d := any.denoms[r.Intn(len(any.denoms))]
		if any.kind == "cl" {
			return nil, "", "", 0
		}
		return &banktypes.MsgSend{FromAddress: actor.Addr.String(), ToAddress: any.addr.String(), Amount: sdk.NewCoins(sdk.NewCoin(d, sdkmath.NewInt(1+r.I64n(1000000))))}, "bank.Send-to-pool", any.kind, 0
	}
}

func routeKind(ps []*gmPool) string {
	k := ""
	for _, p := range ps {
		k += p.kind[:1]
	}
	return k
}
