//go:build verif

package main

// C09 — incentive gauges pay pro-rata, on schedule, and never more than they hold.
// Oracle: gauge book + per-epoch step oracle computed from the observed pre-epoch state.

import (
	sftypes "github.com/osmosis-labs/osmosis/v31/x/superfluid/types"
	gammtypes "github.com/osmosis-labs/osmosis/v31/x/gamm/types"
	clmodel "github.com/osmosis-labs/osmosis/v31/x/concentrated-liquidity/model"
	cltypes "github.com/osmosis-labs/osmosis/v31/x/concentrated-liquidity/types"
	"fmt"
	"math/big"
	"sort"
	"time"

	sdkmath "cosmossdk.io/math"
	sdk "github.com/cosmos/cosmos-sdk/types"
	authtypes "github.com/cosmos/cosmos-sdk/x/auth/types"

	"github.com/osmosis-labs/osmosis/osmomath"
	"github.com/osmosis-labs/osmosis/v31/x/gamm/pool-models/balancer"
	incentivestypes "github.com/osmosis-labs/osmosis/v31/x/incentives/types"
	lockuptypes "github.com/osmosis-labs/osmosis/v31/x/lockup/types"
	poolmanagertypes "github.com/osmosis-labs/osmosis/v31/x/poolmanager/types"
	"github.com/osmosis-labs/osmosis/v31/zzverif/chain"
	"github.com/osmosis-labs/osmosis/v31/zzverif/vk"
)

type c09Gauge struct {
	id        uint64
	deposited sdk.Coins
}

func runC09(c *vk.Ctx) {
	c.R.Rule = "cases = histories with 4 lock owners (several locks each with distinct durations and distinct reward receivers, 2 lock denoms), gauges perpetual / 1..6 epochs with start times past / now / up to 2 epochs ahead, reward denoms uosmo, a denom with a registered price route and the same denom after the route is removed, amounts 1..1e24 incl. <=100, minimum distribution value 1 / 1e4 / 1e9 uosmo; between epochs add-to-gauge, new locks, top-ups, begin-unlock, receiver changes; 3-12 epochs. Immediately before every epoch block the gauges and qualifying locks are read through the keepers' queries, the expected payment per receiver is computed in big.Int (floor of the pro-rata share of remaining/remaining-epochs, minimum-value and no-route filters), the real epoch block runs, and receiver balance deltas, gauge filled/distributed counters, active/finished status, Σ distributed <= Σ deposited and the module balance are compared. distinct_nontrivial counts distinct (#active lock gauges bucket, #qualifying locks bucket, any receiver != owner?, any skipped-by-minimum?, any gauge finishing?, any gauge without locks?) tuples per epoch."
	nHist := c.N(960, 12000)
	lockDenoms := []string{"lpa", "lpb"}
	c.Cases("history", nHist, func(i int, r *vk.Rng) {
		epochDur := time.Hour
		ch := chain.New(chain.Options{Denoms: []string{"lpa", "lpb", "rwd"}, NumAccounts: 8, Epochs: map[string]time.Duration{"week": epochDur, "day": 24 * time.Hour}})
		defer ch.Close()
		ch.NextBlock(5 * time.Second)
		owners := ch.Accs[:4]
		receivers := ch.Accs[4:7] // accounts that only ever receive rewards
		funder := ch.Accs[7]
		ik, lk := ch.App.IncentivesKeeper, ch.App.LockupKeeper
		modAddr := authtypes.NewModuleAddress(incentivestypes.ModuleName)
		// minimum value for distribution
		p := ik.GetParams(ch.Ctx)
		p.MinValueForDistribution = sdk.NewCoin("uosmo", sdkmath.NewInt([]int64{1, 10000, 1000000000}[r.Intn(3)]))
		ik.SetParams(ch.Ctx, p)
		durs := ik.GetLockableDurations(ch.Ctx)
		// a priced reward denom: balancer pool uosmo/rwd + protorev route
		rwdPrice := []int64{1, 3, 1000}[r.Intn(3)]
		rwdReserve := sdkmath.NewIntWithDecimal(1, 15).MulRaw(rwdPrice)
		if r.Intn(5) == 0 {
			// a precious reward denom: one uosmo buys a thousandth (or less) of one unit of it
			rwdPrice = 0
			rwdReserve = sdkmath.NewIntWithDecimal(1, 12-r.Intn(4))
		}
		msg := balancer.NewMsgCreateBalancerPool(funder.Addr, balancer.NewPoolParams(osmomath.ZeroDec(), osmomath.ZeroDec(), nil),
			[]balancer.PoolAsset{{Weight: sdkmath.NewInt(1), Token: sdk.NewCoin("uosmo", sdkmath.NewIntWithDecimal(1, 15))}, {Weight: sdkmath.NewInt(1), Token: sdk.NewCoin("rwd", rwdReserve)}}, "")
		if res := ch.Exec(&msg); !res.OK() {
			c.Violate("C09.setup", nil, "price pool: %s", res.ErrString())
			return
		}
		pricePool := ch.App.PoolManagerKeeper.GetNextPoolId(ch.Ctx) - 1
		ch.App.ProtoRevKeeper.SetPoolForDenomPair(ch.Ctx, "uosmo", "rwd", pricePool)
		routeOn := true

		// every third history also has a concentrated pool that receives external (no-lock) gauges; for those only the
		// conservation clauses are checked (what they pay goes to the pool's incentive records, not to locks)
		clPool := uint64(0)
		noLock := map[uint64]sdk.Coins{} // gauge id -> deposited
		if i%3 == 0 {
			cm := clmodel.NewMsgCreateConcentratedPool(funder.Addr, "rwd", "uosmo", 100, osmomath.MustNewDecFromStr("0.001"))
			if res := ch.Exec(&cm); res.OK() {
				clPool = ch.App.PoolManagerKeeper.GetNextPoolId(ch.Ctx) - 1
				ch.Exec(&cltypes.MsgCreatePosition{PoolId: clPool, Sender: funder.Addr.String(), LowerTick: cltypes.MinInitializedTick, UpperTick: cltypes.MaxTick,
					TokensProvided: sdk.NewCoins(sdk.NewCoin("rwd", sdkmath.NewIntWithDecimal(1, 12)), sdk.NewCoin("uosmo", sdkmath.NewIntWithDecimal(1, 12))), TokenMinAmount0: sdkmath.ZeroInt(), TokenMinAmount1: sdkmath.ZeroInt()})
			}
		}
		// every fourth history: the price pool's share denom is a superfluid asset, the funder holds a delegated lock and
		// non-perpetual gauges pay to the synthetic (staking marker) denom. For those gauges the pacing clauses are
		// checked: at most one paying epoch per epoch, at most the per-epoch share, never more than deposited.
		synth := map[uint64]sdk.Coins{} // gauge id -> deposited
		synthDenom := ""
		if i%4 == 1 {
			share := gammtypes.GetPoolShareDenom(pricePool)
			if err := ch.App.SuperfluidKeeper.AddNewSuperfluidAsset(ch.Ctx, sftypes.SuperfluidAsset{Denom: share, AssetType: sftypes.SuperfluidAssetTypeLPShare}); err == nil {
				have := ch.Bal(funder.Addr, share)
				res := ch.Exec(&sftypes.MsgLockAndSuperfluidDelegate{Sender: funder.Addr.String(), Coins: sdk.NewCoins(sdk.NewCoin(share, have.QuoRaw(3))), ValAddr: ch.Vals[0].OpAddr.String()})
				if res.OK() {
					synthDenom = share + "/superbonding/" + ch.Vals[0].OpAddr.String()
				} else {
					c.Logf("superfluid setup rejected: %s", trunc(res.ErrString(), 200))
				}
			}
		}
		gauges := map[uint64]*c09Gauge{}
		sigBase := func() map[string]any { return map[string]any{} }
		rewardDenoms := []string{"uosmo", "rwd"}
		everFinished := map[uint64]sdk.Coins{}

		// the block time at which the harness will run the next epoch block (so that a gauge can be given a
		// start time that coincides with it exactly)
		var plannedEpochTime time.Time
		planEpoch := func() {
			info := ch.App.EpochsKeeper.GetEpochInfo(ch.Ctx, "week")
			plannedEpochTime = info.CurrentEpochStartTime.Add(info.Duration).Add(time.Duration(1 + r.I64n(int64(10*time.Minute))))
		}
		planEpoch()
		doOps := func(n int) {
			for k := 0; k < n; k++ {
				oi := r.Intn(len(owners))
				o := owners[oi]
				opk := r.Intn(10)
				if clPool != 0 && r.Intn(8) == 0 {
					opk = 10
				}
				if synthDenom != "" && r.Intn(8) == 0 {
					opk = 11
				}
				if rwdPrice != 0 && r.Intn(10) == 0 {
					opk = 12
				}
				switch opk {
				case 12: // the price of the reward denom moves: what is worth the minimum changes from one epoch to the next
					din, dout := "uosmo", "rwd"
					if r.Bool() {
						din, dout = dout, din
					}
					amt := ch.Bal(poolmanagertypes.NewPoolAddress(pricePool), din).MulRaw(1 + r.I64n(30)).QuoRaw(10)
					res := ch.Exec(&poolmanagertypes.MsgSwapExactAmountIn{Sender: funder.Addr.String(), Routes: []poolmanagertypes.SwapAmountInRoute{{PoolId: pricePool, TokenOutDenom: dout}}, TokenIn: sdk.NewCoin(din, amt), TokenOutMinAmount: sdkmath.OneInt()})
					c.Logf("price move: swap %s%s -> %s on pool %d ok=%v %s", amt, din, dout, pricePool, res.OK(), trunc(res.ErrString(), 120))
					if res.OK() {
						c.Count("reward_price_moves", 1)
					}
				case 11: // a non-perpetual gauge on the superfluid staking-marker denom
					coins := sdk.NewCoins(sdk.NewCoin("uosmo", sdkmath.NewIntFromBigInt(r.BigMag(3, 18))))
					n := uint64(2 + r.Intn(5))
					stp, _ := ch.App.StakingKeeper.GetParams(ch.Ctx)
					gm := &incentivestypes.MsgCreateGauge{IsPerpetual: false, Owner: funder.Addr.String(), DistributeTo: lockuptypes.QueryCondition{LockQueryType: lockuptypes.ByDuration, Denom: synthDenom, Duration: stp.UnbondingTime}, Coins: coins, StartTime: ch.Ctx.BlockTime(), NumEpochsPaidOver: n}
					c.Logf("CreateGauge(on %s, %s, epochs %d)", synthDenom, coins, n)
					if res := ch.Exec(gm); res.OK() {
						synth[ik.GetLastGaugeID(ch.Ctx)] = coins
					} else {
						c.Logf("  rejected: %s", trunc(res.ErrString(), 160))
					}
				case 10: // an external gauge on the concentrated pool: one or two reward denoms, amounts from dust to large
					coins := sdk.NewCoins(sdk.NewCoin("uosmo", sdkmath.NewIntFromBigInt(r.BigMag(0, 18))))
					if r.Bool() {
						coins = coins.Add(sdk.NewCoin("rwd", sdkmath.NewIntFromBigInt(r.BigMag(0, 9))))
					}
					perp := r.Intn(4) == 0
					n := uint64(1 + r.Intn(6))
					if perp {
						n = 1
					}
					upt := []time.Duration{time.Nanosecond, time.Minute, time.Hour}[r.Intn(3)]
					gm := &incentivestypes.MsgCreateGauge{IsPerpetual: perp, Owner: funder.Addr.String(), DistributeTo: lockuptypes.QueryCondition{LockQueryType: lockuptypes.NoLock, Duration: upt}, Coins: coins, StartTime: ch.Ctx.BlockTime(), NumEpochsPaidOver: n, PoolId: clPool}
					c.Logf("CreateGauge(no-lock on pool %d, perpetual=%v, %s, uptime %s, epochs %d)", clPool, perp, coins, upt, n)
					if res := ch.Exec(gm); res.OK() {
						noLock[ik.GetLastGaugeID(ch.Ctx)] = coins
					} else {
						c.Logf("  rejected: %s", trunc(res.ErrString(), 160))
					}
				case 0, 1, 2: // lock / top up
					d := lockDenoms[r.Intn(2)]
					du := durs[r.Intn(len(durs))]
					amt := sdkmath.NewIntFromBigInt(r.BigMag(0, 22))
					c.Logf("LockTokens(owner %d, %s%s, %s)", oi, amt, d, du)
					ch.Exec(&lockuptypes.MsgLockTokens{Owner: o.Addr.String(), Duration: du, Coins: sdk.NewCoins(sdk.NewCoin(d, amt))})
				case 3: // reward receiver
					locks := lk.GetAccountPeriodLocks(ch.Ctx, o.Addr)
					if len(locks) == 0 {
						continue
					}
					l := locks[r.Intn(len(locks))]
					rc := receivers[r.Intn(len(receivers))].Addr
					if r.Intn(4) == 0 {
						rc = o.Addr
					}
					c.Logf("SetRewardReceiver(lock %d -> %s)", l.ID, rc)
					ch.Exec(&lockuptypes.MsgSetRewardReceiverAddress{Owner: o.Addr.String(), LockID: l.ID, RewardReceiver: rc.String()})
				case 4: // begin unlock (full or partial)
					locks := lk.GetAccountPeriodLocks(ch.Ctx, o.Addr)
					if len(locks) == 0 {
						continue
					}
					l := locks[r.Intn(len(locks))]
					var coins sdk.Coins
					if r.Bool() && l.Coins[0].Amount.GT(sdkmath.OneInt()) {
						coins = sdk.NewCoins(sdk.NewCoin(l.Coins[0].Denom, l.Coins[0].Amount.QuoRaw(2)))
					}
					c.Logf("BeginUnlocking(lock %d, %s)", l.ID, coins)
					ch.Exec(&lockuptypes.MsgBeginUnlocking{Owner: o.Addr.String(), ID: l.ID, Coins: coins})
				case 5, 6, 7: // create gauge
					perpetual := r.Intn(3) == 0
					n := uint64(1 + r.Intn(6))
					if perpetual {
						n = 1
					}
					var coins sdk.Coins
					for _, d := range rewardDenoms {
						if d == "rwd" && !routeOn {
							continue
						}
						if r.Bool() || d == "uosmo" {
							amt := sdkmath.NewIntFromBigInt(r.BigMag(0, 24))
							if r.Intn(6) == 0 {
								amt = sdkmath.NewInt(1 + r.I64n(100))
							}
							if r.Intn(3) != 0 {
								coins = coins.Add(sdk.NewCoin(d, amt))
							}
						}
					}
					if coins.Empty() {
						coins = sdk.NewCoins(sdk.NewCoin("uosmo", sdkmath.NewIntFromBigInt(r.BigMag(2, 20))))
					}
					start := ch.Ctx.BlockTime()
					switch r.Intn(4) {
					case 0:
						start = start.Add(-time.Duration(r.I64n(int64(epochDur))))
					case 1:
						start = start.Add(time.Duration(r.I64n(int64(2 * epochDur))))
					case 2:
						// exactly the block time of the coming epoch block: the gauge is active from that block on
						if plannedEpochTime.After(start) {
							start = plannedEpochTime
						}
					}
					du := durs[r.Intn(len(durs))]
					d := lockDenoms[r.Intn(2)]
					gm := &incentivestypes.MsgCreateGauge{IsPerpetual: perpetual, Owner: funder.Addr.String(), DistributeTo: lockuptypes.QueryCondition{LockQueryType: lockuptypes.ByDuration, Denom: d, Duration: du}, Coins: coins, StartTime: start, NumEpochsPaidOver: n}
					c.Logf("CreateGauge(perpetual=%v, %s, to %s>=%s, start %+ds, epochs %d)", perpetual, coins, d, du, int64(start.Sub(ch.Ctx.BlockTime()).Seconds()), n)
					last := ik.GetLastGaugeID(ch.Ctx)
					if res := ch.Exec(gm); res.OK() {
						id := ik.GetLastGaugeID(ch.Ctx)
						if id != last+1 {
							c.Violate("C09.gauge_id", sigBase(), "gauge id %d after %d", id, last)
							return
						}
						gauges[id] = &c09Gauge{id: id, deposited: coins}
					} else {
						c.Logf("  rejected: %s", trunc(res.ErrString(), 160))
					}
				case 8: // add to gauge
					if len(gauges) == 0 {
						continue
					}
					ids := make([]uint64, 0, len(gauges))
					for id := range gauges {
						ids = append(ids, id)
					}
					sort.Slice(ids, func(a, b int) bool { return ids[a] < ids[b] })
					id := ids[r.Intn(len(ids))]
					coins := sdk.NewCoins(sdk.NewCoin("uosmo", sdkmath.NewIntFromBigInt(r.BigMag(0, 22))))
					c.Logf("AddToGauge(%d, %s)", id, coins)
					if res := ch.Exec(&incentivestypes.MsgAddToGauge{Owner: funder.Addr.String(), GaugeId: id, Rewards: coins}); res.OK() {
						gauges[id].deposited = gauges[id].deposited.Add(coins...)
					} else {
						c.Logf("  rejected: %s", trunc(res.ErrString(), 160))
					}
				case 9: // toggle the price route of rwd ("not valuable at all")
					if routeOn {
						ch.App.ProtoRevKeeper.DeleteAllPoolsForBaseDenom(ch.Ctx, "uosmo")
						routeOn = false
					} else {
						ch.App.ProtoRevKeeper.SetPoolForDenomPair(ch.Ctx, "uosmo", "rwd", pricePool)
						routeOn = true
					}
					c.Logf("price route for rwd: %v", routeOn)
				}
			}
		}

		nEpochs := 3 + r.Intn(10)
		doOps(6 + r.Intn(10))
		for ep := 0; ep < nEpochs; ep++ {
			// move to a block time past the epoch end; the epoch fires in the BeginBlock of the NEXT block we run
			info := ch.App.EpochsKeeper.GetEpochInfo(ch.Ctx, "week")
			end := info.CurrentEpochStartTime.Add(info.Duration)
			dt := plannedEpochTime.Sub(ch.Ctx.BlockTime())
			if dt <= 0 || !plannedEpochTime.After(end) {
				dt = end.Sub(ch.Ctx.BlockTime()) + time.Duration(1+r.I64n(int64(10*time.Minute)))
			}
			if dt < 0 {
				dt = time.Second
			}
			ch.NextBlock(dt)
			ctx := ch.Ctx
			now := ctx.BlockTime()
			c.Eval(1)
			// ---- pre-epoch snapshot through the queries
			type exp struct {
				filled      uint64
				distributed sdk.Coins
				finished    bool
				pays        bool
			}
			expected := map[uint64]*exp{}
			pay := map[string]sdk.Coins{}
			spamByGauge := map[uint64]sdk.Coins{}
			minVal := ik.GetParams(ctx).MinValueForDistribution
			var nLockGauges, nQual int
			anyOtherReceiver, anySkippedMin, anyFinishing, anyNoLocks, anySpamRule, anyPrecious := false, false, false, false, false, false
			cand := append(ik.GetActiveGauges(ctx), ik.GetUpcomingGauges(ctx)...)
			sort.Slice(cand, func(a, b int) bool { return cand[a].Id < cand[b].Id })
			for _, g := range cand {
				if gauges[g.Id] == nil {
					continue // gauges created by pool creation etc.
				}
				if now.Before(g.StartTime) {
					expected[g.Id] = &exp{filled: g.FilledEpochs, distributed: g.DistributedCoins}
					continue
				}
				nLockGauges++
				if now.Equal(g.StartTime) {
					c.Count("gauges_starting_exactly_at_the_epoch_block", 1)
				}
				locks := lk.GetLocksLongerThanDurationDenom(ctx, g.DistributeTo.Denom, g.DistributeTo.Duration)
				nQual += len(locks)
				remain := g.Coins.Sub(g.DistributedCoins...)
				remEpochs := int64(1)
				if !g.IsPerpetual {
					remEpochs = int64(g.NumEpochsPaidOver - g.FilledEpochs)
				}
				e := &exp{filled: g.FilledEpochs, distributed: g.DistributedCoins}
				expected[g.Id] = e
				if remEpochs <= 0 {
					continue
				}
				if len(locks) == 0 {
					anyNoLocks = true
					// nobody qualifies: nothing is paid and no paying epoch is consumed
					continue
				}
				e.filled++
				e.pays = true
				if !g.IsPerpetual && e.filled >= g.NumEpochsPaidOver {
					e.finished = true
					anyFinishing = true
				}
				if remain.Empty() {
					continue
				}
				spamRule := remain.Len() == 1 && remain[0].Amount.LTE(sdkmath.NewInt(100)) && remain[0].Denom != "stake"
				lockSum := new(big.Int)
				for _, l := range locks {
					lockSum.Add(lockSum, l.Coins.AmountOf(g.DistributeTo.Denom).BigInt())
				}
				if lockSum.Sign() == 0 {
					e.filled--
					e.pays = false
					e.finished = false
					continue
				}
				den := new(big.Int).Mul(lockSum, big.NewInt(remEpochs))
				total := sdk.NewCoins()
				for _, l := range locks {
					rcv := l.RewardReceiverAddress
					if rcv == "" {
						rcv = l.Owner
					} else if rcv != l.Owner {
						anyOtherReceiver = true
					}
					for _, coin := range remain {
						amt := new(big.Int).Mul(l.Coins.AmountOf(g.DistributeTo.Denom).BigInt(), coin.Amount.BigInt())
						amt.Quo(amt, den)
						if amt.Sign() <= 0 {
							continue
						}
						// skipped when worth less than the configured minimum, or not valuable at all
						if coin.Denom == minVal.Denom {
							if amt.Cmp(minVal.Amount.BigInt()) < 0 {
								anySkippedMin = true
								continue
							}
						} else {
							pid, err := ch.App.ProtoRevKeeper.GetPoolForDenomPairNoOrder(ctx, minVal.Denom, coin.Denom)
							if err != nil {
								anySkippedMin = true
								continue
							}
							sm, pl, err := ch.App.PoolManagerKeeper.GetPoolModuleAndPool(ctx, pid)
							if err != nil {
								continue
							}
							need, err := sm.CalcOutAmtGivenIn(ctx, pl, minVal, coin.Denom, osmomath.ZeroDec())
							if err != nil {
								// the minimum value buys less than one unit of this denom: every whole unit of it is
								// worth more than the minimum, so nothing is skipped on value grounds
								anyPrecious = true
							} else if amt.Cmp(need.Amount.BigInt()) < 0 {
								anySkippedMin = true
								continue
							}
						}
						cn := sdk.NewCoin(coin.Denom, sdkmath.NewIntFromBigInt(amt))
						if spamRule {
							anySpamRule = true
							// remembered separately: the code skips a single-denom remainder <= 100 units regardless of
							// its value, which the statement's "skipping only amounts worth less than the minimum" does not cover
							pay["spam:"+rcv] = pay["spam:"+rcv].Add(cn)
							spamByGauge[g.Id] = spamByGauge[g.Id].Add(cn)
						}
						pay[rcv] = pay[rcv].Add(cn)
						total = total.Add(cn)
					}
				}
				e.distributed = e.distributed.Add(total...)
			}
			// balances of everybody who may receive
			watch := map[string]sdk.AccAddress{}
			for _, a := range ch.Accs {
				if synthDenom != "" && a.Addr.Equals(funder.Addr) {
					continue // the funder's delegated lock is paid by the synthetic-denom gauges, which are checked by themselves
				}
				watch[a.Addr.String()] = a.Addr
			}
			before := map[string]sdk.Coins{}
			for s, a := range watch {
				before[s] = ch.AllBal(ctx, a)
			}
			synthBefore := map[uint64]incentivestypes.Gauge{}
			for id := range synth {
				if g, err := ik.GetGaugeByID(ctx, id); err == nil {
					synthBefore[id] = *g
				}
			}
			finishedBefore := map[uint64]sdk.Coins{}
			for _, g := range ik.GetFinishedGauges(ctx) {
				finishedBefore[g.Id] = g.DistributedCoins
			}
			willTick := info.EpochCountingStarted && now.After(end)
			// ---- the real epoch block
			ch.NextBlock(time.Second)
			ctx = ch.Ctx
			info2 := ch.App.EpochsKeeper.GetEpochInfo(ctx, "week")
			if (info2.CurrentEpoch == info.CurrentEpoch+1) != willTick {
				c.Violate("C09.epoch_tick", sigBase(), "distribution epoch went from %d to %d at block time %s (epoch end %s)", info.CurrentEpoch, info2.CurrentEpoch, now, end)
				return
			}
			if !willTick {
				continue
			}
			sig := func(check string) map[string]any { return map[string]any{} }
			// ---- compare payments
			for s, a := range watch {
				delta := ch.AllBal(ctx, a).Sub(before[s]...)
				want := pay[s]
				for _, d := range rewardDenoms {
					got := delta.AmountOf(d)
					if !got.Equal(want.AmountOf(d)) {
						sg := sig("payment")
						spam := pay["spam:"+s].AmountOf(d)
						explained := spam.IsPositive() && got.Add(spam).Equal(want.AmountOf(d))
						sg["remainder_single_denom_le_100"] = explained
						c.Violate("C09.per_epoch_payment", sg, "epoch %d: account %s received %s%s from the gauges, the pro-rata floor shares of the qualifying locks whose rewards it receives sum to %s (skipped by the <=100-units rule: %s)", info.CurrentEpoch, s, got, d, want.AmountOf(d), spam)
						if !explained {
							return
						}
						// a recorded finding: keep monitoring the rest of the history
					}
				}
			}
			// ---- gauge counters, status
			act := map[uint64]incentivestypes.Gauge{}
			for _, g := range ik.GetActiveGauges(ctx) {
				act[g.Id] = g
			}
			fin := map[uint64]incentivestypes.Gauge{}
			for _, g := range ik.GetFinishedGauges(ctx) {
				fin[g.Id] = g
			}
			need := sdk.NewCoins()
			for id, e := range expected {
				g, err := ik.GetGaugeByID(ctx, id)
				if err != nil {
					c.Violate("C09.gauge_query", sigBase(), "gauge %d: %v", id, err)
					return
				}
				sg := sig("gauge")
				sg["paid_this_epoch"] = e.pays
				if g.FilledEpochs == e.filled && !spamByGauge[id].IsZero() && g.DistributedCoins.Add(spamByGauge[id]...).Equal(e.distributed) {
					// the whole mismatch is the <=100-units rule (reported with the payment check)
					e.distributed = g.DistributedCoins
				}
				if g.FilledEpochs != e.filled || !g.DistributedCoins.Equal(e.distributed) {
					c.Violate("C09.gauge_counters", sg, "epoch %d: gauge %d has filled=%d distributed=%s, expected filled=%d distributed=%s", info.CurrentEpoch, id, g.FilledEpochs, g.DistributedCoins, e.filled, e.distributed)
					return
				}
				_, isFin := fin[id]
				if isFin != e.finished {
					c.Violate("C09.finish_schedule", sg, "epoch %d: gauge %d (perpetual=%v, %d paying epochs, filled %d, coins %s, distributed %s) finished=%v, expected finished=%v", info.CurrentEpoch, id, g.IsPerpetual, g.NumEpochsPaidOver, g.FilledEpochs, g.Coins, g.DistributedCoins, isFin, e.finished)
					return
				}
				if !g.Coins.IsAllGTE(g.DistributedCoins) || !gauges[id].deposited.Equal(g.Coins) {
					c.Violate("C09.overpaid", sg, "gauge %d: deposited %s, recorded coins %s, distributed %s", id, gauges[id].deposited, g.Coins, g.DistributedCoins)
					return
				}
				if !isFin {
					need = need.Add(g.Coins.Sub(g.DistributedCoins...)...)
				}
			}
			syIDs := make([]uint64, 0, len(synth))
			for id := range synth {
				syIDs = append(syIDs, id)
			}
			sort.Slice(syIDs, func(a, b int) bool { return syIDs[a] < syIDs[b] })
			for _, id := range syIDs {
				g, err := ik.GetGaugeByID(ctx, id)
				b, okb := synthBefore[id]
				if err != nil || !okb {
					continue
				}
				sg := map[string]any{"synthetic_denom": true}
				if !g.Coins.IsAllGTE(g.DistributedCoins) || !synth[id].Equal(g.Coins) {
					c.Violate("C09.overpaid", sg, "gauge %d on %s: deposited %s, recorded coins %s, distributed %s", id, synthDenom, synth[id], g.Coins, g.DistributedCoins)
					return
				}
				if g.FilledEpochs > b.FilledEpochs+1 || g.FilledEpochs > g.NumEpochsPaidOver {
					c.Violate("C09.gauge_counters", sg, "epoch %d: gauge %d on %s went from %d to %d paying epochs in one epoch (created for %d)", info.CurrentEpoch, id, synthDenom, b.FilledEpochs, g.FilledEpochs, g.NumEpochsPaidOver)
					return
				}
				if rem := b.NumEpochsPaidOver - b.FilledEpochs; rem > 0 {
					for _, cn := range b.Coins.Sub(b.DistributedCoins...) {
						share := cn.Amount.QuoRaw(int64(rem))
						paid := g.DistributedCoins.AmountOf(cn.Denom).Sub(b.DistributedCoins.AmountOf(cn.Denom))
						if paid.GT(share) {
							c.Violate("C09.per_epoch_payment", sg, "epoch %d: gauge %d on %s paid %s%s in one epoch, its per-epoch share (remaining %s over %d epochs) is %s", info.CurrentEpoch, id, synthDenom, paid, cn.Denom, cn.Amount, rem, share)
							return
						}
					}
				}
				if _, isFin := fin[id]; !isFin {
					need = need.Add(g.Coins.Sub(g.DistributedCoins...)...)
				}
				c.Class("synthetic-gauge|filled%d|paid%v", bucket(int(g.FilledEpochs)), g.FilledEpochs > b.FilledEpochs)
			}
			nlIDs := make([]uint64, 0, len(noLock))
			for id := range noLock {
				nlIDs = append(nlIDs, id)
			}
			sort.Slice(nlIDs, func(a, b int) bool { return nlIDs[a] < nlIDs[b] })
			for _, id := range nlIDs {
				g, err := ik.GetGaugeByID(ctx, id)
				if err != nil {
					c.Violate("C09.gauge_query", sigBase(), "no-lock gauge %d: %v", id, err)
					return
				}
				sg := map[string]any{"no_lock": true}
				if !g.Coins.IsAllGTE(g.DistributedCoins) || !noLock[id].Equal(g.Coins) {
					c.Violate("C09.overpaid", sg, "no-lock gauge %d: deposited %s, recorded coins %s, distributed %s", id, noLock[id], g.Coins, g.DistributedCoins)
					return
				}
				if !g.IsPerpetual && g.FilledEpochs > g.NumEpochsPaidOver {
					c.Violate("C09.finish_schedule", sg, "no-lock gauge %d has paid in %d epochs, it was created for %d", id, g.FilledEpochs, g.NumEpochsPaidOver)
					return
				}
				if _, isFin := fin[id]; !isFin {
					need = need.Add(g.Coins.Sub(g.DistributedCoins...)...)
				}
				c.Class("no-lock-gauge|filled%d|perpetual%v", bucket(int(g.FilledEpochs)), g.IsPerpetual)
			}
			for id, d := range finishedBefore {
				if g, ok := fin[id]; ok && !g.DistributedCoins.Equal(d) {
					c.Violate("C09.finished_gauge_paid", sigBase(), "finished gauge %d distributed %s more", id, g.DistributedCoins.Sub(d...))
					return
				}
			}
			_ = everFinished
			if bal := ch.AllBal(ctx, modAddr); !bal.IsAllGTE(need) {
				c.Violate("C09.module_balance", sigBase(), "epoch %d: incentives module holds %s, undistributed remainder of unfinished gauges is %s", info.CurrentEpoch, bal, need)
				return
			}
			c.Class("g%d|locks%d|otherRcv%v|skipMin%v|finishing%v|noLocks%v|spam%v|precious%v", bucket(nLockGauges), bucket(nQual), anyOtherReceiver, anySkippedMin, anyFinishing, anyNoLocks, anySpamRule, anyPrecious)
			planEpoch()
			doOps(2 + r.Intn(8))
		}
		if i < 2 {
			c.Sample(map[string]any{"epochs": nEpochs, "gauges_created": len(gauges), "min_value": p.MinValueForDistribution.String(), "rwd_per_uosmo": rwdPrice})
		}
	})
}

var _ = chain.Bond
var _ = fmt.Sprint
