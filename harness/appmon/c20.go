//go:build verif

package main

// C20 — only the owner or admin can move or alter what they own.
// Authorization matrix driven over generated histories: for every owned object (concentrated
// position, lock in each of its states, factory denom) and every message type acting on it,
// the message is first shown to be valid by executing it for the rightful sender on a
// discarded fork, then executed for every other sender kind on further forks: it must fail
// and leave the fork's state digest untouched.

import (
	"fmt"
	"sort"
	"strings"
	"time"

	sdkmath "cosmossdk.io/math"
	sdk "github.com/cosmos/cosmos-sdk/types"
	authtypes "github.com/cosmos/cosmos-sdk/x/auth/types"
	banktypes "github.com/cosmos/cosmos-sdk/x/bank/types"
	distrtypes "github.com/cosmos/cosmos-sdk/x/distribution/types"

	"github.com/osmosis-labs/osmosis/osmomath"
	clmodel "github.com/osmosis-labs/osmosis/v31/x/concentrated-liquidity/model"
	cltypes "github.com/osmosis-labs/osmosis/v31/x/concentrated-liquidity/types"
	"github.com/osmosis-labs/osmosis/v31/x/gamm/pool-models/balancer"
	gammtypes "github.com/osmosis-labs/osmosis/v31/x/gamm/types"
	lockuptypes "github.com/osmosis-labs/osmosis/v31/x/lockup/types"
	sftypes "github.com/osmosis-labs/osmosis/v31/x/superfluid/types"
	tftypes "github.com/osmosis-labs/osmosis/v31/x/tokenfactory/types"
	"github.com/osmosis-labs/osmosis/v31/zzverif/chain"
	"github.com/osmosis-labs/osmosis/v31/zzverif/vk"
)

type c20Pos struct {
	id    uint64
	owner int   // index into users
	prev  []int // previous owners
	sf    bool  // superfluid-delegated full-range position
}

type c20Lock struct {
	id       uint64
	owner    int
	denom    string
	state    string // plain | unlocking | sf-delegated | sf-undelegating
	receiver int    // reward receiver (-1 none)
}

type c20Denom struct {
	denom   string
	creator int
	admin   int // -1 = renounced
	emptyAdmin bool // renounced with an empty admin string in the store
	prev    []int
}

type c20Sender struct {
	kind string
	addr sdk.AccAddress
}

type c20World struct {
	c      *vk.Ctx
	ch     *chain.Chain
	r      *vk.Rng
	users  []chain.Account
	forceAllowed map[string]bool
	lp     chain.Account
	balID  uint64
	clID   uint64
	share  string
	pos    map[uint64]*c20Pos
	locks  map[uint64]*c20Lock
	denoms map[string]*c20Denom
	stop   bool
}

var c20Modules = []string{"lockup", "gamm", "concentratedliquidity", "tokenfactory", "superfluid", "incentives", "bonded_tokens_pool", "distribution", "mint", "poolmanager", "txfees"}

func coin(d string, n int64) sdk.Coin { return sdk.NewCoin(d, sdkmath.NewInt(n)) }

func (w *c20World) setSender(msg sdk.Msg, s string) sdk.Msg {
	switch m := msg.(type) {
	case *cltypes.MsgWithdrawPosition:
		x := *m
		x.Sender = s
		return &x
	case *cltypes.MsgAddToPosition:
		x := *m
		x.Sender = s
		return &x
	case *cltypes.MsgCollectSpreadRewards:
		x := *m
		x.Sender = s
		return &x
	case *cltypes.MsgCollectIncentives:
		x := *m
		x.Sender = s
		return &x
	case *cltypes.MsgTransferPositions:
		x := *m
		x.Sender = s
		return &x
	case *lockuptypes.MsgBeginUnlocking:
		x := *m
		x.Owner = s
		return &x
	case *lockuptypes.MsgExtendLockup:
		x := *m
		x.Owner = s
		return &x
	case *lockuptypes.MsgSetRewardReceiverAddress:
		x := *m
		x.Owner = s
		return &x
	case *lockuptypes.MsgForceUnlock:
		x := *m
		x.Owner = s
		return &x
	case *sftypes.MsgSuperfluidDelegate:
		x := *m
		x.Sender = s
		return &x
	case *sftypes.MsgSuperfluidUndelegate:
		x := *m
		x.Sender = s
		return &x
	case *sftypes.MsgSuperfluidUnbondLock:
		x := *m
		x.Sender = s
		return &x
	case *sftypes.MsgSuperfluidUndelegateAndUnbondLock:
		x := *m
		x.Sender = s
		return &x
	case *sftypes.MsgUnbondConvertAndStake:
		x := *m
		x.Sender = s
		return &x
	case *sftypes.MsgAddToConcentratedLiquiditySuperfluidPosition:
		x := *m
		x.Sender = s
		return &x
	case *sftypes.MsgUnlockAndMigrateSharesToFullRangeConcentratedPosition:
		x := *m
		x.Sender = s
		return &x
	case *tftypes.MsgMint:
		x := *m
		x.Sender = s
		return &x
	case *tftypes.MsgBurn:
		x := *m
		x.Sender = s
		return &x
	case *tftypes.MsgForceTransfer:
		x := *m
		x.Sender = s
		return &x
	case *tftypes.MsgChangeAdmin:
		x := *m
		x.Sender = s
		return &x
	case *tftypes.MsgSetDenomMetadata:
		x := *m
		x.Sender = s
		return &x
	case *tftypes.MsgSetBeforeSendHook:
		x := *m
		x.Sender = s
		return &x
	}
	panic(fmt.Sprintf("setSender: %T", msg))
}

func msgName(m sdk.Msg) string {
	s := fmt.Sprintf("%T", m)
	return s[strings.LastIndex(s, ".")+1:]
}

// wrongSenders lists every sender kind that is not `right` (nil = nobody is entitled).
func (w *c20World) wrongSenders(right sdk.AccAddress, prev []int, extra []c20Sender) []c20Sender {
	var out []c20Sender
	seen := map[string]bool{}
	if right != nil {
		seen[right.String()] = true
	}
	add := func(kind string, a sdk.AccAddress) {
		if a == nil || seen[a.String()] {
			return
		}
		seen[a.String()] = true
		out = append(out, c20Sender{kind, a})
	}
	for _, p := range prev {
		add("previous-owner", w.users[p].Addr)
	}
	for _, e := range extra {
		add(e.kind, e.addr)
	}
	for _, u := range w.users {
		add("other-user", u.Addr)
	}
	add("other-user", w.lp.Addr)
	if p, err := w.ch.App.ConcentratedLiquidityKeeper.GetConcentratedPoolById(w.ch.Ctx, w.clID); err == nil {
		add("pool-address", p.GetAddress())
		add("pool-address", p.GetIncentivesAddress())
		add("pool-address", p.GetSpreadRewardsAddress())
	}
	if p, err := w.ch.App.GAMMKeeper.GetPoolAndPoke(w.ch.Ctx, w.balID); err == nil {
		add("pool-address", p.GetAddress())
	}
	for _, m := range c20Modules {
		add("module-account", authtypes.NewModuleAddress(m))
	}
	add("validator-owner", w.ch.Vals[0].Owner.Addr)
	return out
}

// probe runs msg for the rightful sender (validity) and for every wrong sender; returns false to stop the history.
func (w *c20World) probe(objKind, objState string, msg sdk.Msg, right sdk.AccAddress, prev []int, extra []c20Sender) {
	c, ch := w.c, w.ch
	name := msgName(msg)
	valid := "nobody-entitled"
	if right != nil {
		res := ch.ExecOn(ch.Fork(), w.setSender(msg, right.String()))
		if res.OK() {
			valid = "valid-for-owner"
		} else {
			valid = "invalid-for-owner"
			c.Count("owner_rejected/"+name, 1)
		}
	}
	wrong := w.wrongSenders(right, prev, extra)
	// all previous owners and extras, plus a seed-chosen sample of the rest
	var pick []c20Sender
	for _, s := range wrong {
		if s.kind == "previous-owner" || s.kind == "other-user" && len(pick) < 3 || w.r.Intn(3) == 0 || s.kind != "other-user" && s.kind != "module-account" && s.kind != "pool-address" {
			pick = append(pick, s)
		}
	}
	var base [32]byte
	haveBase := false
	for _, s := range pick {
		c.Eval(1)
		fork := ch.Fork()
		m := w.setSender(msg, s.addr.String())
		res := ch.ExecOn(fork, m)
		c.Logf("probe %s on %s(%s) as %s %s -> %s", name, objKind, objState, s.kind, s.addr, res.ErrString())
		if res.OK() {
			sig := map[string]any{"msg": name, "sender_kind": s.kind, "object": objKind, "state": objState}
			c.Violate("C20.unauthorized_success", sig, "%s acting on a %s (%s) succeeded for sender %s (%s), who is neither its owner nor its admin (rightful sender: %v)\nmessage: %s", name, objKind, objState, s.addr, s.kind, right, m.String())
			w.stop = true
			return
		}
		if w.r.Intn(6) == 0 {
			if !haveBase {
				base, haveBase = ch.Digest(ch.Ctx), true
			}
			if d := ch.Digest(fork); d != base {
				c.Violate("C20.rejected_changed_state", map[string]any{"msg": name, "sender_kind": s.kind}, "%s from %s (%s) was rejected (%s) but the state digest changed", name, s.addr, s.kind, res.ErrString())
				w.stop = true
				return
			}
		}
		if valid == "valid-for-owner" || valid == "nobody-entitled" {
			c.Class("%s|%s|%s|%s|%s", name, objKind, objState, s.kind, valid)
		}
	}
}

func (w *c20World) must(msg sdk.Msg) chain.ExecResult {
	res := w.ch.Exec(msg)
	w.c.Logf("%s -> %s", msgName(msg), res.ErrString())
	return res
}

func runC20(c *vk.Ctx) {
	c.R.Rule = "cases = histories on a real app with 4 users, an LP, a balancer pool and a concentrated pool whose share denoms are superfluid assets. World operations create and evolve owned objects (concentrated positions incl. superfluid full-range ones, position transfers, locks that are plain / unlocking / superfluid-delegated / undelegating with reward receivers, factory denoms with admin changes and renounced admins, factory tokens locked in x/lockup and held by pools). Probes: for an object and each message type acting on it (5 concentrated-liquidity, 4 lockup, 7 superfluid, 6 token-factory message types) the message is executed for the rightful sender on a discarded fork (validity), then for every other sender kind (other users, previous owners/admins/creators, reward receiver, pool addresses, 11 module accounts, validator owner, intermediary account) on further forks: it must fail, and the fork digest over all stores must be unchanged. Admin probes on protected module accounts (named in lower- or upper-case bech32): mint-to, burn-from, force-transfer-from/to. Re-creation of an existing denom by its creator (whatever became of the admin) must fail. distinct_nontrivial counts distinct (message type, object kind, object state, sender kind) tuples among probes whose message was valid for the rightful sender (or for which nobody is entitled)."
	nHist := c.N(960, 24000)
	opsPer := c.N(60, 100)
	c.Cases("history", nHist, func(i int, r *vk.Rng) {
		ch := chain.New(chain.Options{Denoms: []string{"xxx"}, NumAccounts: 6, NumValidators: 2, Epochs: map[string]time.Duration{"day": 5 * time.Hour, "week": 6 * time.Hour}})
		defer ch.Close()
		ch.NextBlock(5 * time.Second)
		// users[0..3] act; users[4] (the LP) only owns the first full-range position
		w := &c20World{c: c, ch: ch, r: r, users: ch.Accs[:5], lp: ch.Accs[4], pos: map[uint64]*c20Pos{}, locks: map[uint64]*c20Lock{}, denoms: map[string]*c20Denom{}, forceAllowed: map[string]bool{}}
		sk := ch.App.SuperfluidKeeper
		bm := balancer.NewMsgCreateBalancerPool(w.lp.Addr, balancer.NewPoolParams(osmomath.MustNewDecFromStr("0.003"), osmomath.ZeroDec(), nil),
			[]balancer.PoolAsset{{Weight: sdkmath.NewInt(1), Token: coin("uosmo", 1_000_000_000_000)}, {Weight: sdkmath.NewInt(1), Token: coin("xxx", 2_000_000_000_000)}}, "")
		if res := ch.Exec(&bm); !res.OK() {
			c.Violate("C20.setup", nil, "pool: %s", res.ErrString())
			return
		}
		// every other history: governance has put three of the four users on the force-unlock allow list (such an
		// address may force-unlock its OWN locks, nobody else's)
		if i%2 == 1 {
			lp := ch.App.LockupKeeper.GetParams(ch.Ctx)
			for _, u := range w.users[:3] {
				lp.ForceUnlockAllowedAddresses = append(lp.ForceUnlockAllowedAddresses, u.Addr.String())
				w.forceAllowed[u.Addr.String()] = true
			}
			ch.App.LockupKeeper.SetParams(ch.Ctx, lp)
		}
		w.balID = ch.App.PoolManagerKeeper.GetNextPoolId(ch.Ctx) - 1
		w.share = gammtypes.GetPoolShareDenom(w.balID)
		sk.AddNewSuperfluidAsset(ch.Ctx, sftypes.SuperfluidAsset{Denom: w.share, AssetType: sftypes.SuperfluidAssetTypeLPShare})
		cm := clmodel.NewMsgCreateConcentratedPool(w.lp.Addr, "uosmo", "xxx", 100, osmomath.MustNewDecFromStr("0.001"))
		if res := ch.Exec(&cm); !res.OK() {
			c.Violate("C20.setup", nil, "cl pool: %s", res.ErrString())
			return
		}
		w.clID = ch.App.PoolManagerKeeper.GetNextPoolId(ch.Ctx) - 1
		ch.Exec(&cltypes.MsgCreatePosition{PoolId: w.clID, Sender: w.lp.Addr.String(), LowerTick: cltypes.MinInitializedTick, UpperTick: cltypes.MaxTick, TokensProvided: sdk.NewCoins(coin("uosmo", 1_000_000_000_000), coin("xxx", 2_000_000_000_000)), TokenMinAmount0: sdkmath.ZeroInt(), TokenMinAmount1: sdkmath.ZeroInt()})
		sk.AddNewSuperfluidAsset(ch.Ctx, sftypes.SuperfluidAsset{Denom: cltypes.GetConcentratedLockupDenomFromPoolId(w.clID), AssetType: sftypes.SuperfluidAssetTypeConcentratedShare})
		if ps, _ := ch.App.ConcentratedLiquidityKeeper.GetUserPositions(ch.Ctx, w.lp.Addr, w.clID); len(ps) == 1 {
			w.pos[ps[0].PositionId] = &c20Pos{id: ps[0].PositionId, owner: 4}
		}
		// enough positions for ids that are decimal prefixes of one another (1 / 10..19, 2 / 20..29) to exist
		for k := 0; k < 10+r.Intn(14); k++ {
			u := k % 4
			if res := ch.Exec(&cltypes.MsgCreatePosition{PoolId: w.clID, Sender: w.users[u].Addr.String(), LowerTick: -100 * int64(1+r.Intn(40)), UpperTick: 100 * int64(1+r.Intn(40)), TokensProvided: sdk.NewCoins(coin("uosmo", 1000+r.I64n(1e8)), coin("xxx", 1000+r.I64n(1e8))), TokenMinAmount0: sdkmath.ZeroInt(), TokenMinAmount1: sdkmath.ZeroInt()}); res.OK() {
				ps, _ := ch.App.ConcentratedLiquidityKeeper.GetUserPositions(ch.Ctx, w.users[u].Addr, w.clID)
				for _, p := range ps {
					if w.pos[p.PositionId] == nil {
						w.pos[p.PositionId] = &c20Pos{id: p.PositionId, owner: u}
					}
				}
			}
		}
		for _, u := range w.users[:4] {
			ch.Exec(&gammtypes.MsgJoinPool{Sender: u.Addr.String(), PoolId: w.balID, ShareOutAmount: gammtypes.InitPoolSharesSupply.QuoRaw(5), TokenInMaxs: sdk.NewCoins(coin("uosmo", 1e18), coin("xxx", 1e18))})
		}
		// a refresh epoch so that the superfluid multipliers exist
		ch.NextBlock(7 * time.Hour)
		ch.NextBlock(5 * time.Second)
		val := func() string { return ch.Vals[r.Intn(len(ch.Vals))].OpAddr.String() }

		for op := 0; op < opsPer && !w.stop; op++ {
			u := r.Intn(4)
			ua := w.users[u]
			switch k := r.Intn(30); {
			case k < 3: // new position
				cur := int64(0)
				if p, err := ch.App.ConcentratedLiquidityKeeper.GetConcentratedPoolById(ch.Ctx, w.clID); err == nil {
					cur = roundDown(p.GetCurrentTick(), 100)
				}
				res := w.must(&cltypes.MsgCreatePosition{PoolId: w.clID, Sender: ua.Addr.String(), LowerTick: cur - 100*(1+r.I64n(40)), UpperTick: cur + 100*(1+r.I64n(40)), TokensProvided: sdk.NewCoins(coin("uosmo", 1000+r.I64n(1e9)), coin("xxx", 1000+r.I64n(1e9))), TokenMinAmount0: sdkmath.ZeroInt(), TokenMinAmount1: sdkmath.ZeroInt()})
				if res.OK() {
					ps, _ := ch.App.ConcentratedLiquidityKeeper.GetUserPositions(ch.Ctx, ua.Addr, w.clID)
					for _, p := range ps {
						if w.pos[p.PositionId] == nil {
							w.pos[p.PositionId] = &c20Pos{id: p.PositionId, owner: u}
						}
					}
				}
			case k == 3: // superfluid full-range position
				res := w.must(&sftypes.MsgCreateFullRangePositionAndSuperfluidDelegate{Sender: ua.Addr.String(), Coins: sdk.NewCoins(coin("uosmo", 100000+r.I64n(1e9)), coin("xxx", 200000+r.I64n(1e9))), ValAddr: val(), PoolId: w.clID})
				if res.OK() {
					ps, _ := ch.App.ConcentratedLiquidityKeeper.GetUserPositions(ch.Ctx, ua.Addr, w.clID)
					for _, p := range ps {
						if w.pos[p.PositionId] == nil {
							w.pos[p.PositionId] = &c20Pos{id: p.PositionId, owner: u, sf: true}
							if lid, err := ch.App.ConcentratedLiquidityKeeper.GetLockIdFromPositionId(ch.Ctx, p.PositionId); err == nil {
								w.locks[lid] = &c20Lock{id: lid, owner: u, denom: cltypes.GetConcentratedLockupDenomFromPoolId(w.clID), state: "sf-delegated", receiver: -1}
							}
						}
					}
				}
			case k == 4: // transfer a position
				for _, p := range w.sortedPos() {
					if p.owner == u && !p.sf {
						to := (u + 1 + r.Intn(3)) % 4
						if res := w.must(&cltypes.MsgTransferPositions{PositionIds: []uint64{p.id}, Sender: ua.Addr.String(), NewOwner: w.users[to].Addr.String()}); res.OK() {
							p.prev = append(p.prev, p.owner)
							p.owner = to
						}
						break
					}
				}
			case k < 8: // new lock
				denom := w.share
				amt := ch.Bal(ua.Addr, denom).QuoRaw(20 + r.I64n(50))
				ds := w.sortedDenoms()
				if len(ds) > 0 && r.Intn(3) == 0 {
					denom = ds[r.Intn(len(ds))].denom
					amt = ch.Bal(ua.Addr, denom).QuoRaw(2 + r.I64n(5))
				}
				if !amt.IsPositive() {
					continue
				}
				dur := []time.Duration{time.Hour, 24 * time.Hour, 14 * 24 * time.Hour}[r.Intn(3)]
				if denom == w.share && r.Intn(3) == 0 {
					res := w.must(&sftypes.MsgLockAndSuperfluidDelegate{Sender: ua.Addr.String(), Coins: sdk.NewCoins(sdk.NewCoin(denom, amt)), ValAddr: val()})
					if id := lockIDFrom(res); res.OK() && id != 0 && w.locks[id] == nil {
						w.locks[id] = &c20Lock{id: id, owner: u, denom: denom, state: "sf-delegated", receiver: -1}
					}
					continue
				}
				res := w.must(&lockuptypes.MsgLockTokens{Owner: ua.Addr.String(), Duration: dur, Coins: sdk.NewCoins(sdk.NewCoin(denom, amt))})
				if id := lockIDFrom(res); res.OK() && id != 0 && w.locks[id] == nil {
					w.locks[id] = &c20Lock{id: id, owner: u, denom: denom, state: "plain", receiver: -1}
				}
			case k == 8 || k == 12 && r.Bool(): // evolve a lock
				mine := []*c20Lock{}
				for _, l := range w.sortedLocks() {
					if l.owner == u {
						mine = append(mine, l)
					}
				}
				if len(mine) == 0 {
					continue
				}
				for _, l := range []*c20Lock{mine[r.Intn(len(mine))]} {
					c.Count("evolve/"+l.state, 1)
					switch l.state {
					case "plain":
						switch r.Intn(3) {
						case 0:
							if w.must(&lockuptypes.MsgBeginUnlocking{Owner: ua.Addr.String(), ID: l.id}).OK() {
								l.state = "unlocking"
							}
						case 1:
							rc := (u + 1 + r.Intn(3)) % 4
							if w.must(&lockuptypes.MsgSetRewardReceiverAddress{Owner: ua.Addr.String(), LockID: l.id, RewardReceiver: w.users[rc].Addr.String()}).OK() {
								l.receiver = rc
							}
						default:
							if l.denom == w.share {
								if w.must(&sftypes.MsgSuperfluidDelegate{Sender: ua.Addr.String(), LockId: l.id, ValAddr: val()}).OK() {
									l.state = "sf-delegated"
								}
							}
						}
					case "sf-delegated":
						if l.denom == w.share && w.must(&sftypes.MsgSuperfluidUndelegate{Sender: ua.Addr.String(), LockId: l.id}).OK() {
							l.state = "sf-undelegating"
						}
					}
					break
				}
			case k < 11: // new denom
				sub := fmt.Sprintf("t%d", len(w.denoms))
				if res := w.must(&tftypes.MsgCreateDenom{Sender: ua.Addr.String(), Subdenom: sub}); res.OK() {
					d := "factory/" + ua.Addr.String() + "/" + sub
					c.Eval(1)
					meta, err := ch.App.TokenFactoryKeeper.GetAuthorityMetadata(ch.Ctx, d)
					if err != nil || meta.Admin != ua.Addr.String() {
						c.Violate("C20.create_denom_namespace", map[string]any{"msg": "MsgCreateDenom"}, "CreateDenom(%s) by %s: expected denom %s administered by the sender, got admin %q err %v", sub, ua.Addr, d, meta.Admin, err)
						return
					}
					// nobody else's denom changed hands
					for _, od := range w.sortedDenoms() {
						m, _ := ch.App.TokenFactoryKeeper.GetAuthorityMetadata(ch.Ctx, od.denom)
						if od.admin < 0 {
							continue
						}
						want := w.users[od.admin].Addr.String()
						if m.Admin != want {
							c.Violate("C20.create_denom_namespace", map[string]any{"msg": "MsgCreateDenom"}, "after CreateDenom by %s the admin of %s is %q, expected %q", ua.Addr, od.denom, m.Admin, want)
							return
						}
					}
					w.denoms[d] = &c20Denom{denom: d, creator: u, admin: u}
					w.must(&tftypes.MsgMint{Sender: ua.Addr.String(), Amount: coin(d, 1_000_000_000), MintToAddress: ua.Addr.String()})
					for _, o := range w.users {
						w.must(&tftypes.MsgMint{Sender: ua.Addr.String(), Amount: coin(d, 1_000_000), MintToAddress: o.Addr.String()})
					}
					// the community pool (distribution module account, no bank permissions) holds some of it too
					w.must(&distrtypes.MsgFundCommunityPool{Amount: sdk.NewCoins(coin(d, 5_000)), Depositor: ua.Addr.String()})
					c.Class("MsgCreateDenom|namespace|%d-denoms", bucket(len(w.denoms)))
				}
				// somebody else's namespace: the same subdenom again, and a sub-denom that spells another creator's denom
				if len(w.denoms) > 0 {
					od := w.sortedDenoms()[r.Intn(len(w.denoms))]
					other := w.users[(od.creator+1)%4]
					c.Eval(1)
					parts := strings.SplitN(od.denom, "/", 3)
					res := ch.ExecOn(ch.Fork(), &tftypes.MsgCreateDenom{Sender: other.Addr.String(), Subdenom: parts[2]})
					if res.OK() {
						// legal: it lives in the sender's own namespace; the victim's denom must be untouched (checked above on the next creation)
						c.Class("MsgCreateDenom|same-subdenom-other-namespace")
					}
				}
			case k == 11 || k == 13: // change admin / renounce
				for _, d := range w.sortedDenoms() {
					if d.admin != u {
						continue
					}
					if r.Intn(3) == 0 {
						// renouncing: this version's ValidateBasic refuses an empty NewAdmin, so an administrator
						// gives the powers up by handing them to an address nobody holds a key for; the empty
						// admin that genesis states and older versions can carry is written to the store directly
						if r.Bool() {
							dead := sdk.AccAddress(make([]byte, 20))
							if w.must(&tftypes.MsgChangeAdmin{Sender: ua.Addr.String(), Denom: d.denom, NewAdmin: dead.String()}).OK() {
								d.prev = append(d.prev, d.admin)
								d.admin = -1
							}
						} else {
							bz, _ := (&tftypes.DenomAuthorityMetadata{Admin: ""}).Marshal()
							if bz == nil {
								bz = []byte{}
							}
							ch.Ctx.KVStore(ch.App.AppKeepers.GetKey(tftypes.StoreKey)).Set(append(tftypes.GetDenomPrefixStore(d.denom), []byte(tftypes.DenomAuthorityMetadataKey)...), bz)
							if m, err := ch.App.TokenFactoryKeeper.GetAuthorityMetadata(ch.Ctx, d.denom); err == nil && m.Admin == "" {
								d.prev = append(d.prev, d.admin)
								d.admin = -1
								d.emptyAdmin = true
							}
						}
					} else {
						to := (u + 1 + r.Intn(3)) % 4
						if w.must(&tftypes.MsgChangeAdmin{Sender: ua.Addr.String(), Denom: d.denom, NewAdmin: w.users[to].Addr.String()}).OK() {
							d.prev = append(d.prev, d.admin)
							d.admin = to
						}
					}
					break
				}
			case k == 12: // time passes
				ch.NextBlock([]time.Duration{5 * time.Second, time.Hour, 7 * time.Hour}[r.Intn(3)])
				// locks may have matured
				for id, l := range w.locks {
					if _, err := ch.App.LockupKeeper.GetLockByID(ch.Ctx, id); err != nil {
						delete(w.locks, id)
						_ = l
					}
				}
			case k < 19: // probe a position
				ps := w.sortedPos()
				if len(ps) == 0 {
					continue
				}
				p := ps[r.Intn(len(ps))]
				pp, err := ch.App.ConcentratedLiquidityKeeper.GetPosition(ch.Ctx, p.id)
				if err != nil {
					delete(w.pos, p.id)
					continue
				}
				own := w.users[p.owner].Addr
				state := "plain"
				if p.sf {
					state = "superfluid"
				}
				if len(p.prev) > 0 {
					state += "+transferred"
				}
				var msg sdk.Msg
				switch r.Intn(6) {
				case 0:
					msg = &cltypes.MsgWithdrawPosition{PositionId: p.id, Sender: own.String(), LiquidityAmount: pp.Liquidity.QuoInt64(2 + r.I64n(3))}
				case 1:
					msg = &cltypes.MsgAddToPosition{PositionId: p.id, Sender: own.String(), Amount0: sdkmath.NewInt(1000 + r.I64n(1e6)), Amount1: sdkmath.NewInt(1000 + r.I64n(1e6)), TokenMinAmount0: sdkmath.ZeroInt(), TokenMinAmount1: sdkmath.ZeroInt()}
				case 2:
					msg = &cltypes.MsgCollectSpreadRewards{PositionIds: []uint64{p.id}, Sender: own.String()}
				case 3:
					msg = &cltypes.MsgCollectIncentives{PositionIds: []uint64{p.id}, Sender: own.String()}
				case 4:
					msg = &cltypes.MsgTransferPositions{PositionIds: []uint64{p.id}, Sender: own.String(), NewOwner: w.users[(p.owner+1)%4].Addr.String()}
				default:
					msg = &sftypes.MsgAddToConcentratedLiquiditySuperfluidPosition{PositionId: p.id, Sender: own.String(), TokenDesired0: coin("uosmo", 1000+r.I64n(1e6)), TokenDesired1: coin("xxx", 1000+r.I64n(1e6))}
				}
				// a transfer probe by a wrong sender names the wrong sender as receiver too in half of the cases
				w.probe("position", state, msg, own, p.prev, nil)
				if t, ok := msg.(*cltypes.MsgTransferPositions); ok && !w.stop {
					for _, s := range w.wrongSenders(own, p.prev, nil)[:2] {
						c.Eval(1)
						x := *t
						x.Sender, x.NewOwner = s.addr.String(), s.addr.String()
						if res := ch.ExecOn(ch.Fork(), &x); res.OK() {
							c.Violate("C20.unauthorized_success", map[string]any{"msg": "MsgTransferPositions", "sender_kind": s.kind, "object": "position", "state": state}, "TransferPositions of position %d to self succeeded for %s (%s)", p.id, s.addr, s.kind)
							return
						}
					}
				}
			case k < 25: // probe a lock
				ls := w.sortedLocks()
				if len(ls) == 0 {
					continue
				}
				l := ls[r.Intn(len(ls))]
				lock, err := ch.App.LockupKeeper.GetLockByID(ch.Ctx, l.id)
				if err != nil {
					delete(w.locks, l.id)
					continue
				}
				own := w.users[l.owner].Addr
				var extra []c20Sender
				if l.receiver >= 0 {
					extra = append(extra, c20Sender{"reward-receiver", w.users[l.receiver].Addr})
				}
				if strings.HasPrefix(l.state, "sf") {
					if ia, found := sk.GetIntermediaryAccountFromLockId(ch.Ctx, l.id); found {
						extra = append(extra, c20Sender{"intermediary-account", ia.GetAccAddress()})
					}
				}
				var msg sdk.Msg
				switch r.Intn(11) {
				case 0:
					msg = &lockuptypes.MsgBeginUnlocking{Owner: own.String(), ID: l.id}
				case 1:
					msg = &lockuptypes.MsgBeginUnlocking{Owner: own.String(), ID: l.id, Coins: sdk.NewCoins(sdk.NewCoin(lock.Coins[0].Denom, lock.Coins[0].Amount.QuoRaw(2)))}
				case 2:
					msg = &lockuptypes.MsgExtendLockup{Owner: own.String(), ID: l.id, Duration: lock.Duration + time.Hour}
				case 3:
					msg = &lockuptypes.MsgSetRewardReceiverAddress{Owner: own.String(), LockID: l.id, RewardReceiver: w.users[(l.owner+1+r.Intn(3))%4].Addr.String()}
				case 4:
					msg = &sftypes.MsgSuperfluidDelegate{Sender: own.String(), LockId: l.id, ValAddr: val()}
				case 5:
					msg = &sftypes.MsgSuperfluidUndelegate{Sender: own.String(), LockId: l.id}
				case 6:
					msg = &sftypes.MsgSuperfluidUnbondLock{Sender: own.String(), LockId: l.id}
				case 7:
					msg = &sftypes.MsgSuperfluidUndelegateAndUnbondLock{Sender: own.String(), LockId: l.id, Coin: sdk.NewCoin(lock.Coins[0].Denom, lock.Coins[0].Amount.QuoRaw(2))}
				case 8:
					msg = &sftypes.MsgUnbondConvertAndStake{LockId: l.id, Sender: own.String(), ValAddr: val(), MinAmtToStake: sdkmath.ZeroInt(), SharesToConvert: sdk.NewCoin(lock.Coins[0].Denom, lock.Coins[0].Amount.QuoRaw(2))}
				case 9:
					msg = &sftypes.MsgUnlockAndMigrateSharesToFullRangeConcentratedPosition{Sender: own.String(), LockId: int64(l.id), SharesToMigrate: sdk.NewCoin(lock.Coins[0].Denom, lock.Coins[0].Amount.QuoRaw(2))}
				default:
					if w.forceAllowed[own.String()] {
						// the owner is on the allow list: it may, the other listed addresses (and everybody else) may not
						w.probe("lock", l.state+"+owner-force-allowed", &lockuptypes.MsgForceUnlock{Owner: own.String(), ID: l.id}, own, nil, extra)
						continue
					}
					// the owner is not on the force-unlock allow list: not even the owner may
					w.probe("lock", l.state, &lockuptypes.MsgForceUnlock{Owner: own.String(), ID: l.id}, nil, nil, append(extra, c20Sender{"lock-owner", own}))
					continue
				}
				st := l.state
				if l.denom != w.share && !strings.HasPrefix(l.denom, "cl/") {
					st += "+factory-denom"
				}
				w.probe("lock", st, msg, own, nil, extra)
			default: // probe a denom
				ds := w.sortedDenoms()
				if len(ds) == 0 {
					continue
				}
				d := ds[r.Intn(len(ds))]
				var right sdk.AccAddress
				state := "administered"
				if d.admin >= 0 {
					right = w.users[d.admin].Addr
					if len(d.prev) > 0 {
						state = "admin-changed"
					}
				} else {
					state = "renounced"
					if d.emptyAdmin {
						state = "renounced-empty-admin"
					}
				}
				prev := append([]int{}, d.prev...)
				if d.admin != d.creator {
					prev = append(prev, d.creator)
				}
				holder := w.users[r.Intn(4)].Addr
				to := w.users[r.Intn(4)].Addr
				var msg sdk.Msg
				switch r.Intn(8) {
				case 0:
					msg = &tftypes.MsgMint{Amount: coin(d.denom, 1+r.I64n(1e6)), MintToAddress: to.String()}
				case 1:
					msg = &tftypes.MsgBurn{Amount: coin(d.denom, 1+r.I64n(1000)), BurnFromAddress: holder.String()}
				case 2:
					msg = &tftypes.MsgBurn{Amount: coin(d.denom, 1+r.I64n(1000))} // from self
				case 3:
					msg = &tftypes.MsgForceTransfer{Amount: coin(d.denom, 1+r.I64n(1000)), TransferFromAddress: holder.String(), TransferToAddress: to.String()}
				case 4, 7:
					msg = &tftypes.MsgChangeAdmin{Denom: d.denom, NewAdmin: to.String()}
				case 5:
					msg = &tftypes.MsgSetDenomMetadata{Metadata: banktypes.Metadata{Description: "x", Base: d.denom, Display: d.denom, Name: "n", Symbol: "S", DenomUnits: []*banktypes.DenomUnit{{Denom: d.denom, Exponent: 0}}}}
				default:
					msg = &tftypes.MsgSetBeforeSendHook{Denom: d.denom, CosmwasmAddress: ""}
				}
				if right != nil {
					msg = w.setSender(msg, right.String())
				} else {
					msg = w.setSender(msg, w.users[0].Addr.String())
				}
				// a wrong sender that changes the admin names itself
				w.probe("denom", state, msg, right, prev, nil)
				if w.stop {
					return
				}
				// an existing denom cannot be created again, by its creator or anybody else, whatever became of its
				// admin (re-creation would hand the admin powers back to the creator)
				if parts := strings.SplitN(d.denom, "/", 3); len(parts) == 3 && r.Intn(2) == 0 {
					c.Eval(1)
					fork := ch.Fork()
					cm := &tftypes.MsgCreateDenom{Sender: w.users[d.creator].Addr.String(), Subdenom: parts[2]}
					res := ch.ExecOn(fork, cm)
					am, _ := ch.App.TokenFactoryKeeper.GetAuthorityMetadata(fork, d.denom)
					am0, _ := ch.App.TokenFactoryKeeper.GetAuthorityMetadata(ch.Ctx, d.denom)
					if res.OK() || am.Admin != am0.Admin {
						c.Violate("C20.unauthorized_success", map[string]any{"msg": "MsgCreateDenom", "sender_kind": "creator-again", "object": "denom", "state": state}, "MsgCreateDenom for the existing denom %s (%s) by its creator: ok=%v, admin %q -> %q\nmessage: %s", d.denom, state, res.OK(), am0.Admin, am.Admin, cm.String())
						return
					}
					c.Class("MsgCreateDenom|denom|%s|creator-again|nobody-entitled", state)
				}
				// protected module accounts: even the admin cannot mint into, burn from or force-transfer out of / into them
				if right != nil {
					mods := []string{"lockup", "gamm", "tokenfactory", "superfluid", "bonded_tokens_pool", "distribution"}
					mod := mods[r.Intn(len(mods))]
					ma := authtypes.NewModuleAddress(mod)
					held := ch.Bal(ma, d.denom)
					amt := sdkmath.OneInt()
					if held.IsPositive() {
						amt = held
					}
					// the module account is named in its usual spelling or in the (equally valid) all-upper-case bech32 spelling
					mas := ma.String()
					spelling := "lower"
					if r.Intn(3) == 0 {
						mas, spelling = strings.ToUpper(mas), "upper"
					}
					for _, pm := range []sdk.Msg{
						&tftypes.MsgMint{Sender: right.String(), Amount: coin(d.denom, 5), MintToAddress: mas},
						&tftypes.MsgBurn{Sender: right.String(), Amount: sdk.NewCoin(d.denom, amt), BurnFromAddress: mas},
						&tftypes.MsgForceTransfer{Sender: right.String(), Amount: sdk.NewCoin(d.denom, amt), TransferFromAddress: mas, TransferToAddress: right.String()},
						&tftypes.MsgForceTransfer{Sender: right.String(), Amount: coin(d.denom, 1), TransferFromAddress: right.String(), TransferToAddress: mas},
					} {
						c.Eval(1)
						before := ch.Bal(ma, d.denom)
						fork := ch.Fork()
						res := ch.ExecOn(fork, pm)
						after := ch.BalOn(fork, ma, d.denom)
						if res.OK() || !after.Equal(before) {
							c.Violate("C20.module_account_reached", map[string]any{"msg": msgName(pm), "module": mod}, "%s by the admin reached into the %s module account (holding %s%s): ok=%v balance %s -> %s\nmessage: %s", msgName(pm), mod, before, d.denom, res.OK(), before, after, pm.String())
							return
						}
						c.Class("%s|module-account:%s|holds-%v|%s", msgName(pm), mod, held.IsPositive(), spelling)
					}
				}
			}
		}
		if i < 2 {
			c.Sample(map[string]any{"positions": len(w.pos), "locks": len(w.locks), "denoms": len(w.denoms), "ops": opsPer})
		}
	})
}

func (w *c20World) sortedPos() []*c20Pos {
	var out []*c20Pos
	for _, p := range w.pos {
		out = append(out, p)
	}
	sort.Slice(out, func(a, b int) bool { return out[a].id < out[b].id })
	return out
}

func (w *c20World) sortedLocks() []*c20Lock {
	var out []*c20Lock
	for _, p := range w.locks {
		out = append(out, p)
	}
	sort.Slice(out, func(a, b int) bool { return out[a].id < out[b].id })
	return out
}

func (w *c20World) sortedDenoms() []*c20Denom {
	var out []*c20Denom
	for _, p := range w.denoms {
		out = append(out, p)
	}
	sort.Slice(out, func(a, b int) bool { return out[a].denom < out[b].denom })
	return out
}
