//go:build verif

package main

// C01 — concentrated pools stay solvent under every operation history.
// Oracle: after every operation, on discarded branches of the state, every position is
// claimed and fully withdrawn in three different orders; every message must succeed, the
// claimable totals must be covered by the reward accounts, and what is left is dust.

import (
	"fmt"
	"math/big"
	"sort"

	sdkmath "cosmossdk.io/math"
	sdk "github.com/cosmos/cosmos-sdk/types"

	"github.com/osmosis-labs/osmosis/osmomath"
	clmath "github.com/osmosis-labs/osmosis/v31/x/concentrated-liquidity/math"
	cltypes "github.com/osmosis-labs/osmosis/v31/x/concentrated-liquidity/types"
	"github.com/osmosis-labs/osmosis/v31/zzverif/vk"
)

type c01State struct {
	lpOps        int64
	swapSteps    int64
	feeDustBound map[string]*big.Rat // per denom, in token units
	claims       int64
	minP, maxP   *big.Rat // extremes of the spot price (token1 per token0) seen so far
}

func (s *c01State) seePrice(sqrtP *big.Rat) {
	if sqrtP == nil || sqrtP.Sign() == 0 {
		return
	}
	p := new(big.Rat).Mul(sqrtP, sqrtP)
	if s.minP == nil || p.Cmp(s.minP) < 0 {
		s.minP = p
	}
	if s.maxP == nil || p.Cmp(s.maxP) > 0 {
		s.maxP = p
	}
}

func runC01(c *vk.Ctx) {
	c.R.Rule = "cases = the common concentrated-liquidity histories (see C07); one history in three has a second concentrated pool whose decimal id begins with the main pool's (1 and 10, pools 2..9 being empty fillers) with its own young positions, incentive records and withdrawals, and incentive claims whose one message lists positions of both pools in either order (the neighbour pool's claimable incentives must be covered by its own incentive account as well). After EVERY operation: (i) Σ claimable spread rewards / incentives over all positions vs the balances of the two reward accounts; (ii) on three discarded branches (ascending, descending, seed-shuffled position order) every position is claimed (spread rewards, incentives) and fully withdrawn — every message must succeed — and the pool's remaining token balances are measured against the computed rounding-dust bound. A second part evaluates the exported LP-amount functions against exact rationals for rounding direction. distinct_nontrivial counts distinct (operation, #positions bucket, exit order, dust class, any-claimable?) tuples plus (function, roundUp, regime) cells of the direction layer."
	nHist := c.N(480, 1600)
	opsPer := c.N(40, 150)
	var st *c01State
	hooks := clHooks{neighbour: true}
	hooks.beforeSwap = func(w *clWorld, zfo, exactIn bool, amount sdkmath.Int) func(clSwapRec) {
		if st == nil {
			st = &c01State{feeDustBound: map[string]*big.Rat{}}
		}
		s := clReadState(w, w.ch.Ctx)
		if s == nil {
			return nil
		}
		wk := s.walk(zfo, exactIn, amount.BigInt())
		return func(rec clSwapRec) {
			if !rec.executed {
				return
			}
			st.seePrice(s.sqrtP)
			st.seePrice(wk.endSqrt)
			st.swapSteps += int64(len(wk.steps)) + 2
			din := w.d0
			if !zfo {
				din = w.d1
			}
			if st.feeDustBound[din] == nil {
				st.feeDustBound[din] = new(big.Rat)
			}
			sf := big.NewRat(1, 1)
			if w.scaled {
				sf = new(big.Rat).SetInt(new(big.Int).Exp(big.NewInt(10), big.NewInt(27), nil))
			}
			for _, s := range wk.steps {
				// fee growth per unit of liquidity is truncated at 18 decimals (after scaling): up to L·1e-18/sf units stay behind
				d := new(big.Rat).Quo(new(big.Rat).Mul(s.L, big.NewRat(1, 1e18)), sf)
				st.feeDustBound[din].Add(st.feeDustBound[din], d.Add(d, big.NewRat(2, 1)))
			}
			st.feeDustBound[din].Add(st.feeDustBound[din], big.NewRat(2, 1))
		}
	}
	hooks.afterOp = func(w *clWorld, op string) bool {
		if st == nil || op == "create-first" {
			st = &c01State{feeDustBound: map[string]*big.Rat{}}
		}
		switch op {
		case "create", "create-first", "add", "withdraw", "transfer":
			st.lpOps++
		case "collect-spread", "collect-incentives":
			st.claims++
		}
		if len(w.pos) > 0 {
			st.seePrice(ratBD(w.pool().GetCurrentSqrtPrice()))
		}
		return c01Check(c, w, op, st)
	}
	runCLHistories(c, "mixed", nHist, opsPer, hooks, nil)
	runC01Direction(c)
}

func c01Check(c *vk.Ctx, w *clWorld, op string, st *c01State) bool {
	k := w.ch.App.ConcentratedLiquidityKeeper
	ctx := w.ch.Ctx
	pool := w.pool()
	ps := w.sortedPos()
	sig := func() map[string]any { return map[string]any{"op": op} }
	// (i) claimable totals are covered
	sumSpread, sumInc := sdk.NewCoins(), sdk.NewCoins()
	for _, p := range ps {
		sr, err := k.GetClaimableSpreadRewards(ctx, p.id)
		if err != nil {
			c.Violate("C01.claimable_query", sig(), "after %s: GetClaimableSpreadRewards(%d) failed: %v", op, p.id, err)
			return false
		}
		ci, _, err := k.GetClaimableIncentives(ctx, p.id)
		if err != nil {
			c.Violate("C01.claimable_query", sig(), "after %s: GetClaimableIncentives(%d) failed: %v", op, p.id, err)
			return false
		}
		sumSpread = sumSpread.Add(sr...)
		sumInc = sumInc.Add(ci...)
	}
	balSpread := w.ch.AllBal(ctx, pool.GetSpreadRewardsAddress())
	balInc := w.ch.AllBal(ctx, pool.GetIncentivesAddress())
	c.Eval(1)
	if !balSpread.IsAllGTE(sumSpread) {
		c.Violate("C01.spread_rewards_covered", sig(), "after %s: Σ claimable spread rewards %s exceeds the spread-reward account balance %s", op, sumSpread, balSpread)
		return false
	}
	if !balInc.IsAllGTE(sumInc) {
		c.Violate("C01.incentives_covered", sig(), "after %s: Σ claimable incentives %s exceeds the incentive account balance %s", op, sumInc, balInc)
		return false
	}
	if w.nbrID != 0 {
		// the neighbour pool's incentive account must cover what its positions can claim, too
		if np, err := k.GetConcentratedPoolById(ctx, w.nbrID); err == nil {
			sumN := sdk.NewCoins()
			for id := range w.nbrPos {
				ci, _, err := k.GetClaimableIncentives(ctx, id)
				if err != nil {
					c.Violate("C01.claimable_query", sig(), "after %s: GetClaimableIncentives(%d) (neighbour pool) failed: %v", op, id, err)
					return false
				}
				sumN = sumN.Add(ci...)
			}
			if balN := w.ch.AllBal(ctx, np.GetIncentivesAddress()); !balN.IsAllGTE(sumN) {
				s := sig()
				s["pool"] = "neighbour"
				c.Violate("C01.incentives_covered", s, "after %s: in the neighbour pool %d Σ claimable incentives %s exceeds the incentive account balance %s", op, w.nbrID, sumN, balN)
				return false
			}
		}
	}
	if len(ps) == 0 {
		c.Class("%s|empty", op)
		return true
	}
	// (ii) everybody exits, three orders, on discarded branches
	orders := [][]*clPos{ps, nil, nil}
	desc := append([]*clPos(nil), ps...)
	sort.Slice(desc, func(i, j int) bool { return desc[i].id > desc[j].id })
	orders[1] = desc
	shuf := append([]*clPos(nil), ps...)
	for i := len(shuf) - 1; i > 0; i-- {
		j := w.r.Intn(i + 1)
		shuf[i], shuf[j] = shuf[j], shuf[i]
	}
	orders[2] = shuf
	names := []string{"asc", "desc", "shuffled"}
	for oi, ord := range orders {
		f := w.ch.Fork()
		for _, p := range ord {
			owner := w.lps[p.owner].Addr.String()
			for _, msg := range []sdk.Msg{
				&cltypes.MsgCollectSpreadRewards{PositionIds: []uint64{p.id}, Sender: owner},
				&cltypes.MsgCollectIncentives{PositionIds: []uint64{p.id}, Sender: owner},
				&cltypes.MsgWithdrawPosition{PositionId: p.id, Sender: owner, LiquidityAmount: p.liq},
			} {
				c.Eval(1)
				res := w.ch.ExecOn(f, msg)
				if !res.OK() {
					s := sig()
					s["exit_msg"] = fmt.Sprintf("%T", msg)
					c.Violate("C01.cannot_exit", s, "after %s, exit order %s: %T for position %d (owner %d, [%d,%d), liq %s) fails: %s", op, names[oi], msg, p.id, p.owner, p.lower, p.upper, p.liq, trunc(res.ErrString(), 300))
					return false
				}
			}
		}
		// everybody is out: what is left is dust
		d0 := w.ch.BalOn(f, pool.GetAddress(), w.d0)
		d1 := w.ch.BalOn(f, pool.GetAddress(), w.d1)
		if d0.IsNegative() || d1.IsNegative() {
			c.Violate("C01.negative_pool_balance", sig(), "pool balance negative after everybody left: %s/%s", d0, d1)
			return false
		}
		// every rounding keeps at most one unit of one token in the pool, or the equivalent value in the
		// other token at the price of the moment (a swap that pays out ⌊1.9⌋ = 1 unit of token1 keeps 0.9
		// units of token1 worth 0.9/P units of token0). N roundings, valued at the price extremes seen.
		n := big.NewRat(4*(st.swapSteps+st.lpOps)+16, 1)
		one := big.NewRat(1, 1)
		b0, b1 := new(big.Rat).Set(n), new(big.Rat).Set(n)
		if st.minP != nil {
			b0.Mul(n, new(big.Rat).Add(one, new(big.Rat).Inv(st.minP)))
			b1.Mul(n, new(big.Rat).Add(one, st.maxP))
		}
		r0, _ := new(big.Rat).Quo(new(big.Rat).SetInt(d0.BigInt()), b0).Float64()
		r1, _ := new(big.Rat).Quo(new(big.Rat).SetInt(d1.BigInt()), b1).Float64()
		ratio := r0
		if r1 > ratio {
			ratio = r1
		}
		dust := sdkmath.MaxInt(d0, d1)
		c.Max("pool_dust_over_bound", ratio, fmt.Sprintf("dust %s/%s bounds %s/%s after %s", d0, d1, b0.FloatString(0), b1.FloatString(0), op))
		if ratio > 1 {
			c.Violate("C01.pool_dust", sig(), "after %s, exit order %s: pool keeps %s%s / %s%s after everybody withdrew; rounding-dust bounds are %s / %s units (%d swap steps, %d LP operations, price range [%s, %s])", op, names[oi], d0, w.d0, d1, w.d1, b0.FloatString(0), b1.FloatString(0), st.swapSteps, st.lpOps, st.minP.FloatString(18), st.maxP.FloatString(18))
			return false
		}
		// spread-reward dust against the computed bound
		left := w.ch.AllBal(f, pool.GetSpreadRewardsAddress())
		for _, cn := range left {
			b := new(big.Rat)
			if st.feeDustBound[cn.Denom] != nil {
				b.Set(st.feeDustBound[cn.Denom])
			}
			b.Add(b, big.NewRat(2*(st.claims+st.lpOps+int64(len(ps)))+8, 1))
			b.Mul(b, big.NewRat(2, 1))
			r := new(big.Rat).Quo(new(big.Rat).SetInt(cn.Amount.BigInt()), b)
			rf, _ := r.Float64()
			c.Max("spread_dust_over_bound", rf, fmt.Sprintf("left %s bound %s after %s", cn, b.FloatString(1), op))
			if rf > 1 {
				c.Violate("C01.spread_reward_dust", sig(), "after %s, exit order %s: %s stays in the spread-reward account after everybody claimed; computed rounding bound %s", op, names[oi], cn, b.FloatString(1))
				return false
			}
		}
		dc := "0"
		if dust.IsPositive() {
			dc = "small"
			if dust.GT(sdkmath.NewInt(8)) {
				dc = "some"
			}
		}
		c.Class("%s|pos%d|%s|dust-%s|claimable%v", op, bucket(len(ps)), names[oi], dc, !sumSpread.IsZero() || !sumInc.IsZero())
	}
	return true
}

// ---------------------------------------------------------------- direction layer

func runC01Direction(c *vk.Ctx) {
	c.Cases("lp-math", c.N(200000, 20000000)/8, func(i int, r *vk.Rng) {
		// one case = 8 evaluations on one (liquidity, sqrtA, sqrtB) triple
		var sa, sb *big.Int
		regime := "18"
		if r.Intn(3) == 0 { // extended 36-decimal regime
			regime = "36"
			sa = r.BigMag(18, 60)
			sb = new(big.Int).Add(sa, r.BigMag(0, 60))
		} else { // sqrt prices of real ticks (18-decimal values)
			t1 := r.Range(cltypes.MinInitializedTick, cltypes.MaxTick-1)
			t2 := t1 + 1 + r.I64n(1+int64(r.Intn(7))*int64(r.Intn(100000)+1))
			if t2 > cltypes.MaxTick {
				t2 = cltypes.MaxTick
			}
			a, _ := clmath.TickToSqrtPrice(t1)
			b, _ := clmath.TickToSqrtPrice(t2)
			sa, sb = a.BigInt(), b.BigInt()
		}
		if sa.Cmp(sb) == 0 {
			sb = new(big.Int).Add(sb, big.NewInt(1))
		}
		li := r.BigMag(0, 48) // liquidity scaled 1e18: 1e-18 … 1e30
		A, B := osmomath.NewBigDecFromBigIntWithPrec(sa, 36), osmomath.NewBigDecFromBigIntWithPrec(sb, 36)
		L := sdkmath.LegacyNewDecFromBigIntWithPrec(li, 18)
		rA, rB, rL := new(big.Rat).SetFrac(sa, ratE36), new(big.Rat).SetFrac(sb, ratE36), new(big.Rat).SetFrac(li, ratE18i)
		ulp := new(big.Rat).SetFrac(big.NewInt(1), ratE36)
		ex0 := new(big.Rat).Mul(rL, new(big.Rat).Quo(new(big.Rat).Sub(rB, rA), new(big.Rat).Mul(rA, rB)))
		ex1 := new(big.Rat).Mul(rL, new(big.Rat).Sub(rB, rA))
		one := big.NewRat(1, 1)
		// below/above: how far the result may lie below / above the exact amount (in token units)
		chk := func(fn string, roundUp bool, got osmomath.BigDec, exact, below, above *big.Rat) {
			c.Eval(1)
			g := ratBD(got)
			sig := map[string]any{"fn": fn, "round_up": roundUp, "regime": regime}
			if g.Cmp(new(big.Rat).Sub(exact, below)) < 0 {
				chkName := "C01.rounding_direction"
				if !roundUp {
					chkName = "C01.rounding_magnitude"
				}
				c.Violate(chkName, sig, "%s(L=%s, A=%s, B=%s, roundUp=%v) = %s lies %s below the exact amount %s (allowance %s)", fn, L, A, B, roundUp, got, new(big.Rat).Sub(exact, g).FloatString(40), exact.FloatString(40), below.FloatString(40))
			}
			if g.Cmp(new(big.Rat).Add(exact, above)) > 0 {
				chkName := "C01.rounding_direction"
				if roundUp {
					chkName = "C01.rounding_magnitude"
				}
				c.Violate(chkName, sig, "%s(L=%s, A=%s, B=%s, roundUp=%v) = %s lies %s above the exact amount %s (allowance %s)", fn, L, A, B, roundUp, got, new(big.Rat).Sub(g, exact).FloatString(40), exact.FloatString(40), above.FloatString(40))
			}
		}
		zero := new(big.Rat)
		// CalcAmount0Delta rounds three times at 36 decimals: the product diff·L, the quotient by B and the
		// quotient by A; the first error is later divided by A·B, the second by A.
		amp0 := new(big.Rat).Add(new(big.Rat).Inv(new(big.Rat).Mul(rA, rB)), new(big.Rat).Inv(rA))
		amp0.Add(amp0, one)
		amp0.Mul(amp0, ulp)
		rec, _ := vk.Guard(func() {
			// roundUp variants are charged to the depositor: never below exact, less than one whole unit above
			chk("CalcAmount0Delta", true, clmath.CalcAmount0Delta(L, A, B, true), ex0, zero, new(big.Rat).Add(one, amp0))
			// roundDown variants are paid to the withdrawer: never above exact
			chk("CalcAmount0Delta", false, clmath.CalcAmount0Delta(L, A, B, false), ex0, amp0, zero)
			// CalcAmount1Delta(roundUp) rounds the 36-decimal product half-even before the ceiling: one ulp either way
			chk("CalcAmount1Delta", true, clmath.CalcAmount1Delta(L, A, B, true), ex1, ulp, new(big.Rat).Add(one, ulp))
			chk("CalcAmount1Delta", false, clmath.CalcAmount1Delta(L, A, B, false), ex1, ulp, zero)
			// swapped argument order must give the same amounts
			chk("CalcAmount0Delta", true, clmath.CalcAmount0Delta(L, B, A, true), ex0, zero, new(big.Rat).Add(one, amp0))
			chk("CalcAmount1Delta", false, clmath.CalcAmount1Delta(L, B, A, false), ex1, ulp, zero)
		})
		if rec != nil {
			c.Class("lp-math|overflow|%s", regime)
			return
		}
		c.Class("lp-math|%s|L%d", regime, len(li.String())/6)
		if i < 1 {
			c.Sample(map[string]any{"part": "lp-math", "L": L.String(), "sqrtA": A.String(), "sqrtB": B.String()})
		}
	})
}
