//go:build verif

package main

// C04, keeper-level part: weighted pools whose weights move over time (SmoothWeightChangeParams,
// "LBP" pools).  The pure part of C04 checks the pool model's arithmetic for given weights; what it
// cannot see is which weights the keeper hands to that arithmetic.  Here the messages go through
// the real keepers at block times inside, before and after the weight schedule, and every result
// is compared with the exact formula evaluated at the weights the schedule prescribes for the
// block time — computed by the monitor from the creation parameters, never read from the pool.

import (
	"fmt"
	"math/big"
	"sort"
	"time"

	sdkmath "cosmossdk.io/math"
	sdk "github.com/cosmos/cosmos-sdk/types"

	"github.com/osmosis-labs/osmosis/osmomath"
	"github.com/osmosis-labs/osmosis/v31/x/gamm/pool-models/balancer"
	gammtypes "github.com/osmosis-labs/osmosis/v31/x/gamm/types"
	poolmanagertypes "github.com/osmosis-labs/osmosis/v31/x/poolmanager/types"
	"github.com/osmosis-labs/osmosis/v31/zzverif/chain"
	"github.com/osmosis-labs/osmosis/v31/zzverif/vk"
)

type c04Lbp struct {
	ch      *chain.Chain
	id      uint64
	share   string
	denoms  []string
	w0, w1  map[string]int64 // user-specified weights (the pool scales them by 2^30)
	start   time.Time
	dur     time.Duration
	fee     osmomath.Dec
	exitFee osmomath.Dec
}

// weightsAt returns the schedule's weights at t (in units of 2^-30 of the stored integers: only ratios matter)
// and the relative uncertainty the pool's integer arithmetic may add to any weight ratio.
func (w *c04Lbp) weightsAt(t time.Time) (map[string]*big.Float, *big.Float, string) {
	out := map[string]*big.Float{}
	phase := "during"
	frac := bf(0)
	switch {
	case !t.After(w.start):
		phase = "before"
	case t.After(w.start.Add(w.dur)):
		phase = "after"
		frac = bf(1)
	default:
		frac = bfNew().Quo(bf(float64(t.Sub(w.start).Milliseconds())), bf(float64(w.dur.Milliseconds())))
	}
	minW := bf(1e30)
	for _, d := range w.denoms {
		a, b := bf(float64(w.w0[d])), bf(float64(w.w1[d]))
		x := bfNew().Add(a, bfNew().Mul(bfNew().Sub(b, a), frac))
		out[d] = x
		if x.Cmp(minW) < 0 {
			minW = x
		}
	}
	// stored weights are integers on a 2^30 grid: each is off by at most 2 grid units (18-decimal elapsed
	// fraction, truncation of the scaled difference); a ratio of two of them by at most 4 units of the smaller
	rel := bfNew().Quo(bf(4), bfNew().Mul(minW, bf(float64(int64(1)<<30))))
	return out, rel, phase
}

func (w *c04Lbp) reserves(ctx sdk.Context) (map[string]sdkmath.Int, sdkmath.Int, error) {
	p, err := w.ch.App.GAMMKeeper.GetPoolAndPoke(ctx, w.id)
	if err != nil {
		return nil, sdkmath.Int{}, err
	}
	// amounts and share supply do not depend on the weights; they are cross-checked against the bank below
	liq := p.GetTotalPoolLiquidity(ctx)
	out := map[string]sdkmath.Int{}
	for _, d := range w.denoms {
		out[d] = liq.AmountOf(d)
		if bal := w.ch.BalOn(ctx, p.GetAddress(), d); !bal.Equal(out[d]) {
			return nil, sdkmath.Int{}, fmt.Errorf("pool records %s%s, its account holds %s", out[d], d, bal)
		}
	}
	return out, p.GetTotalShares(), nil
}

// lbpTol: the documented power precision tolerance plus the effect of the weight grid on the exponent.
func lbpTol(R, y, e, relW, feeDiv *big.Float) *big.Float {
	t := c04Tol(R, y, e, feeDiv)
	// d(y^e)/de = y^e ln y ; exponent uncertainty e·relW
	ex := bfNew().Mul(bfNew().Mul(bfPow(y, e), bfAbs(bfLn(y))), bfNew().Mul(e, relW))
	ex.Mul(ex, R)
	if feeDiv != nil {
		ex.Quo(ex, feeDiv)
	}
	return t.Add(t, bfNew().Mul(ex, bf(2)))
}

func bfDec(d osmomath.Dec) *big.Float { return bfScaled(d.BigInt(), 18) }
func bfI(i sdkmath.Int) *big.Float    { return bfInt(i.BigInt()) }

// c04Tol: R·(pp·max(1,y^⌊e⌋) + (2e-18 + e·1e-18)·max(1,y^e))/feeDiv + 1 (same bound as the pure part)
func c04Tol(R, y, e *big.Float, feeDiv *big.Float) *big.Float {
	pp := bfDec(osmomath.GetPowPrecision())
	ei, _ := e.Int(nil)
	yInt := bfPow(y, bfInt(ei))
	if ei.Sign() == 0 {
		yInt = bf(1)
	}
	yE := bfPow(y, e)
	m1, m2 := yInt, yE
	if m1.Cmp(bf(1)) < 0 {
		m1 = bf(1)
	}
	if m2.Cmp(bf(1)) < 0 {
		m2 = bf(1)
	}
	ulps := bfNew().Add(bfScaled(big.NewInt(2), 18), bfNew().Mul(e, bfScaled(big.NewInt(1), 18)))
	t := bfNew().Add(bfNew().Mul(pp, m1), bfNew().Mul(ulps, m2))
	t.Mul(t, R)
	if feeDiv != nil {
		t.Quo(t, feeDiv)
	}
	return t.Add(t, bf(2))
}

func runC04(c *vk.Ctx) {
	c.R.Rule = "keeper-level part of C04 (the pool-model arithmetic runs in the pure binary). cases = histories on a real app with one balancer pool whose weights move linearly over time (2..3 assets, user weights 1..1000 moving to 1..1000 over 1..48 h, start 0..2 h after creation, spread 0..0.05): 14..40 blocks with time steps from seconds to a tenth of the schedule, quiet stretches without any traffic on the pool, and in the blocks poolmanager swaps exact-in/exact-out, single-asset joins (exact token in / exact shares out), single-asset exits (exact tokens out; exact shares in as a state change only, it is a proportional exit plus swaps), proportional joins/exits, all as messages (D1). Every swap/single-asset result (measured as the trader's balance change) is compared two-sided with the exact formula evaluated at the weights the schedule prescribes for the block time — computed by the monitor from the creation parameters, never read from the pool — tolerance = the documented power precision plus the pool's 2^-30 weight grid; the spot-price query is compared with (B_q/w_q)/(B_b/w_b) at those weights. distinct_nontrivial counts distinct (operation, schedule phase before/during/after, blocks since the pool was last written bucket, outcome) tuples."
	nHist := c.N(10, 120)
	c.Cases("lbp", nHist, func(i int, r *vk.Rng) {
		ch := chain.New(chain.Options{Denoms: []string{"foo", "bar", "baz"}, NumAccounts: 4, NumValidators: 1})
		defer ch.Close()
		w := &c04Lbp{ch: ch, w0: map[string]int64{}, w1: map[string]int64{}}
		all := []string{"foo", "bar", "baz", "uosmo"}
		for a := len(all) - 1; a > 0; a-- {
			b := r.Intn(a + 1)
			all[a], all[b] = all[b], all[a]
		}
		w.denoms = append([]string{}, all[:2+r.Intn(2)]...)
		sort.Strings(w.denoms)
		fees := []string{"0", "0.0005", "0.003", "0.01", "0.05"}
		w.fee = osmomath.MustNewDecFromStr(fees[r.Intn(len(fees))])
		w.exitFee = osmomath.ZeroDec()
		w.dur = time.Duration(1+r.Intn(48)) * time.Hour
		if r.Intn(4) == 0 {
			w.dur = time.Duration(10+r.Intn(50)) * time.Minute
		}
		w.start = time.Unix(ch.Ctx.BlockTime().Unix(), 0).UTC().Add(time.Duration(r.Intn(7200)) * time.Second)
		var assets, targets []balancer.PoolAsset
		for _, d := range w.denoms {
			w.w0[d] = 1 + r.I64n(1000)
			w.w1[d] = 1 + r.I64n(1000)
			if r.Intn(3) == 0 { // typical LBP: 96/4 -> 50/50 style, i.e. a strong move
				w.w0[d], w.w1[d] = 1+r.I64n(40), 500+r.I64n(500)
				if r.Intn(2) == 0 {
					w.w0[d], w.w1[d] = w.w1[d], w.w0[d]
				}
			}
			amt := sdkmath.NewInt(1_000_000 + r.I64n(1_000_000_000_000))
			assets = append(assets, balancer.PoolAsset{Weight: sdkmath.NewInt(w.w0[d]), Token: sdk.NewCoin(d, amt)})
			targets = append(targets, balancer.PoolAsset{Weight: sdkmath.NewInt(w.w1[d]), Token: sdk.NewCoin(d, sdkmath.ZeroInt())})
		}
		creator, trader := ch.Accs[0], ch.Accs[1]
		msg := balancer.NewMsgCreateBalancerPool(creator.Addr, balancer.NewPoolParams(w.fee, w.exitFee, &balancer.SmoothWeightChangeParams{StartTime: w.start, Duration: w.dur, TargetPoolWeights: targets}), assets, "")
		if res := ch.Exec(&msg); !res.OK() {
			c.Violate("C04.setup", nil, "LBP pool creation failed: %s", res.ErrString())
			return
		}
		w.id = ch.App.PoolManagerKeeper.GetNextPoolId(ch.Ctx) - 1
		w.share = gammtypes.GetPoolShareDenom(w.id)
		// the trader gets shares to exit with
		if res := ch.Exec(&gammtypes.MsgJoinPool{Sender: trader.Addr.String(), PoolId: w.id, ShareOutAmount: gammtypes.OneShare.MulRaw(10), TokenInMaxs: nil}); !res.OK() {
			c.Violate("C04.setup", nil, "initial join failed: %s", res.ErrString())
			return
		}
		nBlocks := 14 + r.Intn(27)
		lastWrite := 0
		for b := 0; b < nBlocks; b++ {
			// time step: seconds, minutes, or a sizeable part of the schedule; sometimes jump over the start / the end
			var dt time.Duration
			switch r.Intn(4) {
			case 0:
				dt = time.Duration(1+r.Intn(30)) * time.Second
			case 1:
				dt = time.Duration(1+r.Intn(30)) * time.Minute
			default:
				dt = time.Duration(1 + r.I64n(int64(w.dur)/10))
			}
			ch.NextBlock(dt)
			if r.Intn(4) == 0 {
				continue // a quiet block: nothing touches the pool
			}
			nOps := 1 + r.Intn(2)
			for k := 0; k < nOps; k++ {
				ctx := ch.Ctx
				now := ctx.BlockTime()
				wt, relW, phase := w.weightsAt(now)
				res, S, err := w.reserves(ctx)
				if err != nil {
					c.Violate("C04.lbp_pool_unreadable", map[string]any{"phase": phase}, "pool %d at %s: %v", w.id, now, err)
					return
				}
				W := bf(0)
				for _, d := range w.denoms {
					W.Add(W, wt[d])
				}
				di := r.Intn(len(w.denoms))
				dj := (di + 1 + r.Intn(len(w.denoms)-1)) % len(w.denoms)
				din, dout := w.denoms[di], w.denoms[dj]
				op := r.Intn(9)
				opName := []string{"swap-in", "swap-out", "join-extern-in", "join-share-out", "exit-extern-out", "spot-price", "join-all", "exit-all", "exit-share-in"}[op]
				quiet := bucket(b - lastWrite)
				sig := map[string]any{"op": opName, "phase": phase}
				c.Eval(1)
				balBefore := func(d string) sdkmath.Int { return ch.BalOn(ctx, trader.Addr, d) }
				frac := func(x sdkmath.Int) sdkmath.Int { // 1e-6 .. 30 % of x
					den := []int64{1_000_000, 10_000, 300, 20, 3}[r.Intn(5)]
					v := x.QuoRaw(den)
					if !v.IsPositive() {
						v = sdkmath.OneInt()
					}
					return v
				}
				describe := func() string {
					s := fmt.Sprintf("pool %d (%s) at %s, schedule %s + %s, phase %s, last pool write %d block(s) ago; reserves", w.id, w.fee, now.Format(time.RFC3339), w.start.Format(time.RFC3339), w.dur, phase, b-lastWrite)
					for _, d := range w.denoms {
						s += fmt.Sprintf(" %s%s[w %d->%d, now %.6f]", res[d], d, w.w0[d], w.w1[d], bfF64(wt[d]))
					}
					return s
				}
				compare := func(what string, got sdkmath.Int, exact, tol *big.Float) string {
					diff := bfAbs(bfNew().Sub(bfI(got), exact))
					rel := 0.0
					if exact.Sign() != 0 {
						rel = bfF64(bfNew().Quo(diff, bfAbs(exact)))
					}
					c.Max("lbp_rel_dev_"+opName, rel, fmt.Sprintf("case %d block %d", i, b))
					if diff.Cmp(tol) > 0 {
						c.Violate("C04.lbp_formula", sig, "%s: %s: %s = %s, exact formula at the scheduled weights gives %s (off by %s, tolerance %s)", opName, describe(), what, got, exact.Text('f', 3), diff.Text('f', 3), tol.Text('f', 3))
						return "violated"
					}
					return "ok"
				}
				outcome := "ok"
				switch op {
				case 0: // swap exact in
					amt := frac(res[din])
					m := &poolmanagertypes.MsgSwapExactAmountIn{Sender: trader.Addr.String(), Routes: []poolmanagertypes.SwapAmountInRoute{{PoolId: w.id, TokenOutDenom: dout}}, TokenIn: sdk.NewCoin(din, amt), TokenOutMinAmount: sdkmath.OneInt()}
					b0 := balBefore(dout)
					rr := ch.Exec(m)
					if !rr.OK() {
						outcome = "rejected"
						c.Logf("swap-in rejected: %s", rr.ErrString())
						break
					}
					lastWrite = b
					got := ch.Bal(trader.Addr, dout).Sub(b0)
					inAfter := bfNew().Mul(bfI(amt), bfNew().Sub(bf(1), bfDec(w.fee)))
					y := bfNew().Quo(bfI(res[din]), bfNew().Add(bfI(res[din]), inAfter))
					e := bfNew().Quo(wt[din], wt[dout])
					exact := bfNew().Mul(bfI(res[dout]), bfNew().Sub(bf(1), bfPow(y, e)))
					outcome = compare("tokens out", got, exact, lbpTol(bfI(res[dout]), y, e, relW, nil))
				case 1: // swap exact out
					amt := frac(res[dout])
					m := &poolmanagertypes.MsgSwapExactAmountOut{Sender: trader.Addr.String(), Routes: []poolmanagertypes.SwapAmountOutRoute{{PoolId: w.id, TokenInDenom: din}}, TokenOut: sdk.NewCoin(dout, amt), TokenInMaxAmount: sdkmath.NewIntFromBigInt(pow10(30))}
					b0 := balBefore(din)
					rr := ch.Exec(m)
					if !rr.OK() {
						outcome = "rejected"
						c.Logf("swap-out rejected: %s", rr.ErrString())
						break
					}
					lastWrite = b
					got := b0.Sub(ch.Bal(trader.Addr, din))
					y := bfNew().Quo(bfI(res[dout]), bfNew().Sub(bfI(res[dout]), bfI(amt)))
					e := bfNew().Quo(wt[dout], wt[din])
					omf := bfNew().Sub(bf(1), bfDec(w.fee))
					exact := bfNew().Mul(bfI(res[din]), bfNew().Sub(bfPow(y, e), bf(1)))
					exact.Quo(exact, omf)
					outcome = compare("tokens in", got, exact, lbpTol(bfI(res[din]), y, e, relW, omf))
				case 2: // single-asset join, exact tokens in
					amt := frac(res[din])
					m := &gammtypes.MsgJoinSwapExternAmountIn{Sender: trader.Addr.String(), PoolId: w.id, TokenIn: sdk.NewCoin(din, amt), ShareOutMinAmount: sdkmath.OneInt()}
					b0 := balBefore(w.share)
					rr := ch.Exec(m)
					if !rr.OK() {
						outcome = "rejected"
						c.Logf("join-extern-in rejected: %s", rr.ErrString())
						break
					}
					lastWrite = b
					got := ch.Bal(trader.Addr, w.share).Sub(b0)
					nw := bfNew().Quo(wt[din], W)
					feeRatio := bfNew().Sub(bf(1), bfNew().Mul(bfNew().Sub(bf(1), nw), bfDec(w.fee)))
					y := bfNew().Quo(bfNew().Add(bfI(res[din]), bfNew().Mul(bfI(amt), feeRatio)), bfI(res[din]))
					exact := bfNew().Mul(bfI(S), bfNew().Sub(bfPow(y, nw), bf(1)))
					tol := lbpTol(bfI(S), y, nw, relW, nil)
					// the fee ratio itself depends on the normalised weight
					tol.Add(tol, bfNew().Mul(bfNew().Mul(bfI(S), bfNew().Mul(relW, bf(4))), bfNew().Sub(bfPow(y, nw), bf(1))))
					outcome = compare("shares out", got, exact, tol)
				case 3: // single-asset join, exact shares out
					sh := frac(S)
					m := &gammtypes.MsgJoinSwapShareAmountOut{Sender: trader.Addr.String(), PoolId: w.id, TokenInDenom: din, ShareOutAmount: sh, TokenInMaxAmount: sdkmath.NewIntFromBigInt(pow10(30))}
					b0 := balBefore(din)
					rr := ch.Exec(m)
					if !rr.OK() {
						outcome = "rejected"
						c.Logf("join-share-out rejected: %s", rr.ErrString())
						break
					}
					lastWrite = b
					got := b0.Sub(ch.Bal(trader.Addr, din))
					nw := bfNew().Quo(wt[din], W)
					inv := bfNew().Quo(bf(1), nw)
					feeRatio := bfNew().Sub(bf(1), bfNew().Mul(bfNew().Sub(bf(1), nw), bfDec(w.fee)))
					y := bfNew().Quo(bfNew().Add(bfI(S), bfI(sh)), bfI(S))
					exact := bfNew().Mul(bfI(res[din]), bfNew().Sub(bfPow(y, inv), bf(1)))
					exact.Quo(exact, feeRatio)
					tol := lbpTol(bfI(res[din]), y, inv, bfNew().Add(relW, bfNew().Mul(inv, bfScaled(big.NewInt(1), 18))), feeRatio)
					tol.Add(tol, bfNew().Mul(exact, bfNew().Mul(relW, bf(4))))
					outcome = compare("tokens in", got, exact, tol)
				case 4: // single-asset exit, exact tokens out
					amt := frac(res[dout])
					have := ch.Bal(trader.Addr, w.share)
					m := &gammtypes.MsgExitSwapExternAmountOut{Sender: trader.Addr.String(), PoolId: w.id, TokenOut: sdk.NewCoin(dout, amt), ShareInMaxAmount: have}
					rr := ch.Exec(m)
					if !rr.OK() {
						outcome = "rejected"
						c.Logf("exit-extern-out rejected: %s", rr.ErrString())
						break
					}
					lastWrite = b
					got := have.Sub(ch.Bal(trader.Addr, w.share))
					nw := bfNew().Quo(wt[dout], W)
					feeRatio := bfNew().Sub(bf(1), bfNew().Mul(bfNew().Sub(bf(1), nw), bfDec(w.fee)))
					outFee := bfNew().Quo(bfI(amt), feeRatio)
					y := bfNew().Quo(bfNew().Sub(bfI(res[dout]), outFee), bfI(res[dout]))
					if y.Sign() <= 0 {
						outcome = "skip"
						break
					}
					exact := bfNew().Mul(bfI(S), bfNew().Sub(bf(1), bfPow(y, nw)))
					tol := lbpTol(bfI(S), y, nw, relW, nil)
					tol.Add(tol, bfNew().Mul(exact, bfNew().Mul(relW, bf(4))))
					outcome = compare("shares in", got, exact, tol)
				case 8: // single-asset exit, exact shares in: a proportional exit followed by swaps (state change only)
					have := ch.Bal(trader.Addr, w.share)
					if have.LT(sdkmath.NewInt(1000)) {
						outcome = "skip"
						break
					}
					rr := ch.Exec(&gammtypes.MsgExitSwapShareAmountIn{Sender: trader.Addr.String(), PoolId: w.id, TokenOutDenom: dout, ShareInAmount: frac(have), TokenOutMinAmount: sdkmath.OneInt()})
					if !rr.OK() {
						outcome = "rejected"
						break
					}
					lastWrite = b
				case 5: // spot price query: quote per base = (B_q/w_q)/(B_b/w_b)
					sp, err := ch.App.PoolManagerKeeper.RouteCalculateSpotPrice(qctx(ctx), w.id, din, dout)
					if err != nil {
						outcome = "rejected"
						c.Logf("spot price rejected: %v", err)
						break
					}
					exact := bfNew().Quo(bfNew().Quo(bfI(res[din]), wt[din]), bfNew().Quo(bfI(res[dout]), wt[dout]))
					got := bfScaled(sp.BigInt(), 36)
					diff := bfAbs(bfNew().Sub(got, exact))
					// the balancer model rounds spot prices to 8 significant figures: relative 1e-7 plus the grid
					tol := bfNew().Add(bfNew().Mul(exact, bfNew().Add(bf(1.1e-7), bfNew().Mul(relW, bf(2)))), bfScaled(big.NewInt(2), 18))
					if diff.Cmp(tol) > 0 {
						c.Violate("C04.lbp_spot_price", sig, "spot price of %s in %s: %s: query says %s, the scheduled weights give %s", dout, din, describe(), sp, exact.Text('f', 18))
						outcome = "violated"
					}
				case 6: // proportional join
					sh := frac(S)
					rr := ch.Exec(&gammtypes.MsgJoinPool{Sender: trader.Addr.String(), PoolId: w.id, ShareOutAmount: sh})
					if !rr.OK() {
						outcome = "rejected"
						break
					}
					lastWrite = b
				case 7: // proportional exit
					have := ch.Bal(trader.Addr, w.share)
					if have.LT(sdkmath.NewInt(1000)) {
						outcome = "skip"
						break
					}
					rr := ch.Exec(&gammtypes.MsgExitPool{Sender: trader.Addr.String(), PoolId: w.id, ShareInAmount: frac(have)})
					if !rr.OK() {
						outcome = "rejected"
						break
					}
					lastWrite = b
				}
				if outcome == "violated" {
					return
				}
				c.Class("lbp|%s|%s|quiet%d|%s", opName, phase, quiet, outcome)
			}
		}
		if i < 2 {
			c.Sample(map[string]any{"part": "lbp", "denoms": w.denoms, "w0": w.w0, "w1": w.w1, "duration": w.dur.String(), "blocks": nBlocks})
		}
	})
}
