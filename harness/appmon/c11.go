//go:build verif

package main

// C11 — superfluid staking: stake tracks locks, supply is neutral, locks stay bonded.
// Invariant-at-a-hook after each message and each epoch, through staking, superfluid,
// lockup and bank queries; supply ledger from SupplyWithOffset.

import (
	"fmt"
	"math/big"
	"sort"
	"strings"
	"time"

	sdkmath "cosmossdk.io/math"
	sdk "github.com/cosmos/cosmos-sdk/types"

	"github.com/osmosis-labs/osmosis/osmomath"
	clmodel "github.com/osmosis-labs/osmosis/v31/x/concentrated-liquidity/model"
	"github.com/osmosis-labs/osmosis/v31/x/gamm/pool-models/balancer"
	"github.com/osmosis-labs/osmosis/v31/x/lockup"
	gammtypes "github.com/osmosis-labs/osmosis/v31/x/gamm/types"
	lockuptypes "github.com/osmosis-labs/osmosis/v31/x/lockup/types"
	minttypes "github.com/osmosis-labs/osmosis/v31/x/mint/types"
	poolmanagertypes "github.com/osmosis-labs/osmosis/v31/x/poolmanager/types"
	sftypes "github.com/osmosis-labs/osmosis/v31/x/superfluid/types"
	cltypes "github.com/osmosis-labs/osmosis/v31/x/concentrated-liquidity/types"
	"github.com/osmosis-labs/osmosis/v31/zzverif/chain"
	"github.com/osmosis-labs/osmosis/v31/zzverif/vk"
)

type c11Lock struct {
	id        uint64
	owner     int
	denom     string
	val       int       // validator index; -1 when not delegated
	state     string    // delegated | undelegating | unbonding (undelegated and the lock itself unlocking)
	undelAt   time.Time // time of the undelegation
}

type c11Acc struct {
	roundings int // value conversions applied to this (denom, validator) stake since the last refresh
	slack     int64 // extra units allowed until the next refresh (a slash truncates each lock by up to one share unit)
}

// value re-implements the documented conversion: risk-adjusted(round(multiplier × amount)).
func c11Value(mult, minRisk osmomath.Dec, amt sdkmath.Int) sdkmath.Int {
	if mult.IsZero() {
		return sdkmath.ZeroInt()
	}
	x := divHalfEvenBig(new(big.Int).Mul(mult.BigInt(), amt.BigInt()), big.NewInt(1e18))
	cut := divHalfEvenBig(new(big.Int).Mul(x, minRisk.BigInt()), big.NewInt(1e18))
	return sdkmath.NewIntFromBigInt(x.Sub(x, cut))
}

func runC11(c *vk.Ctx) {
	c.R.Rule = "cases = histories with 3 validators, 3 owners, a balancer uosmo/xxx share denom and a concentrated uosmo/xxx full-range share denom enabled as superfluid assets: LockAndSuperfluidDelegate, LockTokens + SuperfluidDelegate, top-ups, SuperfluidUndelegate, SuperfluidUnbondLock, SuperfluidUndelegateAndUnbondLock (partial), CreateFullRangePositionAndSuperfluidDelegate, BeginUnlocking attempts on delegated locks, swaps that move the pool price, 3..8 refresh epochs and jumps past the unbonding period; the minimum risk factor is 0.5 in one history in three and one of 0 / 0.05 / 0.1 / 0.25 / 1/3 / 0.7 otherwise; every fourth history ends with governance removing the share denom from the superfluid assets followed by a refresh (the stake behind its locks must then be gone). After every message and every epoch block: each intermediary account's stake vs the risk-adjusted value of exactly the locks delegated through it (exact right after the refresh, one unit per value conversion in between), exactly one superbonding marker per delegated lock and a superunbonding marker ending undelegation time + unbonding period per undelegating lock, SupplyWithOffset(uosmo) unchanged (minting is switched off in these histories), BeginUnlocking refused on delegated locks, no lock returned before its undelegation matured. distinct_nontrivial counts distinct (operation, outcome, #delegated locks bucket, #undelegating bucket, asset kind, right-after-refresh?) tuples."
	nHist := c.N(720, 3600)
	c.Cases("history", nHist, func(i int, r *vk.Rng) {
		ch := chain.New(chain.Options{Denoms: []string{"xxx"}, NumAccounts: 6, NumValidators: 3, Epochs: map[string]time.Duration{"day": 5 * time.Hour, "week": 6 * time.Hour}})
		defer ch.Close()
		ch.NextBlock(5 * time.Second)
		owners := ch.Accs[:3]
		trader, lp := ch.Accs[3], ch.Accs[4]
		sk, lk := ch.App.SuperfluidKeeper, ch.App.LockupKeeper
		epochID := sk.GetEpochIdentifier(ch.Ctx)
		// no inflation in these histories: the reported supply must then stay put across epochs as well
		ch.App.MintKeeper.SetMinter(ch.Ctx, minttypes.NewMinter(osmomath.ZeroDec()))
		stp, _ := ch.App.StakingKeeper.GetParams(ch.Ctx)
		unbonding := stp.UnbondingTime
		// the risk factor is a governance parameter: two histories in three run with a non-default value
		if i%3 != 0 {
			sp := sk.GetParams(ch.Ctx)
			sp.MinimumRiskFactor = osmomath.MustNewDecFromStr([]string{"0.25", "0.1", "0.7", "0", "0.05", "0.333333333333333333"}[r.Intn(6)])
			sk.SetParams(ch.Ctx, sp)
		}
		// ---- superfluid assets
		bm := balancer.NewMsgCreateBalancerPool(lp.Addr, balancer.NewPoolParams(osmomath.MustNewDecFromStr("0.003"), osmomath.ZeroDec(), nil),
			[]balancer.PoolAsset{{Weight: sdkmath.NewInt(1), Token: sdk.NewCoin("uosmo", sdkmath.NewIntFromBigInt(r.BigMag(9, 14)))}, {Weight: sdkmath.NewInt(1 + r.I64n(3)), Token: sdk.NewCoin("xxx", sdkmath.NewIntFromBigInt(r.BigMag(9, 14)))}}, "")
		if res := ch.Exec(&bm); !res.OK() {
			c.Violate("C11.setup", nil, "pool: %s", res.ErrString())
			return
		}
		balID := ch.App.PoolManagerKeeper.GetNextPoolId(ch.Ctx) - 1
		shareDenom := gammtypes.GetPoolShareDenom(balID)
		if err := sk.AddNewSuperfluidAsset(ch.Ctx, sftypes.SuperfluidAsset{Denom: shareDenom, AssetType: sftypes.SuperfluidAssetTypeLPShare}); err != nil {
			c.Violate("C11.setup", nil, "AddNewSuperfluidAsset: %v", err)
			return
		}
		cm := clmodel.NewMsgCreateConcentratedPool(lp.Addr, "uosmo", "xxx", 100, osmomath.MustNewDecFromStr("0.001"))
		clID := uint64(0)
		clDenom := ""
		if res := ch.Exec(&cm); res.OK() {
			clID = ch.App.PoolManagerKeeper.GetNextPoolId(ch.Ctx) - 1
			clDenom = cltypes.GetConcentratedLockupDenomFromPoolId(clID)
			// the first full-range position sets the price
			ch.Exec(&cltypes.MsgCreatePosition{PoolId: clID, Sender: lp.Addr.String(), LowerTick: cltypes.MinInitializedTick, UpperTick: cltypes.MaxTick, TokensProvided: sdk.NewCoins(sdk.NewCoin("uosmo", sdkmath.NewIntFromBigInt(r.BigMag(9, 13))), sdk.NewCoin("xxx", sdkmath.NewIntFromBigInt(r.BigMag(9, 13)))), TokenMinAmount0: sdkmath.ZeroInt(), TokenMinAmount1: sdkmath.ZeroInt()})
			if err := sk.AddNewSuperfluidAsset(ch.Ctx, sftypes.SuperfluidAsset{Denom: clDenom, AssetType: sftypes.SuperfluidAssetTypeConcentratedShare}); err != nil {
				clDenom = ""
			}
		}
		// owners get pool shares
		for _, o := range owners {
			ch.Exec(&gammtypes.MsgJoinPool{Sender: o.Addr.String(), PoolId: balID, ShareOutAmount: gammtypes.InitPoolSharesSupply.QuoRaw(4), TokenInMaxs: sdk.NewCoins(sdk.NewCoin("uosmo", sdkmath.NewIntWithDecimal(1, 39)), sdk.NewCoin("xxx", sdkmath.NewIntWithDecimal(1, 39)))})
		}
		locks := map[uint64]*c11Lock{}
		accs := map[string]*c11Acc{} // key: denom|validator index
		key := func(denom string, v int) string { return fmt.Sprintf("%s|%d", denom, v) }
		acc := func(denom string, v int) *c11Acc {
			k := key(denom, v)
			if accs[k] == nil {
				accs[k] = &c11Acc{}
			}
			return accs[k]
		}
		supply0 := ch.App.BankKeeper.GetSupplyWithOffset(ch.Ctx, "uosmo").Amount
		crashOut := sdkmath.ZeroInt()
		sig := func(op string) map[string]any { return map[string]any{"op": op} }

		// slashed: a validator has been slashed in this history (every fourth history does it once). The slash itself
		// burns staked tokens (not superfluid's doing) and takes the validator's tokens-per-share rate away from 1,
		// after which undelegations and the downward refresh can be refused with "invalid shares amount" (an
		// observation outside the statement). From then on only what the statement says about the reported supply is
		// checked: no superfluid message or refresh may move it.
		slashed := false
		check := func(op string, afterRefresh bool) bool {
			ctx := ch.Ctx
			c.Eval(1)
			// (3) supply neutrality
			if s := ch.App.BankKeeper.GetSupplyWithOffset(ctx, "uosmo").Amount; !s.Equal(supply0) {
				sg := sig(op)
				sg["after_slash"] = slashed
				c.Violate("C11.supply_not_neutral", sg, "after %s the OSMO supply reported to users moved from %s to %s", op, supply0, s)
				return false
			}
			if slashed {
				c.Class("%s|after-slash|supply-neutral", op)
				return true
			}
			minRisk := sk.GetParams(ctx).MinimumRiskFactor
			// (1) stake per intermediary account
			type agg struct {
				sum sdkmath.Int
				n   int
			}
			want := map[string]*agg{}
			for _, l := range locks {
				if l.state != "delegated" {
					continue
				}
				lock, err := lk.GetLockByID(ctx, l.id)
				if err != nil {
					c.Violate("C11.lock_missing", sig(op), "delegated lock %d cannot be queried: %v", l.id, err)
					return false
				}
				k := key(l.denom, l.val)
				if want[k] == nil {
					want[k] = &agg{sum: sdkmath.ZeroInt()}
				}
				want[k].sum = want[k].sum.Add(lock.Coins[0].Amount)
				want[k].n++
			}
			seen := map[string]bool{}
			for _, ia := range sk.GetAllIntermediaryAccounts(ctx) {
				vi := -1
				for x, v := range ch.Vals {
					if v.OpAddr.String() == ia.ValAddr {
						vi = x
					}
				}
				k := key(ia.Denom, vi)
				seen[k] = true
				valAddr, _ := sdk.ValAddressFromBech32(ia.ValAddr)
				val, err := ch.App.StakingKeeper.GetValidator(ctx, valAddr)
				if err != nil {
					continue
				}
				stake := sdkmath.ZeroInt()
				if del, err := ch.App.StakingKeeper.GetDelegation(ctx, ia.GetAccAddress(), valAddr); err == nil {
					stake = val.TokensFromShares(del.Shares).RoundInt()
				}
				exp := sdkmath.ZeroInt()
				n := 0
				if a := want[k]; a != nil {
					mult := sk.GetOsmoEquivalentMultiplier(ctx, ia.Denom)
					exp = c11Value(mult, minRisk, a.sum)
					n = a.n
				}
				c.Logf("  [%s] %s val%d stake=%s expected=%s locks=%d mult=%s", op, ia.Denom, vi, stake, exp, n, sk.GetOsmoEquivalentMultiplier(ctx, ia.Denom))
				tol := int64(0)
				if !afterRefresh {
					// every conversion rounds twice (to whole uosmo, then the risk cut): up to 3 units per
					// conversion applied since the refresh, plus one per lock for the sum-vs-parts difference
					tol += 3*int64(acc(ia.Denom, vi).roundings) + int64(n) + acc(ia.Denom, vi).slack
				}
				if d := stake.Sub(exp).Abs(); d.GT(sdkmath.NewInt(tol)) {
					s := sig(op)
					s["after_refresh"] = afterRefresh
					own := sdkmath.ZeroInt()
					if a := want[k]; a != nil {
						own, _ = sk.GetSuperfluidOSMOTokens(ctx, ia.Denom, a.sum)
					}
					c.Violate("C11.stake_vs_locks", s, "after %s: intermediary account for (%s, validator %d) has %s staked, the risk-adjusted value of the %d locks delegated through it is %s (allowance %d; module's own conversion of the sum: %s; multiplier %s)", op, ia.Denom, vi, stake, n, exp, tol, own, sk.GetOsmoEquivalentMultiplier(ctx, ia.Denom))
					return false
				}
			}
			for k, a := range want {
				if !seen[k] && a.n > 0 {
					c.Violate("C11.stake_vs_locks", sig(op), "after %s: %d locks are delegated through %s but no intermediary account exists", op, a.n, k)
					return false
				}
			}
			// (2) markers
			nd, nu := 0, 0
			for _, l := range locks {
				sl, found, err := lk.GetSyntheticLockupByUnderlyingLockId(ctx, l.id)
				switch l.state {
				case "delegated":
					nd++
					wantDenom := fmt.Sprintf("%s/superbonding/%s", l.denom, ch.Vals[l.val].OpAddr.String())
					if err != nil || !found || sl.SynthDenom != wantDenom || !sl.EndTime.IsZero() {
						c.Violate("C11.staking_marker", sig(op), "after %s: delegated lock %d should carry exactly the staking marker %s; found=%v marker=%+v err=%v", op, l.id, wantDenom, found, sl, err)
						return false
					}
				case "undelegating", "unbonding":
					if _, err := lk.GetLockByID(ctx, l.id); err != nil {
						continue // already returned; checked below
					}
					end := l.undelAt.Add(unbonding)
					if ctx.BlockTime().Before(end) || found {
						nu++
						wantDenom := fmt.Sprintf("%s/superunbonding/%s", l.denom, ch.Vals[l.val].OpAddr.String())
						// the marker is deleted by the lockup end blocker (every 120th block) once matured
						if found && (sl.SynthDenom != wantDenom || !sl.EndTime.Equal(end)) {
							c.Violate("C11.unstaking_marker", sig(op), "after %s: undelegating lock %d should carry the unstaking marker %s ending %s (undelegated at %s + %s); marker=%+v", op, l.id, wantDenom, end, l.undelAt, unbonding, sl)
							return false
						}
						if !found && ctx.BlockTime().Before(end) {
							c.Violate("C11.unstaking_marker", sig(op), "after %s: undelegating lock %d lost its unstaking marker before %s", op, l.id, end)
							return false
						}
					}
				}
			}
			// (4) nothing is returned before its undelegation matured
			for id, l := range locks {
				if l.state == "delegated" {
					continue
				}
				if _, err := lk.GetLockByID(ctx, id); err != nil {
					if ctx.BlockTime().Before(l.undelAt.Add(unbonding)) {
						c.Violate("C11.returned_too_early", sig(op), "lock %d (undelegated at %s) was withdrawn at %s, before the unbonding period of %s had passed", id, l.undelAt, ctx.BlockTime(), unbonding)
						return false
					}
					delete(locks, id)
				}
			}
			c.Class("%s|del%d|und%d|refresh%v", op, bucket(nd), bucket(nu), afterRefresh)
			return true
		}
		markRounding := func(l *c11Lock) { acc(l.denom, l.val).roundings++ }

		nSteps := c.N(40, 120)
		for step := 0; step < nSteps; step++ {
			oi := r.Intn(len(owners))
			o := owners[oi]
			vi := r.Intn(len(ch.Vals))
			var mine []*c11Lock
			for _, l := range locks {
				if l.owner == oi {
					mine = append(mine, l)
				}
			}
			sort.Slice(mine, func(a, b int) bool { return mine[a].id < mine[b].id })
			pick := func(state string) *c11Lock {
				var cand []*c11Lock
				for _, l := range mine {
					if l.state == state {
						cand = append(cand, l)
					}
				}
				if len(cand) == 0 {
					return nil
				}
				return cand[r.Intn(len(cand))]
			}
			op := ""
			if i%4 == 3 && !slashed && step > nSteps/4 && r.Intn(8) == 0 {
				nDel := 0
				for _, l := range locks {
					if l.state == "delegated" && l.val == vi {
						nDel++
					}
				}
				if nDel > 0 {
					// the way x/slashing does it: a fraction of everything staked with the validator is burned
					consAddr := ch.Vals[vi].ConsAdr
					frac := osmomath.NewDecWithPrec(1+r.I64n(30), 2)
					c.Logf("Slash(validator %d, %s)", vi, frac)
					cctx, write := ch.Ctx.CacheContext()
					if _, err := ch.App.StakingKeeper.Slash(cctx, consAddr, ch.Ctx.BlockHeight()-1, 1000, frac); err == nil {
						write()
						slashed = true
						ch.NextBlock(5 * time.Second)
						supply0 = ch.App.BankKeeper.GetSupplyWithOffset(ch.Ctx, "uosmo").Amount
						c.Class("validator-slash|delegated-locks%d", bucket(nDel))
						continue
					}
				}
			}
			if i%3 == 2 && r.Intn(20) == 0 {
				// validator faults (every third history): a validator is jailed / unjailed through the staking keeper,
				// the way the slashing module does. The statement does not speak about jailing; what is checked is
				// what it does say, in its presence. Slashing is deliberately not injected: once a validator's
				// tokens-per-share rate leaves 1, SuperfluidUndelegate and the downward refresh can fail with
				// "invalid shares amount" (recorded as an observation), which the statement does not cover.
				consAddr := ch.Vals[vi].ConsAdr
				val, verr := ch.App.StakingKeeper.GetValidatorByConsAddr(ch.Ctx, consAddr)
				if verr != nil {
					continue
				}
				if val.IsJailed() {
					op = "validator-unjail"
					c.Logf("Unjail(validator %d)", vi)
					cctx, write := ch.Ctx.CacheContext()
					if err := ch.App.StakingKeeper.Unjail(cctx, consAddr); err == nil {
						write()
					}
				} else {
					op = "validator-jail"
					c.Logf("Jail(validator %d)", vi)
					cctx, write := ch.Ctx.CacheContext()
					if err := ch.App.StakingKeeper.Jail(cctx, consAddr); err == nil {
						write()
					}
				}
				ch.NextBlock(5 * time.Second) // validator set update
				if !check(op, false) {
					return
				}
				continue
			}
			switch r.Intn(12) {
			case 0, 1: // lock and delegate in one message
				have := ch.Bal(o.Addr, shareDenom)
				if !have.IsPositive() {
					continue
				}
				amt := sdkmath.MaxInt(sdkmath.OneInt(), have.QuoRaw(2+r.I64n(1000)))
				if r.Intn(5) == 0 {
					amt = sdkmath.NewInt(1 + r.I64n(1000))
				}
				if r.Intn(3) == 0 {
					// the two-step way, with a lock that lasts longer than the unbonding period
					dur := unbonding + time.Duration(1+r.I64n(30))*24*time.Hour
					op = "LockTokens+SuperfluidDelegate"
					c.Logf("%s(owner %d, %s%s for %s, val %d)", op, oi, amt, shareDenom, dur, vi)
					res := ch.Exec(&lockuptypes.MsgLockTokens{Owner: o.Addr.String(), Duration: dur, Coins: sdk.NewCoins(sdk.NewCoin(shareDenom, amt))})
					if !res.OK() {
						c.Logf("  rejected: %s", trunc(res.ErrString(), 160))
						op += "-rejected"
						break
					}
					id := lockIDFrom(res)
					if ex := locks[id]; ex != nil {
						// topped up an existing lock of the same duration
						markRounding(ex)
						op += "-topup"
						break
					}
					res = ch.Exec(&sftypes.MsgSuperfluidDelegate{Sender: o.Addr.String(), LockId: id, ValAddr: ch.Vals[vi].OpAddr.String()})
					if res.OK() {
						l := &c11Lock{id: id, owner: oi, denom: shareDenom, val: vi, state: "delegated"}
						locks[l.id] = l
						markRounding(l)
					} else {
						// a plain lock that is not delegated: not part of the model; give it back so that it cannot be topped up later
						c.Logf("  delegate rejected: %s", trunc(res.ErrString(), 160))
						ch.Exec(&lockuptypes.MsgBeginUnlocking{Owner: o.Addr.String(), ID: id})
						op += "-rejected"
					}
					break
				}
				op = "LockAndSuperfluidDelegate"
				c.Logf("%s(owner %d, %s%s, val %d)", op, oi, amt, shareDenom, vi)
				res := ch.Exec(&sftypes.MsgLockAndSuperfluidDelegate{Sender: o.Addr.String(), Coins: sdk.NewCoins(sdk.NewCoin(shareDenom, amt)), ValAddr: ch.Vals[vi].OpAddr.String()})
				if res.OK() {
					var rsp sftypes.MsgLockAndSuperfluidDelegateResponse
					unpackResp(res, "MsgLockAndSuperfluidDelegateResponse", &rsp)
					if ex := locks[rsp.ID]; ex != nil {
						// the lock module topped up an existing not-unlocking lock of this owner whose earlier
						// undelegation has matured (marker swept): the whole lock is delegated anew
						ex.state, ex.val = "delegated", vi
						markRounding(ex)
						op += "-redelegate"
					} else {
						l := &c11Lock{id: rsp.ID, owner: oi, denom: shareDenom, val: vi, state: "delegated"}
						locks[l.id] = l
						markRounding(l)
					}
				} else {
					c.Logf("  rejected: %s", trunc(res.ErrString(), 160))
					op += "-rejected"
				}
			case 2: // top up through the lockup module
				l := pick("delegated")
				if l == nil || l.denom != shareDenom {
					continue
				}
				amt := sdkmath.NewIntFromBigInt(r.BigMag(0, 12))
				if ch.Bal(o.Addr, shareDenom).LT(amt) {
					continue
				}
				op = "LockTokens-topup"
				c.Logf("%s(owner %d, lock %d, +%s)", op, oi, l.id, amt)
				res := ch.Exec(&lockuptypes.MsgLockTokens{Owner: o.Addr.String(), Duration: unbonding, Coins: sdk.NewCoins(sdk.NewCoin(shareDenom, amt))})
				if res.OK() {
					if id := lockIDFrom(res); id == l.id {
						markRounding(l)
					} else if locks[id] != nil {
						markRounding(locks[id])
					}
				}
			case 3: // undelegate
				l := pick("delegated")
				if l == nil {
					continue
				}
				op = "SuperfluidUndelegate"
				c.Logf("%s(lock %d)", op, l.id)
				res := ch.Exec(&sftypes.MsgSuperfluidUndelegate{Sender: o.Addr.String(), LockId: l.id})
				if res.OK() {
					markRounding(l)
					l.state, l.undelAt = "undelegating", ch.Ctx.BlockTime()
				} else {
					// observed on the unchanged tree: after a refresh the stake is the value of the SUM of the locks;
					// undelegating them one by one asks for the value of each PART, and the last one can exceed what is
					// left by one unit ("invalid shares amount"). Not covered by the statement: an outcome, not a verdict.
					c.Logf("  rejected: %s", trunc(res.ErrString(), 200))
					c.Count("undelegate_rejected", 1)
					op += "-rejected"
				}
			case 4: // start unlocking an undelegating lock
				l := pick("undelegating")
				if l == nil {
					continue
				}
				op = "SuperfluidUnbondLock"
				c.Logf("%s(lock %d)", op, l.id)
				res := ch.Exec(&sftypes.MsgSuperfluidUnbondLock{Sender: o.Addr.String(), LockId: l.id})
				if res.OK() {
					l.state = "unbonding"
				} else if !ch.Ctx.BlockTime().Before(l.undelAt.Add(unbonding)) {
					// the undelegation has matured and its marker was swept: the lock is an ordinary lock again
					delete(locks, l.id)
					op += "-matured"
				} else {
					c.Violate("C11.valid_op_failed", sig(op), "SuperfluidUnbondLock(lock %d) failed before the undelegation matured: %s", l.id, res.ErrString())
					return
				}
			case 5: // undelegate and unbond, full or partial
				l := pick("delegated")
				if l == nil {
					continue
				}
				lock, err := lk.GetLockByID(ch.Ctx, l.id)
				if err != nil {
					continue
				}
				amt := lock.Coins[0].Amount
				partial := r.Bool() && amt.GT(sdkmath.OneInt())
				if partial {
					amt = sdkmath.NewIntFromBigInt(r.BigBelow(amt.SubRaw(1).BigInt())).AddRaw(1)
				}
				op = "SuperfluidUndelegateAndUnbondLock"
				c.Logf("%s(lock %d, %s of %s)", op, l.id, amt, lock.Coins[0].Amount)
				res := ch.Exec(&sftypes.MsgSuperfluidUndelegateAndUnbondLock{Sender: o.Addr.String(), LockId: l.id, Coin: sdk.NewCoin(l.denom, amt)})
				if res.OK() {
					var rsp sftypes.MsgSuperfluidUndelegateAndUnbondLockResponse
					unpackResp(res, "MsgSuperfluidUndelegateAndUnbondLockResponse", &rsp)
					markRounding(l)
					if partial {
						markRounding(l)
						locks[rsp.LockId] = &c11Lock{id: rsp.LockId, owner: oi, denom: l.denom, val: l.val, state: "unbonding", undelAt: ch.Ctx.BlockTime()}
						op += "-partial"
					} else {
						l.state, l.undelAt = "unbonding", ch.Ctx.BlockTime()
					}
				} else {
					c.Logf("  rejected: %s", trunc(res.ErrString(), 200))
					op += "-rejected"
				}
			case 6: // a delegated lock must not start unlocking through the lockup module
				l := pick("delegated")
				if l == nil {
					continue
				}
				op = "BeginUnlocking-on-delegated"
				res := ch.Exec(&lockuptypes.MsgBeginUnlocking{Owner: o.Addr.String(), ID: l.id})
				if res.OK() {
					c.Violate("C11.begin_unlock_allowed", sig(op), "MsgBeginUnlocking succeeded on lock %d which is superfluid-delegated", l.id)
					return
				}
				res = ch.Exec(&lockuptypes.MsgBeginUnlocking{Owner: o.Addr.String(), ID: l.id, Coins: sdk.NewCoins(sdk.NewCoin(l.denom, sdkmath.OneInt()))})
				if res.OK() {
					c.Violate("C11.begin_unlock_allowed", sig(op), "partial MsgBeginUnlocking succeeded on lock %d which is superfluid-delegated", l.id)
					return
				}
			case 7: // concentrated full-range position delegated in one message
				if clDenom == "" {
					continue
				}
				op = "CreateFullRangePositionAndSuperfluidDelegate"
				coins := sdk.NewCoins(sdk.NewCoin("uosmo", sdkmath.NewIntFromBigInt(r.BigMag(6, 12))), sdk.NewCoin("xxx", sdkmath.NewIntFromBigInt(r.BigMag(6, 12))))
				c.Logf("%s(owner %d, %s, val %d)", op, oi, coins, vi)
				res := ch.Exec(&sftypes.MsgCreateFullRangePositionAndSuperfluidDelegate{Sender: o.Addr.String(), Coins: coins, ValAddr: ch.Vals[vi].OpAddr.String(), PoolId: clID})
				if res.OK() {
					var rsp sftypes.MsgCreateFullRangePositionAndSuperfluidDelegateResponse
					unpackResp(res, "MsgCreateFullRangePositionAndSuperfluidDelegateResponse", &rsp)
					l := &c11Lock{id: rsp.LockID, owner: oi, denom: clDenom, val: vi, state: "delegated"}
					locks[l.id] = l
					markRounding(l)
				} else {
					c.Logf("  rejected: %s", trunc(res.ErrString(), 200))
					op += "-rejected"
				}
			case 8, 9: // move the pool price
				op = "swap"
				din, dout := "uosmo", "xxx"
				if r.Bool() {
					din, dout = dout, din
				}
				pid := balID
				if clID != 0 && r.Bool() {
					pid = clID
				}
				bal := ch.Bal(poolmanagertypes.NewPoolAddress(pid), din)
				if r.Intn(8) == 0 {
					// a crash (xxx dumped into the pool, the share value in OSMO collapses to dust, small locks become
					// worthless and their stake is refreshed to zero) or, after one, the recovery (the OSMO that the
					// crash took out is sold back, the price returns to about where it was)
					pid = balID
					if crashOut.IsNil() || !crashOut.IsPositive() {
						op = "swap-crash"
						bx := ch.Bal(poolmanagertypes.NewPoolAddress(pid), "xxx")
						before := ch.Bal(trader.Addr, "uosmo")
						ch.Exec(&poolmanagertypes.MsgSwapExactAmountIn{Sender: trader.Addr.String(), Routes: []poolmanagertypes.SwapAmountInRoute{{PoolId: pid, TokenOutDenom: "uosmo"}}, TokenIn: sdk.NewCoin("xxx", bx.Mul(sdkmath.NewIntFromBigInt(r.BigMag(2, 9)))), TokenOutMinAmount: sdkmath.OneInt()})
						crashOut = ch.Bal(trader.Addr, "uosmo").Sub(before)
					} else {
						op = "swap-recover"
						ch.Exec(&poolmanagertypes.MsgSwapExactAmountIn{Sender: trader.Addr.String(), Routes: []poolmanagertypes.SwapAmountInRoute{{PoolId: pid, TokenOutDenom: "xxx"}}, TokenIn: sdk.NewCoin("uosmo", crashOut), TokenOutMinAmount: sdkmath.OneInt()})
						crashOut = sdkmath.ZeroInt()
					}
				} else if bal.IsPositive() {
					ch.Exec(&poolmanagertypes.MsgSwapExactAmountIn{Sender: trader.Addr.String(), Routes: []poolmanagertypes.SwapAmountInRoute{{PoolId: pid, TokenOutDenom: dout}}, TokenIn: sdk.NewCoin(din, sdkmath.MaxInt(sdkmath.OneInt(), bal.QuoRaw(3+r.I64n(100)))), TokenOutMinAmount: sdkmath.OneInt()})
				}
			default: // time: a block, an epoch, or a jump past the unbonding period
				var dt time.Duration
				switch r.Intn(4) {
				case 0:
					dt = time.Duration(r.I64n(int64(time.Hour)))
				case 1:
					dt = unbonding + time.Duration(r.I64n(int64(24*time.Hour)))
				default:
					info := ch.App.EpochsKeeper.GetEpochInfo(ch.Ctx, epochID)
					dt = info.CurrentEpochStartTime.Add(info.Duration).Sub(ch.Ctx.BlockTime()) + time.Second
					if dt < 0 {
						dt = time.Second
					}
				}
				before := ch.App.EpochsKeeper.GetEpochInfo(ch.Ctx, epochID).CurrentEpoch
				ch.NextBlock(dt)
				ch.NextBlock(time.Second)
				op = "time"
				if r.Intn(3) == 0 {
					// matured locks and markers are swept in the end blocker of every 120th block: run it for real
					h := (ch.Ctx.BlockHeight()/120 + 1) * 120
					lockup.EndBlocker(ch.Ctx.WithBlockHeight(h), *ch.App.LockupKeeper)
					op = "time+sweep"
				}
				ei := ch.App.EpochsKeeper.GetEpochInfo(ch.Ctx, epochID)
				c.Logf("time +%s: refresh epoch %d -> %d (start height %d, now height %d), superfluid epoch id %q", dt, before, ei.CurrentEpoch, ei.CurrentEpochStartHeight, ch.Ctx.BlockHeight(), sk.GetEpochIdentifier(ch.Ctx))
				refreshed := ei.CurrentEpoch != before
				if refreshed {
					// the refresh ran in the begin blocker of the block that started the new epoch; one more block may
					// have been produced since, without superfluid messages: stakes must be exact
					for _, a := range accs {
						a.roundings = 0
						a.slack = 0
					}
					if !check("epoch", true) {
						return
					}
					// matured unlocks are swept every 120 blocks only
					continue
				}
			}
			if op == "" {
				continue
			}
			if !check(strings.TrimSuffix(op, "-rejected"), false) {
				return
			}
		}
		if i%4 == 1 && !slashed {
			// governance removes the share denom from the superfluid assets (what RemoveSuperfluidAssetsProposal does):
			// its locks are worth nothing from the next refresh on, so the stake behind them must be gone after it
			if asset, err := sk.GetSuperfluidAsset(ch.Ctx, shareDenom); err == nil && asset.Denom == shareDenom {
				nDel := 0
				for _, l := range locks {
					if l.state == "delegated" && l.denom == shareDenom {
						nDel++
					}
				}
				c.Logf("governance removes superfluid asset %s (%d delegated locks)", shareDenom, nDel)
				sk.BeginUnwindSuperfluidAsset(ch.Ctx, 0, asset)
				info := ch.App.EpochsKeeper.GetEpochInfo(ch.Ctx, epochID)
				dt := info.CurrentEpochStartTime.Add(info.Duration).Sub(ch.Ctx.BlockTime()) + time.Second
				if dt < 0 {
					dt = time.Second
				}
				before := info.CurrentEpoch
				ch.NextBlock(dt)
				ch.NextBlock(time.Second)
				if ch.App.EpochsKeeper.GetEpochInfo(ch.Ctx, epochID).CurrentEpoch != before {
					for _, a := range accs {
						a.roundings = 0
						a.slack = 0
					}
					if !check(fmt.Sprintf("asset-removed+epoch|del%d", bucket(nDel)), true) {
						return
					}
				}
			}
		}
		if i < 2 {
			c.Sample(map[string]any{"steps": nSteps, "validators": len(ch.Vals), "share_denom": shareDenom, "cl_denom": clDenom, "locks_at_end": len(locks), "unbonding": unbonding.String()})
		}
	})
}

var _ = chain.Bond
