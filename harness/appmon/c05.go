//go:build verif

package main

// C05 — router: multi-hop equals composition, estimates equal execution, limits hold.
// O-twin on discarded branches of one state + balance deltas of the sender.

import (
	"fmt"
	"time"

	sdkmath "cosmossdk.io/math"
	sdk "github.com/cosmos/cosmos-sdk/types"

	pmclient "github.com/osmosis-labs/osmosis/v31/x/poolmanager/client"
	pmquery "github.com/osmosis-labs/osmosis/v31/x/poolmanager/client/queryproto"
	poolmanagertypes "github.com/osmosis-labs/osmosis/v31/x/poolmanager/types"
	"github.com/osmosis-labs/osmosis/v31/zzverif/chain"
	"github.com/osmosis-labs/osmosis/v31/zzverif/vk"
)

func snapshotDiff(a, b map[string]sdk.Coins) string {
	for addr, x := range a {
		if !x.Equal(b[addr]) {
			return fmt.Sprintf("%s: %s vs %s", addr, x, b[addr])
		}
	}
	return ""
}

func runC05(c *vk.Ctx) {
	c.R.Rule = "cases = histories over the pool zoo of C02 (balancer, stableswap and concentrated pools, random per-pair taker fees 0..5%, default taker fee, reduced-fee whitelist) in which, after arbitrary prior activity, routed swaps over 1..4 distinct pools are probed on discarded branches: (i) routed exact-in vs the hops executed one by one; routed exact-out vs backward single-hop estimates + forward single-hop exact-out; (ii) split routes vs their legs executed in order; (iii) estimate vs execution with a digest of the pool stores around the estimate; (iv) limits set to estimate−1 / estimate / estimate+1: a successful swap's balance deltas must respect TokenOutMinAmount / TokenInMaxAmount (total paid by the sender, taker fee included), and the accept/reject side must match the estimate. distinct_nontrivial counts distinct (probe kind, pool kinds of the route, taker fee on the route?, whitelisted sender?, limit offset, outcome) tuples."
	nHist := c.N(720, 7200)
	probesPer := c.N(24, 80)
	c.Cases("history", nHist, func(i int, r *vk.Rng) {
		w := newGMWorld(c, r)
		defer w.close()
		q := pmclient.NewQuerier(w.ch.App.PoolManagerKeeper)
		for pr := 0; pr < probesPer; pr++ {
			// arbitrary prior activity
			for k := 0; k < 2; k++ {
				if msg, _, _, _ := w.randomMsg(); msg != nil {
					w.ch.Exec(msg)
				}
			}
			if r.Intn(4) == 0 {
				w.governance()
			}
			ai := r.Intn(len(w.actors))
			actor := w.actors[ai]
			din, route, ps := w.randomRoute(4)
			if route == nil {
				continue
			}
			outRoute, dout := toOutRoute(din, route)
			kind := routeKind(ps)
			ctx := w.ch.Ctx
			// balance deltas identify what the sender paid / received only when no denom repeats along the path
			seen := map[string]bool{din: true}
			repeats := false
			for _, h := range route {
				if seen[h.TokenOutDenom] {
					repeats = true
				}
				seen[h.TokenOutDenom] = true
			}
			// estimates are promised only for routes that visit each pool at most once
			revisits := false
			seenPool := map[uint64]bool{}
			for _, h := range route {
				if seenPool[h.PoolId] {
					revisits = true
				}
				seenPool[h.PoolId] = true
			}
			wl := ai == w.whitelisted
			hasTaker := false
			cur := din
			for _, h := range route {
				f, _ := w.ch.App.PoolManagerKeeper.GetTradingPairTakerFee(ctx, cur, h.TokenOutDenom)
				if f.IsPositive() {
					hasTaker = true
				}
				cur = h.TokenOutDenom
			}
			sig := func(probe string) map[string]any {
				return map[string]any{"probe": probe, "route": kind, "taker_fee_positive": hasTaker, "whitelisted": wl, "hops": len(route)}
			}
			amtIn := w.tradeAmount(ps[0], din)
			c.Eval(1)
			probe := r.Intn(4)
			if (repeats || revisits) && probe >= 2 {
				probe -= 2 // the limit probes are built on the estimate
			}
			switch probe {
			case 0: // (i)+(iii) exact-in: routed vs hop by hop, estimate vs execution
				before := w.ch.Digest(ctx, "gamm", "concentratedliquidity", "bank", "poolmanager")
				est, estErr := q.EstimateSwapExactAmountIn(qctx(ctx), pmquery.EstimateSwapExactAmountInRequest{TokenIn: sdk.NewCoin(din, amtIn).String(), Routes: route})
				if w.ch.Digest(ctx, "gamm", "concentratedliquidity", "bank", "poolmanager") != before {
					c.Violate("C05.estimate_changed_state", sig("exact-in"), "EstimateSwapExactAmountIn over %v changed the state", route)
					return
				}
				fa := w.ch.Fork()
				ra := w.ch.ExecOn(fa, &poolmanagertypes.MsgSwapExactAmountIn{Sender: actor.Addr.String(), Routes: route, TokenIn: sdk.NewCoin(din, amtIn), TokenOutMinAmount: sdkmath.OneInt()})
				fb := w.ch.Fork()
				okB := true
				curIn := sdk.NewCoin(din, amtIn)
				var lastOut sdkmath.Int
				for _, h := range route {
					rb := w.ch.ExecOn(fb, &poolmanagertypes.MsgSwapExactAmountIn{Sender: actor.Addr.String(), Routes: []poolmanagertypes.SwapAmountInRoute{h}, TokenIn: curIn, TokenOutMinAmount: sdkmath.OneInt()})
					if !rb.OK() {
						okB = false
						break
					}
					var rsp poolmanagertypes.MsgSwapExactAmountInResponse
					unpackResp(rb, "MsgSwapExactAmountInResponse", &rsp)
					lastOut = rsp.TokenOutAmount
					curIn = sdk.NewCoin(h.TokenOutDenom, rsp.TokenOutAmount)
				}
				if ra.OK() != okB {
					c.Violate("C05.composition", sig("exact-in"), "routed exact-in of %s%s over %v succeeded=%v but the hops one after another succeeded=%v (%s)", amtIn, din, route, ra.OK(), okB, trunc(ra.ErrString(), 200))
					return
				}
				if !ra.OK() {
					c.Class("exact-in|%s|taker%v|wl%v|rejected", kind, hasTaker, wl)
					continue
				}
				if d := snapshotDiff(w.balances(fa), w.balances(fb)); d != "" {
					c.Violate("C05.composition", sig("exact-in"), "routed exact-in of %s%s over %v and the same hops executed one by one end in different balances: %s", amtIn, din, route, d)
					return
				}
				var rsp poolmanagertypes.MsgSwapExactAmountInResponse
				unpackResp(ra, "MsgSwapExactAmountInResponse", &rsp)
				if !rsp.TokenOutAmount.Equal(lastOut) {
					c.Violate("C05.composition", sig("exact-in"), "routed response %s differs from the last hop's %s", rsp.TokenOutAmount, lastOut)
					return
				}
				// the estimate query knows no sender: for a sender on the reduced-fee whitelist it legitimately differs
				if !revisits && !(wl && hasTaker) && (estErr != nil || !est.TokenOutAmount.Equal(rsp.TokenOutAmount)) {
					c.Violate("C05.estimate_vs_execution", sig("exact-in"), "exact-in %s%s over %v executed with %s, estimate on the same state: %v (%v)", amtIn, din, route, rsp.TokenOutAmount, est, estErr)
					return
				}
				c.Class("exact-in|%s|taker%v|wl%v|revisit%v|ok", kind, hasTaker, wl, revisits)
			case 1: // (i)+(iii) exact-out: routed vs backward estimates + forward exact-out hops
				last := ps[len(ps)-1]
				amtOut := sdkmath.MaxInt(sdkmath.OneInt(), w.ch.Bal(last.addr, dout).QuoRaw(20+r.I64n(100000)))
				huge := sdkmath.NewIntWithDecimal(1, 60)
				before := w.ch.Digest(ctx, "gamm", "concentratedliquidity", "bank", "poolmanager")
				est, estErr := q.EstimateSwapExactAmountOut(qctx(ctx), pmquery.EstimateSwapExactAmountOutRequest{TokenOut: sdk.NewCoin(dout, amtOut).String(), Routes: outRoute})
				if w.ch.Digest(ctx, "gamm", "concentratedliquidity", "bank", "poolmanager") != before {
					c.Violate("C05.estimate_changed_state", sig("exact-out"), "EstimateSwapExactAmountOut over %v changed the state", outRoute)
					return
				}
				fa := w.ch.Fork()
				b0 := w.ch.BalOn(fa, actor.Addr, din)
				ra := w.ch.ExecOn(fa, &poolmanagertypes.MsgSwapExactAmountOut{Sender: actor.Addr.String(), Routes: outRoute, TokenOut: sdk.NewCoin(dout, amtOut), TokenInMaxAmount: huge})
				if !ra.OK() {
					c.Class("exact-out|%s|taker%v|wl%v|rejected", kind, hasTaker, wl)
					continue
				}
				var rsp poolmanagertypes.MsgSwapExactAmountOutResponse
				unpackResp(ra, "MsgSwapExactAmountOutResponse", &rsp)
				paid := b0.Sub(w.ch.BalOn(fa, actor.Addr, din))
				if len(route) == 1 && !paid.Equal(rsp.TokenInAmount) {
					c.Violate("C05.response_vs_balance", sig("exact-out"), "exact-out over %v reports %s charged, the sender's %s balance fell by %s", outRoute, rsp.TokenInAmount, din, paid)
					return
				}
				if revisits {
					// exact-out over a pool visited twice: neither the estimate nor "the hops one after another" is
					// well defined by the statement; the conservation side of such swaps is C02's
					c.Class("exact-out|%s|taker%v|wl%v|revisit-ok", kind, hasTaker, wl)
					continue
				}
				if !(wl && hasTaker) && (estErr != nil || !est.TokenInAmount.Equal(rsp.TokenInAmount)) {
					c.Violate("C05.estimate_vs_execution", sig("exact-out"), "exact-out %s%s over %v executed with %s in, estimate on the same state: %v (%v)", amtOut, dout, outRoute, rsp.TokenInAmount, est, estErr)
					return
				}
				// composition: needed inputs from the last hop backwards (single-hop estimates), then forward single hops
				fb := w.ch.Fork()
				need := make([]sdk.Coin, len(outRoute)+1)
				need[len(outRoute)] = sdk.NewCoin(dout, amtOut)
				okEst := true
				for h := len(outRoute) - 1; h >= 0; h-- {
					e, err := q.EstimateSwapExactAmountOut(qctx(fb), pmquery.EstimateSwapExactAmountOutRequest{TokenOut: need[h+1].String(), Routes: []poolmanagertypes.SwapAmountOutRoute{outRoute[h]}})
					if err != nil {
						okEst = false
						break
					}
					need[h] = sdk.NewCoin(outRoute[h].TokenInDenom, e.TokenInAmount)
				}
				if okEst && !wl {
					okB := true
					for h := 0; h < len(outRoute); h++ {
						rb := w.ch.ExecOn(fb, &poolmanagertypes.MsgSwapExactAmountOut{Sender: actor.Addr.String(), Routes: []poolmanagertypes.SwapAmountOutRoute{outRoute[h]}, TokenOut: need[h+1], TokenInMaxAmount: huge})
						if !rb.OK() {
							okB = false
							break
						}
					}
					if okB {
						if d := snapshotDiff(w.balances(fa), w.balances(fb)); d != "" {
							c.Violate("C05.composition", sig("exact-out"), "routed exact-out of %s%s over %v and the hops executed one by one (inputs from backward single-hop estimates) end in different balances: %s", amtOut, dout, outRoute, d)
							return
						}
						c.Count("exact_out_compositions", 1)
					}
				}
				c.Class("exact-out|%s|taker%v|wl%v|ok", kind, hasTaker, wl)
			case 2: // (iv) limits around the estimate, exact-in
				if wl && hasTaker {
					c.Class("limit-in|%s|whitelisted-skip", kind)
					continue
				}
				est, estErr := q.EstimateSwapExactAmountIn(qctx(ctx), pmquery.EstimateSwapExactAmountInRequest{TokenIn: sdk.NewCoin(din, amtIn).String(), Routes: route})
				if estErr != nil {
					c.Class("limit-in|%s|estimate-rejected", kind)
					continue
				}
				if ru := w.ch.ExecOn(w.ch.Fork(), &poolmanagertypes.MsgSwapExactAmountIn{Sender: actor.Addr.String(), Routes: route, TokenIn: sdk.NewCoin(din, amtIn), TokenOutMinAmount: sdkmath.OneInt()}); !ru.OK() {
					c.Class("limit-in|%s|rejected", kind)
					continue
				}
				for _, off := range []int64{-1, 0, 1} {
					minOut := est.TokenOutAmount.AddRaw(off)
					if !minOut.IsPositive() {
						continue
					}
					f := w.ch.Fork()
					bo := w.ch.BalOn(f, actor.Addr, dout)
					bi := w.ch.BalOn(f, actor.Addr, din)
					res := w.ch.ExecOn(f, &poolmanagertypes.MsgSwapExactAmountIn{Sender: actor.Addr.String(), Routes: route, TokenIn: sdk.NewCoin(din, amtIn), TokenOutMinAmount: minOut})
					c.Eval(1)
					s := sig("limit-exact-in")
					s["offset"] = off
					if res.OK() {
						got := w.ch.BalOn(f, actor.Addr, dout).Sub(bo)
						if din == dout {
							got = got.Add(amtIn)
						}
						if got.LT(minOut) {
							c.Violate("C05.min_out", s, "MsgSwapExactAmountIn over %v with TokenOutMinAmount %s succeeded but the sender's %s balance rose by only %s", route, minOut, dout, got)
							return
						}
						if spent := bi.Sub(w.ch.BalOn(f, actor.Addr, din)); spent.GT(amtIn) && din != dout {
							c.Violate("C05.exact_in_overspent", s, "exact-in swap of %s%s took %s from the sender", amtIn, din, spent)
							return
						}
						if off > 0 {
							c.Violate("C05.limit_not_enforced", s, "exact-in over %v: estimate %s, a minimum of %s was accepted", route, est.TokenOutAmount, minOut)
							return
						}
					} else if off <= 0 {
						c.Violate("C05.limit_rejected_valid", s, "exact-in over %v: estimate %s, a minimum of %s was rejected: %s", route, est.TokenOutAmount, minOut, trunc(res.ErrString(), 200))
						return
					}
					c.Class("limit-in|%s|taker%v|wl%v|off%d|ok%v", kind, hasTaker, wl, off, res.OK())
				}
			case 3: // (iv) limits around the estimate, exact-out
				last := ps[len(ps)-1]
				amtOut := sdkmath.MaxInt(sdkmath.OneInt(), w.ch.Bal(last.addr, dout).QuoRaw(20+r.I64n(100000)))
				est, estErr := q.EstimateSwapExactAmountOut(qctx(ctx), pmquery.EstimateSwapExactAmountOutRequest{TokenOut: sdk.NewCoin(dout, amtOut).String(), Routes: outRoute})
				if estErr != nil {
					c.Class("limit-out|%s|estimate-rejected", kind)
					continue
				}
				// what the sender pays in total = what an unlimited execution takes from the balance
				fu := w.ch.Fork()
				b0 := w.ch.BalOn(fu, actor.Addr, din)
				ru := w.ch.ExecOn(fu, &poolmanagertypes.MsgSwapExactAmountOut{Sender: actor.Addr.String(), Routes: outRoute, TokenOut: sdk.NewCoin(dout, amtOut), TokenInMaxAmount: sdkmath.NewIntWithDecimal(1, 60)})
				if !ru.OK() {
					c.Class("limit-out|%s|rejected", kind)
					continue
				}
				total := b0.Sub(w.ch.BalOn(fu, actor.Addr, din))
				for _, off := range []int64{-1, 0, 1} {
					maxIn := total.AddRaw(off)
					if !maxIn.IsPositive() {
						continue
					}
					f := w.ch.Fork()
					bi := w.ch.BalOn(f, actor.Addr, din)
					res := w.ch.ExecOn(f, &poolmanagertypes.MsgSwapExactAmountOut{Sender: actor.Addr.String(), Routes: outRoute, TokenOut: sdk.NewCoin(dout, amtOut), TokenInMaxAmount: maxIn})
					c.Eval(1)
					s := sig("limit-exact-out")
					s["offset"] = off
					s["kind"] = "exact_out"
					if len(route) == 1 {
						s["route_shape"] = "single"
					} else {
						s["route_shape"] = "multi"
					}
					if res.OK() {
						spent := bi.Sub(w.ch.BalOn(f, actor.Addr, din))
						if spent.GT(maxIn) && din != dout {
							c.Violate("C05.max_in", s, "MsgSwapExactAmountOut over %v for %s%s with TokenInMaxAmount %s succeeded but took %s%s from the sender in total (estimate %s)", outRoute, amtOut, dout, maxIn, spent, din, est.TokenInAmount)
							return
						}
					} else if off >= 0 {
						c.Violate("C05.limit_rejected_valid", s, "exact-out over %v: an unlimited execution takes %s in total, a maximum of %s was rejected: %s", outRoute, total, maxIn, trunc(res.ErrString(), 200))
						return
					}
					c.Class("limit-out|%s|taker%v|wl%v|off%d|ok%v", kind, hasTaker, wl, off, res.OK())
				}
			}
			// (ii) split routes every few probes
			if pr%4 == 3 {
				if !c05Split(c, w, actor, sig) {
					return
				}
			}
			if r.Intn(10) == 0 {
				w.ch.NextBlock(time.Duration(5+r.Intn(40)) * time.Second)
			}
		}
		if i < 2 {
			var ps []string
			for _, p := range w.pools {
				ps = append(ps, fmt.Sprintf("%d:%s%v", p.id, p.kind, p.denoms))
			}
			c.Sample(map[string]any{"pools": ps, "probes": probesPer, "whitelisted_actor": w.whitelisted})
		}
	})
}

func c05Split(c *vk.Ctx, w *gmWorld, actor chain.Account, sig func(string) map[string]any) bool {
	r := w.r
	din, route, ps := w.randomRoute(2)
	if route == nil {
		return true
	}
	dout := route[len(route)-1].TokenOutDenom
	legs := []poolmanagertypes.SwapAmountInSplitRoute{{Pools: route, TokenInAmount: w.tradeAmount(ps[0], din)}}
	used := map[uint64]bool{}
	for _, p := range ps {
		used[p.id] = true
	}
	for k := 0; k < 2; k++ {
		if alt := w.poolWith(din, dout, used); alt != nil {
			legs = append(legs, poolmanagertypes.SwapAmountInSplitRoute{Pools: []poolmanagertypes.SwapAmountInRoute{{PoolId: alt.id, TokenOutDenom: dout}}, TokenInAmount: w.tradeAmount(alt, din)})
			used[alt.id] = true
		}
	}
	if len(legs) < 2 && r.Intn(2) == 0 {
		return true
	}
	c.Eval(1)
	fa := w.ch.Fork()
	ra := w.ch.ExecOn(fa, &poolmanagertypes.MsgSplitRouteSwapExactAmountIn{Sender: actor.Addr.String(), Routes: legs, TokenInDenom: din, TokenOutMinAmount: sdkmath.OneInt()})
	fb := w.ch.Fork()
	okB := true
	sum := sdkmath.ZeroInt()
	for _, l := range legs {
		// a leg alone may legitimately pay out 0 (the split message only requires a positive total): min 1 is
		// what a stand-alone message needs, so a leg that cannot pay a single unit makes the comparison moot
		rb := w.ch.ExecOn(fb, &poolmanagertypes.MsgSwapExactAmountIn{Sender: actor.Addr.String(), Routes: l.Pools, TokenIn: sdk.NewCoin(din, l.TokenInAmount), TokenOutMinAmount: sdkmath.OneInt()})
		if !rb.OK() {
			okB = false
			break
		}
		var rsp poolmanagertypes.MsgSwapExactAmountInResponse
		unpackResp(rb, "MsgSwapExactAmountInResponse", &rsp)
		sum = sum.Add(rsp.TokenOutAmount)
	}
	if !ra.OK() || !okB {
		c.Class("split|%d-legs|rejected", len(legs))
		return true
	}
	var rsp poolmanagertypes.MsgSplitRouteSwapExactAmountInResponse
	unpackResp(ra, "MsgSplitRouteSwapExactAmountInResponse", &rsp)
	if !rsp.TokenOutAmount.Equal(sum) {
		c.Violate("C05.split_sum", sig("split"), "split route over %d legs returned %s, its legs executed in order return %s", len(legs), rsp.TokenOutAmount, sum)
		return false
	}
	if d := snapshotDiff(w.balances(fa), w.balances(fb)); d != "" {
		c.Violate("C05.split_sum", sig("split"), "split route and its legs executed in order end in different balances: %s", d)
		return false
	}
	c.Class("split|%d-legs|ok", len(legs))
	return true
}
