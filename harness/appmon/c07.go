//go:build verif

package main

// C07 — concentrated pool bookkeeping always agrees with its positions.
// Invariant-at-a-hook after every operation, from the public queries only.

import (
	"fmt"
	"math/big"

	sdk "github.com/cosmos/cosmos-sdk/types"

	clquery "github.com/osmosis-labs/osmosis/v31/x/concentrated-liquidity/client/queryproto"
	"github.com/osmosis-labs/osmosis/v31/zzverif/vk"
)

// c07Check returns "" or a (check name, message) describing the first disagreement.
func c07Check(w *clWorld, ctx sdk.Context) (string, string) {
	k := w.ch.App.ConcentratedLiquidityKeeper
	st := clReadState(w, ctx)
	if st == nil {
		return "C07.query_error", "all-ticks query failed"
	}
	// positions as the queries report them
	ids, err := k.GetPositionIDsByPoolID(ctx, w.poolID)
	if err != nil {
		return "C07.query_error", fmt.Sprintf("positions-by-pool query failed: %v", err)
	}
	type qp struct {
		lower, upper int64
		liq          *big.Rat
		owner        string
	}
	qpos := map[uint64]qp{}
	for _, id := range ids {
		p, err := k.GetPosition(ctx, id)
		if err != nil {
			return "C07.query_error", fmt.Sprintf("position %d listed for the pool but GetPosition fails: %v", id, err)
		}
		qpos[id] = qp{p.LowerTick, p.UpperTick, ratD(p.Liquidity), p.Address}
	}
	// identity: ids / owners / ranges only change through the operations the workload performed
	if len(qpos) != len(w.pos) {
		return "C07.position_set", fmt.Sprintf("pool reports %d positions, the history created/kept %d", len(qpos), len(w.pos))
	}
	for id, m := range w.pos {
		q, ok := qpos[id]
		if !ok {
			return "C07.position_set", fmt.Sprintf("position %d is missing from the pool's position list", id)
		}
		if q.lower != m.lower || q.upper != m.upper || q.owner != w.lps[m.owner].Addr.String() {
			return "C07.position_identity", fmt.Sprintf("position %d is now [%d,%d) owned by %s; recorded [%d,%d) owner %s", id, q.lower, q.upper, q.owner, m.lower, m.upper, w.lps[m.owner].Addr)
		}
		if q.liq.Cmp(ratD(m.liq)) != 0 {
			return "C07.position_liquidity", fmt.Sprintf("position %d liquidity %s, responses so far imply %s", id, q.liq.FloatString(18), m.liq)
		}
	}
	// per-user view agrees with the per-pool view
	for oi, a := range w.lps {
		up, err := k.GetUserPositions(ctx, a.Addr, w.poolID)
		if err != nil {
			return "C07.query_error", fmt.Sprintf("user positions query failed: %v", err)
		}
		n := 0
		for _, m := range w.pos {
			if m.owner == oi {
				n++
			}
		}
		if len(up) != n {
			return "C07.position_set", fmt.Sprintf("owner %d has %d positions by the user query, %d by the history", oi, len(up), n)
		}
	}
	if len(qpos) == 0 {
		if st.sqrtP.Sign() != 0 || st.tick != 0 || st.liq.Sign() != 0 || len(st.ticks) != 0 {
			return "C07.empty_pool", fmt.Sprintf("pool without positions has sqrt price %s tick %d liquidity %s and %d ticks", st.sqrtP.FloatString(18), st.tick, st.liq.FloatString(18), len(st.ticks))
		}
		return "", ""
	}
	// active liquidity
	act := new(big.Rat)
	gross := map[int64]*big.Rat{}
	net := map[int64]*big.Rat{}
	add := func(m map[int64]*big.Rat, t int64, v *big.Rat) {
		if m[t] == nil {
			m[t] = new(big.Rat)
		}
		m[t].Add(m[t], v)
	}
	for _, q := range qpos {
		if q.lower <= st.tick && st.tick < q.upper {
			act.Add(act, q.liq)
		}
		add(gross, q.lower, q.liq)
		add(gross, q.upper, q.liq)
		add(net, q.lower, q.liq)
		add(net, q.upper, new(big.Rat).Neg(q.liq))
	}
	if act.Cmp(st.liq) != 0 {
		return "C07.active_liquidity", fmt.Sprintf("pool liquidity %s at tick %d, Σ liquidity of positions containing the tick %s", st.liq.FloatString(18), st.tick, act.FloatString(18))
	}
	// ticks
	if len(st.ticks) != len(gross) {
		return "C07.tick_set", fmt.Sprintf("%d ticks stored, positions use %d distinct boundaries", len(st.ticks), len(gross))
	}
	for _, t := range st.ticks {
		g, ok := gross[t.idx]
		if !ok {
			return "C07.tick_set", fmt.Sprintf("tick %d is stored but no position uses it as a boundary", t.idx)
		}
		if g.Cmp(t.gross) != 0 || net[t.idx].Cmp(t.net) != 0 {
			return "C07.tick_liquidity", fmt.Sprintf("tick %d stores gross %s net %s, positions sum to gross %s net %s", t.idx, t.gross.FloatString(18), t.net.FloatString(18), g.FloatString(18), net[t.idx].FloatString(18))
		}
	}
	// price / tick agreement per position (non-strict forms, see DESIGN C07)
	for id, q := range qpos {
		sl, su := st.sqrtAt(q.lower), st.sqrtAt(q.upper)
		switch {
		case st.tick < q.lower:
			if st.sqrtP.Cmp(sl) > 0 {
				return "C07.price_tick", fmt.Sprintf("tick %d is below position %d's range [%d,%d) but sqrt price %s is above sqrt(lower) %s", st.tick, id, q.lower, q.upper, st.sqrtP.FloatString(36), sl.FloatString(36))
			}
		case st.tick < q.upper:
			if st.sqrtP.Cmp(sl) < 0 || st.sqrtP.Cmp(su) > 0 {
				return "C07.price_tick", fmt.Sprintf("tick %d is inside position %d's range [%d,%d) but sqrt price %s is outside [%s,%s]", st.tick, id, q.lower, q.upper, st.sqrtP.FloatString(36), sl.FloatString(36), su.FloatString(36))
			}
		default:
			if st.sqrtP.Cmp(su) < 0 {
				return "C07.price_tick", fmt.Sprintf("tick %d is above position %d's range [%d,%d) but sqrt price %s is below sqrt(upper) %s", st.tick, id, q.lower, q.upper, st.sqrtP.FloatString(36), su.FloatString(36))
			}
		}
	}
	// the per-range liquidity query must tell the same story (sampled: it is the public "depth" view)
	if w.r.Intn(6) == 0 {
		res, _, err := k.GetTickLiquidityForFullRange(ctx, w.poolID)
		if err == nil {
			for _, d := range res {
				want := new(big.Rat)
				for _, q := range qpos {
					if q.lower <= d.LowerTick && d.UpperTick <= q.upper {
						want.Add(want, q.liq)
					}
				}
				if want.Cmp(ratD(d.LiquidityAmount)) != 0 {
					return "C07.depth_query", fmt.Sprintf("liquidity-per-tick-range reports %s on [%d,%d), positions covering it sum to %s", d.LiquidityAmount, d.LowerTick, d.UpperTick, want.FloatString(18))
				}
			}
		}
	}
	_ = clquery.LiquidityDepthWithRange{}
	return "", ""
}

func runCLHistories(c *vk.Ctx, mix string, nHist, opsPer int, hooks clHooks, classify func(w *clWorld, op string) string) {
	c.Cases("history", nHist, func(i int, r *vk.Rng) {
		w := newCLWorld(c, r, hooks)
		defer w.close()
		if !w.firstPosition() {
			c.Class("setup|first-position-rejected")
			return
		}
		w.trackInRange()
		if hooks.afterOp != nil && !hooks.afterOp(w, "create-first") {
			return
		}
		for step := 0; step < opsPer; step++ {
			c.Eval(1)
			w.nSteps++
			op := w.step(mix)
			if op == "" {
				continue
			}
			if hooks.afterOp != nil && !hooks.afterOp(w, op) {
				return
			}
			if classify != nil {
				c.Class(classify(w, op))
			}
		}
		c.Count("swaps_executed", int64(w.swapsExecuted))
		c.Count("swaps_rejected", int64(w.swapsRejected))
		c.Count("recovered_panics", int64(w.recoveredPanic))
		if i < 2 {
			c.Sample(map[string]any{"spacing": w.spacing, "spread": w.spread.String(), "scaled_accumulators": w.scaled, "uptimes": len(w.uptimes), "ops": opsPer, "positions_at_end": len(w.pos), "swaps_executed": w.swapsExecuted, "swaps_rejected": w.swapsRejected})
		}
	})
}

func runC07(c *vk.Ctx) {
	c.R.Rule = "cases = histories on one concentrated pool (spacing ∈ {1,10,100,1000}, all 7 spread factors, accumulators on either side of the scaling migration, 4 LPs, 2 traders): create (full, narrow, one-sided, abutting, extreme, dust), add-to, partial/full withdraw, exact-in/out swaps both ways (1 unit, dust, exactly-to-next-tick ±1, across ticks, into gaps, draining), claims, incentive records, transfers, block-time jumps. After EVERY operation the pool, all-ticks and position queries are compared: active liquidity, per-tick gross/net, stored tick set, price-vs-tick per position, empty-pool reset, position identity. distinct_nontrivial counts distinct (operation, #positions bucket, #initialised ticks bucket, tick-vs-positions relation, zero-active-liquidity?) tuples."
	nHist := c.N(1920, 12000)
	opsPer := c.N(40, 150)
	hooks := clHooks{afterOp: func(w *clWorld, op string) bool {
		chk, msg := c07Check(w, w.ch.Ctx)
		c.Eval(1)
		if chk != "" {
			c.Violate(chk, map[string]any{"op": op}, "after %s: %s", op, msg)
			return false
		}
		return true
	}}
	runCLHistories(c, "mixed", nHist, opsPer, hooks, func(w *clWorld, op string) string {
		if len(w.pos) == 0 {
			return fmt.Sprintf("%s|empty", op)
		}
		p := w.pool()
		t := p.GetCurrentTick()
		in, below, above := 0, 0, 0
		for _, q := range w.pos {
			switch {
			case t < q.lower:
				below++
			case t < q.upper:
				in++
			default:
				above++
			}
		}
		st := clReadState(w, w.ch.Ctx)
		return fmt.Sprintf("%s|pos%d|ticks%d|in%d-below%d-above%d|zeroL%v", op, bucket(len(w.pos)), bucket(len(st.ticks)), min(in, 2), min(below, 2), min(above, 2), p.GetLiquidity().IsZero())
	})
}
