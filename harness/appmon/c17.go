//go:build verif

package main

// C17, integrated part: the real epoch hook chain (txfees, twap, superfluid, incentives, mint,
// protorev) with natural fault levers.
//  (1) the developer vesting account is drained before an epoch block, so x/mint's hook errors
//      after it has minted and partly distributed: its changes must be discarded, the
//      subscribers before it (incentives pays a gauge) and after it (protorev counts the day)
//      must have run, the timer must have ticked, the block must complete;
//  (2) the epochs BeginBlocker is run on forks under a sweep of gas limits: below the gas the
//      hooks need, the out-of-gas panic must reach the caller; at or above it the result must
//      equal the unlimited run.

import (
	"fmt"
	"time"

	sdkmath "cosmossdk.io/math"
	storetypes "cosmossdk.io/store/types"
	sdk "github.com/cosmos/cosmos-sdk/types"
	authtypes "github.com/cosmos/cosmos-sdk/x/auth/types"

	"github.com/osmosis-labs/osmosis/osmomath"
	"github.com/osmosis-labs/osmosis/v31/app"
	"github.com/osmosis-labs/osmosis/v31/x/gamm/pool-models/balancer"
	gammtypes "github.com/osmosis-labs/osmosis/v31/x/gamm/types"
	incentivestypes "github.com/osmosis-labs/osmosis/v31/x/incentives/types"
	lockuptypes "github.com/osmosis-labs/osmosis/v31/x/lockup/types"
	minttypes "github.com/osmosis-labs/osmosis/v31/x/mint/types"
	protorevtypes "github.com/osmosis-labs/osmosis/v31/x/protorev/types"
	"github.com/osmosis-labs/osmosis/v31/zzverif/chain"
	"github.com/osmosis-labs/osmosis/v31/zzverif/vk"
)

func c17Genesis(a *app.OsmosisApp, gs app.GenesisState) {
	cdc := a.AppCodec()
	var mg minttypes.GenesisState
	cdc.MustUnmarshalJSON(gs[minttypes.ModuleName], &mg)
	mg.Params.EpochIdentifier = "day"
	mg.Params.ReductionPeriodInEpochs = 3
	gs[minttypes.ModuleName] = cdc.MustMarshalJSON(&mg)
	var ig incentivestypes.GenesisState
	cdc.MustUnmarshalJSON(gs[incentivestypes.ModuleName], &ig)
	ig.Params.DistrEpochIdentifier = "day"
	gs[incentivestypes.ModuleName] = cdc.MustMarshalJSON(&ig)
	// protorev's day hook needs a developer account to succeed
	var pg protorevtypes.GenesisState
	cdc.MustUnmarshalJSON(gs[protorevtypes.ModuleName], &pg)
	pg.DeveloperAddress = chain.DetAccount("acc", 2).Addr.String()
	gs[protorevtypes.ModuleName] = cdc.MustMarshalJSON(&pg)
}

type c17World struct {
	ch      *chain.Chain
	gaugeID uint64
	vesting sdk.AccAddress
}

func c17Setup(c *vk.Ctx, r *vk.Rng) *c17World {
	ch := chain.New(chain.Options{Denoms: []string{"foo"}, NumAccounts: 4, NumValidators: 1, Epochs: map[string]time.Duration{"day": time.Hour, "week": 3 * time.Hour}, GenesisMutator: c17Genesis})
	w := &c17World{ch: ch, vesting: authtypes.NewModuleAddress(minttypes.DeveloperVestingModuleAcctName)}
	a := ch.Accs[0]
	bm := balancer.NewMsgCreateBalancerPool(a.Addr, balancer.NewPoolParams(osmomath.MustNewDecFromStr("0.003"), osmomath.ZeroDec(), nil),
		[]balancer.PoolAsset{{Weight: sdkmath.NewInt(1), Token: coin("uosmo", 1_000_000_000)}, {Weight: sdkmath.NewInt(1), Token: coin("foo", 1_000_000_000)}}, "")
	if res := ch.Exec(&bm); !res.OK() {
		c.Violate("C17.setup", nil, "pool: %s", res.ErrString())
		return nil
	}
	share := gammtypes.GetPoolShareDenom(ch.App.PoolManagerKeeper.GetNextPoolId(ch.Ctx) - 1)
	if res := ch.Exec(&lockuptypes.MsgLockTokens{Owner: a.Addr.String(), Duration: 24 * time.Hour, Coins: sdk.NewCoins(sdk.NewCoin(share, gammtypes.OneShare.MulRaw(10)))}); !res.OK() {
		c.Violate("C17.setup", nil, "lock: %s", res.ErrString())
		return nil
	}
	res := ch.Exec(&incentivestypes.MsgCreateGauge{IsPerpetual: false, Owner: ch.Accs[1].Addr.String(), DistributeTo: lockuptypes.QueryCondition{LockQueryType: lockuptypes.ByDuration, Denom: share, Duration: time.Hour}, Coins: sdk.NewCoins(coin("uosmo", 1_000_000_000+r.I64n(1e9))), StartTime: ch.Ctx.BlockTime(), NumEpochsPaidOver: 500})
	if !res.OK() {
		c.Violate("C17.setup", nil, "gauge: %s", res.ErrString())
		return nil
	}
	gs := ch.App.IncentivesKeeper.GetGauges(ch.Ctx)
	for _, g := range gs {
		if !g.IsPerpetual && g.DistributeTo.Denom == share {
			w.gaugeID = g.Id
		}
	}
	return w
}

type c17Snap struct {
	day       int64
	dayStart  time.Time
	supply    sdkmath.Int
	offSupply sdkmath.Int
	mintBal   sdkmath.Int
	provis    osmomath.Dec
	lastRed   string
	days      uint64
	gaugeDist sdk.Coins
	gaugeFill uint64
	ownerBal  sdkmath.Int
	commPool  sdk.DecCoins
}

func (w *c17World) snap() c17Snap {
	ch := w.ch
	ctx := ch.Ctx
	ei := ch.App.EpochsKeeper.GetEpochInfo(ctx, "day")
	s := c17Snap{day: ei.CurrentEpoch, dayStart: ei.CurrentEpochStartTime}
	s.supply = ch.App.BankKeeper.GetSupply(ctx, "uosmo").Amount
	s.offSupply = ch.App.BankKeeper.GetSupplyWithOffset(ctx, "uosmo").Amount
	s.mintBal = ch.App.BankKeeper.GetBalance(ctx, authtypes.NewModuleAddress(minttypes.ModuleName), "uosmo").Amount
	s.provis = ch.App.MintKeeper.GetMinter(ctx).EpochProvisions
	s.lastRed = fmt.Sprint(ch.App.MintKeeper.ExportGenesis(ctx).ReductionStartedEpoch)
	s.days, _ = ch.App.ProtoRevKeeper.GetDaysSinceModuleGenesis(ctx)
	if g, err := ch.App.IncentivesKeeper.GetGaugeByID(ctx, w.gaugeID); err == nil {
		s.gaugeDist = g.DistributedCoins
		s.gaugeFill = g.FilledEpochs
	}
	s.ownerBal = ch.Bal(ch.Accs[0].Addr, "uosmo")
	fp, _ := ch.App.DistrKeeper.FeePool.Get(ctx)
	s.commPool = fp.CommunityPool
	return s
}

func runC17(c *vk.Ctx) {
	c.R.Rule = "integrated part of C17 (the scripted-subscriber part runs in the pure binary). cases = (1) histories of 6..14 day-epoch blocks on a real app whose mint and incentives epochs are the 1h 'day' timer; before a seed-chosen subset of epoch blocks the developer vesting account is drained so that x/mint's AfterEpochEnd errors after minting, before another subset the incentives module account is emptied so that the gauge distribution fails at its sends after the gauge records were updated; checked per epoch block: the block completes, the day timer advances by exactly one and stays on its grid, the gauge (incentives runs before mint) has paid, protorev's day counter (runs after mint) has advanced, and under the fault the uosmo supply, mint account, minter provisions, last reduction epoch and community pool are exactly as before the block while without it the supply grows by floor(provisions); (2) gas sweeps: the epochs BeginBlocker on forks at a block time past an epoch end under 24 gas limits from 1 to just below the gas an unlimited run needs — each must end in an out-of-gas panic reaching the caller — and at/above it, where the resulting all-store digest must equal the unlimited run's. distinct_nontrivial counts distinct (part, fault?, reduction epoch?, outcome / limit bucket) tuples."
	nHist := c.N(12, 160)
	c.Cases("mint-fault", nHist, func(i int, r *vk.Rng) {
		w := c17Setup(c, r)
		if w == nil {
			return
		}
		ch := w.ch
		defer ch.Close()
		holder := ch.Accs[3].Addr
		nEp := 6 + r.Intn(9)
		for e := 0; e < nEp; e++ {
			ei := ch.App.EpochsKeeper.GetEpochInfo(ch.Ctx, "day")
			end := ei.CurrentEpochStartTime.Add(ei.Duration)
			// some quiet blocks inside the epoch, then one past its end (sometimes far past)
			for k := r.Intn(3); k > 0; k-- {
				if ch.Time.Add(7 * time.Minute).Before(end) {
					ch.NextBlock(7 * time.Minute)
				}
			}
			past := time.Duration(1+r.I64n(int64(40*time.Minute))) * 1
			if r.Intn(5) == 0 {
				past += time.Duration(1+r.Intn(4)) * time.Hour // several epochs due: still one tick per block
			}
			if end.Add(past).After(ch.Time) {
				ch.Time = end.Add(past)
				ch.ResetCtx()
			}
			fault := r.Intn(3) == 0
			// a second lever: the incentives module account is emptied, so the gauge distribution fails at its
			// sends after the gauges' own records were already updated in the hook's branch
			faultInc := !fault && r.Intn(4) == 0
			var drained sdk.Coins
			if fault {
				drained = ch.AllBal(ch.Ctx, w.vesting)
				if err := ch.App.BankKeeper.SendCoinsFromModuleToAccount(ch.Ctx, minttypes.DeveloperVestingModuleAcctName, holder, drained); err != nil {
					c.Violate("C17.setup", nil, "drain: %v", err)
					return
				}
			}
			if faultInc {
				drained = ch.AllBal(ch.Ctx, authtypes.NewModuleAddress(incentivestypes.ModuleName))
				if err := ch.App.BankKeeper.SendCoinsFromModuleToAccount(ch.Ctx, incentivestypes.ModuleName, holder, drained); err != nil {
					c.Violate("C17.setup", nil, "drain incentives: %v", err)
					return
				}
			}
			before := w.snap()
			if c.Verbose {
				f := ch.Fork()
				fmt.Println("dbg protorev hook:", ch.App.ProtoRevKeeper.EpochHooks().AfterEpochEnd(f, "day", before.day), "enabled:", ch.App.ProtoRevKeeper.GetProtoRevEnabled(f))
				fmt.Println("dbg incentives hook:", ch.App.IncentivesKeeper.Hooks().AfterEpochEnd(ch.Fork(), "day", before.day))
				g, _ := ch.App.IncentivesKeeper.GetGaugeByID(ch.Ctx, w.gaugeID)
				fmt.Println("dbg gauge:", g.String(), "active:", g.IsActiveGauge(ch.Ctx.BlockTime()))
			}
			c.Eval(1)
			rec, stack := vk.Guard(func() { ch.NextBlock(5 * time.Second) })
			if rec != nil {
				c.Violate("C17.block_did_not_complete", map[string]any{"fault": fault}, "epoch block (fault=%v) panicked: %v\n%s", fault, rec, trunc(stack, 2500))
				return
			}
			after := w.snap()
			if fault {
				// give the balance back before the next epoch
				if err := ch.App.BankKeeper.SendCoinsFromAccountToModule(ch.Ctx, holder, minttypes.DeveloperVestingModuleAcctName, drained); err != nil {
					c.Violate("C17.setup", nil, "refill: %v", err)
					return
				}
			}
			if faultInc {
				if err := ch.App.BankKeeper.SendCoinsFromAccountToModule(ch.Ctx, holder, incentivestypes.ModuleName, drained); err != nil {
					c.Violate("C17.setup", nil, "refill incentives: %v", err)
					return
				}
			}
			sig := map[string]any{"fault": fault}
			c.Logf("epoch block %d fault=%v: day %d->%d supply %s->%s days %d->%d gauge %s->%s", e, fault, before.day, after.day, before.supply, after.supply, before.days, after.days, before.gaugeDist, after.gaugeDist)
			if after.day != before.day+1 {
				c.Violate("C17.integrated_tick", sig, "the day timer went from epoch %d to %d in one block past its end (fault=%v)", before.day, after.day, fault)
				return
			}
			if before.day > 0 && !after.dayStart.Equal(before.dayStart.Add(time.Hour)) {
				c.Violate("C17.integrated_grid", sig, "day epoch start moved from %s to %s, not by its duration", before.dayStart, after.dayStart)
				return
			}
			if before.day == 0 {
				continue // the very first tick only starts counting: no end-of-epoch signal
			}
			if faultInc {
				// the incentives hook failed: nothing it did may be visible, everybody after it still ran
				if !after.gaugeDist.Equal(before.gaugeDist) || after.gaugeFill != before.gaugeFill {
					c.Violate("C17.failed_hook_state_visible", map[string]any{"fault": "incentives"}, "the incentives module account was empty at the end of day %d, so its hook failed, yet the gauge record moved: distributed %s -> %s, filled epochs %d -> %d", before.day, before.gaugeDist, after.gaugeDist, before.gaugeFill, after.gaugeFill)
					return
				}
				if after.days != before.days+1 || !after.offSupply.Sub(before.offSupply).Equal(after.provis.TruncateInt()) {
					c.Violate("C17.later_subscriber_not_run", map[string]any{"fault": "incentives"}, "after the incentives hook failed at the end of day %d the later subscribers did not run normally: protorev days %d -> %d, reported supply +%s with provisions %s", before.day, before.days, after.days, after.offSupply.Sub(before.offSupply), after.provis)
					return
				}
				c.Class("mint-fault|incentives-fault|day%d", bucket(int(before.day)))
				continue
			}
			if !after.gaugeDist.IsAllGT(before.gaugeDist) && !(before.gaugeDist.IsZero() && !after.gaugeDist.IsZero()) {
				c.Violate("C17.earlier_subscriber_not_run", sig, "incentives (before mint in the hook order) did not pay the gauge at the end of day %d (fault=%v): distributed %s -> %s", before.day, fault, before.gaugeDist, after.gaugeDist)
				return
			}
			if after.days != before.days+1 {
				c.Violate("C17.later_subscriber_not_run", sig, "protorev (after mint in the hook order) did not count the day at the end of day %d (fault=%v): %d -> %d", before.day, fault, before.days, after.days)
				return
			}
			reduction := after.provis.LT(before.provis)
			if fault {
				if !after.supply.Equal(before.supply) || !after.offSupply.Equal(before.offSupply) || !after.mintBal.Equal(before.mintBal) || !after.provis.Equal(before.provis) || after.lastRed != before.lastRed || !after.commPool.Equal(before.commPool) {
					c.Violate("C17.failed_hook_state_visible", sig, "x/mint's hook failed at the end of day %d yet its changes are visible: supply %s -> %s, mint account %s -> %s, provisions %s -> %s, last reduction %s -> %s, community pool %s -> %s", before.day, before.supply, after.supply, before.mintBal, after.mintBal, before.provis, after.provis, before.lastRed, after.lastRed, before.commPool, after.commPool)
					return
				}
				c.Class("mint-fault|fault|day%d", bucket(int(before.day)))
			} else {
				want := after.provis.TruncateInt()
				if !after.offSupply.Sub(before.offSupply).Equal(want) {
					c.Violate("C17.control_epoch", sig, "without a fault the reported supply grew by %s at the end of day %d, provisions %s", after.offSupply.Sub(before.offSupply), before.day, after.provis)
					return
				}
				c.Class("mint-fault|control|reduction%v|day%d", reduction, bucket(int(before.day)))
			}
		}
		if i < 2 {
			c.Sample(map[string]any{"part": "mint-fault", "epochs": nEp})
		}
	})
	nSweep := c.N(6, 80)
	c.Cases("gas-sweep", nSweep, func(i int, r *vk.Rng) {
		w := c17Setup(c, r)
		if w == nil {
			return
		}
		ch := w.ch
		defer ch.Close()
		// get past a few epochs first so that the hooks have real work
		for e := 0; e < 2+r.Intn(3); e++ {
			ch.NextBlock(time.Hour + time.Duration(r.I64n(int64(10*time.Minute))))
		}
		ei := ch.App.EpochsKeeper.GetEpochInfo(ch.Ctx, "day")
		ch.Time = ei.CurrentEpochStartTime.Add(ei.Duration).Add(time.Duration(1 + r.I64n(int64(time.Minute))))
		ch.ResetCtx()
		ref := ch.Fork().WithGasMeter(storetypes.NewInfiniteGasMeter())
		if rec, stack := vk.Guard(func() { ch.App.EpochsKeeper.BeginBlocker(ref) }); rec != nil {
			c.Violate("C17.block_did_not_complete", map[string]any{"fault": "none"}, "unlimited BeginBlocker panicked: %v\n%s", rec, trunc(stack, 2000))
			return
		}
		G := ref.GasMeter().GasConsumed()
		d0 := ch.Digest(ref)
		if after := ch.App.EpochsKeeper.GetEpochInfo(ref, "day"); after.CurrentEpoch != ei.CurrentEpoch+1 {
			c.Violate("C17.integrated_tick", map[string]any{"fault": "none"}, "reference run did not tick: %d -> %d", ei.CurrentEpoch, after.CurrentEpoch)
			return
		}
		var limits []uint64
		for j := 1; j <= 20; j++ {
			limits = append(limits, G*uint64(j)/21)
		}
		limits = append(limits, 1, 1000, G-1, uint64(r.I64n(int64(G))))
		for _, lim := range limits {
			if lim == 0 || lim >= G {
				continue
			}
			c.Eval(1)
			f := ch.Fork().WithGasMeter(storetypes.NewGasMeter(lim))
			rec, stack := vk.Guard(func() { ch.App.EpochsKeeper.BeginBlocker(f) })
			bkt := fmt.Sprintf("%d/8", lim*8/G)
			if rec == nil {
				c.Violate("C17.out_of_gas_swallowed", map[string]any{"limit": bkt}, "BeginBlocker needs %d gas; with a limit of %d it returned normally (consumed %d): an out-of-gas inside a hook was not propagated", G, lim, f.GasMeter().GasConsumed())
				return
			}
			if _, ok := rec.(storetypes.ErrorOutOfGas); !ok {
				c.Violate("C17.out_of_gas_swallowed", map[string]any{"limit": bkt, "other_panic": true}, "BeginBlocker with gas limit %d of %d panicked with %T %v instead of out-of-gas\n%s", lim, G, rec, rec, trunc(stack, 1500))
				return
			}
			c.Class("gas-sweep|oog-propagated|%s", bkt)
		}
		for _, lim := range []uint64{G, G + 1, 2 * G} {
			c.Eval(1)
			f := ch.Fork().WithGasMeter(storetypes.NewGasMeter(lim))
			if rec, _ := vk.Guard(func() { ch.App.EpochsKeeper.BeginBlocker(f) }); rec != nil {
				c.Violate("C17.block_did_not_complete", map[string]any{"fault": "gas>=needed"}, "BeginBlocker with gas limit %d >= needed %d panicked: %v", lim, G, rec)
				return
			}
			if ch.Digest(f) != d0 {
				c.Violate("C17.gas_limit_changes_result", nil, "BeginBlocker with gas limit %d (needed %d) left a different state than the unlimited run", lim, G)
				return
			}
			c.Class("gas-sweep|enough-gas|same-state")
		}
		if i < 1 {
			c.Sample(map[string]any{"part": "gas-sweep", "gas_needed": G, "limits": len(limits)})
		}
	})
}
