//go:build verif

package main

// Pool zoo shared by the C02 / C05 monitors: several balancer and stableswap pools plus a
// concentrated pool as a router hop, random per-pair taker fees, several actors.

import (
	"fmt"
	"sort"
	"time"

	sdkmath "cosmossdk.io/math"
	sdk "github.com/cosmos/cosmos-sdk/types"
	authtypes "github.com/cosmos/cosmos-sdk/x/auth/types"
	banktypes "github.com/cosmos/cosmos-sdk/x/bank/types"

	"github.com/osmosis-labs/osmosis/osmomath"
	clmodel "github.com/osmosis-labs/osmosis/v31/x/concentrated-liquidity/model"
	cltypes "github.com/osmosis-labs/osmosis/v31/x/concentrated-liquidity/types"
	"github.com/osmosis-labs/osmosis/v31/x/gamm/pool-models/balancer"
	"github.com/osmosis-labs/osmosis/v31/x/gamm/pool-models/stableswap"
	gammtypes "github.com/osmosis-labs/osmosis/v31/x/gamm/types"
	poolmanagertypes "github.com/osmosis-labs/osmosis/v31/x/poolmanager/types"
	txfeestypes "github.com/osmosis-labs/osmosis/v31/x/txfees/types"
	"github.com/osmosis-labs/osmosis/v31/zzverif/chain"
	"github.com/osmosis-labs/osmosis/v31/zzverif/vk"
)

type gmPool struct {
	id         uint64
	kind       string // balancer | stableswap | cl
	denoms     []string
	shareDenom string
	addr       sdk.AccAddress
	extraAddrs []sdk.AccAddress // CL fee / incentive accounts
	directSent sdk.Coins
	fee        osmomath.Dec
}

type gmWorld struct {
	c        *vk.Ctx
	ch       *chain.Chain
	r        *vk.Rng
	pools    []*gmPool
	actors   []chain.Account
	denoms   []string
	takerAcc sdk.AccAddress
	supply0  sdk.Coins
	tracked  []sdk.AccAddress
	whitelisted int // index of an actor on the reduced-fee whitelist, -1 = none
}

var gmDenoms = []string{"uosmo", "aaa", "bbb", "ccc", "ddd", "eee", "fff", "ggg"}
var gmFees = []string{"0", "0.0001", "0.003", "0.01", "0.1"}
var gmTakerFees = []string{"0", "0.001", "0.01", "0.05"}

func newGMWorld(c *vk.Ctx, r *vk.Rng) *gmWorld {
	w := &gmWorld{c: c, r: r, denoms: gmDenoms, whitelisted: -1}
	w.ch = chain.New(chain.Options{Denoms: gmDenoms[1:], NumAccounts: 6})
	w.ch.NextBlock(5 * time.Second)
	w.actors = w.ch.Accs[:5]
	w.takerAcc = authtypes.NewModuleAddress(txfeestypes.TakerFeeCollectorName)
	ctx := w.ch.Ctx
	pk := w.ch.App.PoolManagerKeeper
	// per-pair taker fees (both directions independently)
	for i := 0; i < len(gmDenoms); i++ {
		for j := 0; j < len(gmDenoms); j++ {
			if i != j && r.Intn(3) == 0 {
				pk.SetDenomPairTakerFee(ctx, gmDenoms[i], gmDenoms[j], osmomath.MustNewDecFromStr(gmTakerFees[r.Intn(len(gmTakerFees))]))
			}
		}
	}
	if r.Intn(3) == 0 {
		p := pk.GetParams(ctx)
		p.TakerFeeParams.DefaultTakerFee = osmomath.MustNewDecFromStr(gmTakerFees[r.Intn(len(gmTakerFees))])
		pk.SetParams(ctx, p)
	}
	if r.Intn(3) == 0 {
		w.whitelisted = r.Intn(len(w.actors))
		p := pk.GetParams(ctx)
		p.TakerFeeParams.ReducedFeeWhitelist = []string{w.actors[w.whitelisted].Addr.String()}
		pk.SetParams(ctx, p)
	}
	nPools := 3 + r.Intn(3)
	for len(w.pools) < nPools {
		kind := r.Intn(5)
		switch {
		case kind < 2:
			w.createBalancer()
		case kind < 4:
			w.createStable()
		default:
			w.createCL()
		}
	}
	// make sure there is at least one of each classic kind
	has := map[string]bool{}
	for _, p := range w.pools {
		has[p.kind] = true
	}
	if !has["balancer"] {
		w.createBalancer()
	}
	if !has["stableswap"] {
		w.createStable()
	}
	w.supply0 = w.nonShareSupply()
	w.tracked = nil
	for _, a := range w.ch.Accs {
		w.tracked = append(w.tracked, a.Addr)
	}
	for _, v := range w.ch.Vals {
		w.tracked = append(w.tracked, v.Owner.Addr)
	}
	w.tracked = append(w.tracked, w.takerAcc)
	for _, p := range w.pools {
		w.tracked = append(w.tracked, p.addr)
		w.tracked = append(w.tracked, p.extraAddrs...)
	}
	return w
}

func (w *gmWorld) close() { w.ch.Close() }

func (w *gmWorld) subset(n int) []string {
	idx := make([]int, len(gmDenoms))
	for i := range idx {
		idx[i] = i
	}
	for i := len(idx) - 1; i > 0; i-- {
		j := w.r.Intn(i + 1)
		idx[i], idx[j] = idx[j], idx[i]
	}
	var out []string
	for _, i := range idx[:n] {
		out = append(out, gmDenoms[i])
	}
	sort.Strings(out)
	return out
}

func (w *gmWorld) newPoolID() uint64 { return w.ch.App.PoolManagerKeeper.GetNextPoolId(w.ch.Ctx) - 1 }

func (w *gmWorld) createBalancer() {
	r := w.r
	n := 2 + r.Intn(7)
	if r.Intn(2) == 0 {
		n = 2 + r.Intn(2)
	}
	ds := w.subset(n)
	var assets []balancer.PoolAsset
	for _, d := range ds {
		wt := 1 + r.I64n(100)
		switch r.Intn(4) {
		case 0:
			wt = 1
		case 1:
			wt = 1 + r.I64n(1<<20-2)
		}
		amt := r.BigMag(4, 22)
		if r.Intn(4) == 0 {
			amt = r.BigMag(8, 12)
		}
		assets = append(assets, balancer.PoolAsset{Weight: sdkmath.NewInt(wt), Token: sdk.NewCoin(d, sdkmath.NewIntFromBigInt(amt))})
	}
	fee := osmomath.MustNewDecFromStr(gmFees[r.Intn(len(gmFees))])
	// one balancer pool in four has weights that move over a short schedule (seconds to a minute), so that the
	// histories' few blocks pass through it and beyond its end
	var smooth *balancer.SmoothWeightChangeParams
	if r.Intn(4) == 0 {
		var targets []balancer.PoolAsset
		for _, a := range assets {
			targets = append(targets, balancer.PoolAsset{Weight: sdkmath.NewInt(1 + r.I64n(100)), Token: sdk.NewCoin(a.Token.Denom, sdkmath.ZeroInt())})
		}
		smooth = &balancer.SmoothWeightChangeParams{StartTime: w.ch.Ctx.BlockTime().Add(time.Duration(r.Intn(10)) * time.Second), Duration: time.Duration(3+r.Intn(60)) * time.Second, TargetPoolWeights: targets}
	}
	msg := balancer.NewMsgCreateBalancerPool(w.actors[0].Addr, balancer.NewPoolParams(fee, osmomath.ZeroDec(), smooth), assets, "")
	res := w.ch.Exec(&msg)
	if !res.OK() {
		w.c.Logf("create balancer rejected: %s", trunc(res.ErrString(), 200))
		return
	}
	if smooth != nil {
		w.c.Count("pools_with_moving_weights", 1)
	}
	id := w.newPoolID()
	w.pools = append(w.pools, &gmPool{id: id, kind: "balancer", denoms: ds, shareDenom: gammtypes.GetPoolShareDenom(id), addr: poolmanagertypes.NewPoolAddress(id), directSent: sdk.NewCoins(), fee: fee})
	w.c.Logf("pool %d balancer %v fee %s", id, assets, fee)
}

func (w *gmWorld) createStable() {
	r := w.r
	n := 2 + r.Intn(4)
	ds := w.subset(n)
	var liq sdk.Coins
	var sf []uint64
	base := r.BigMag(6, 18)
	for _, d := range ds {
		s := uint64(1)
		switch r.Intn(3) {
		case 0:
			s = []uint64{10, 100, 1000, 1000000}[r.Intn(4)]
		case 1:
			s = uint64(1 + r.I64n(1000))
		}
		amt := sdkmath.NewIntFromBigInt(base).MulRaw(int64(s)).MulRaw(50 + r.I64n(100)).QuoRaw(100)
		liq = liq.Add(sdk.NewCoin(d, amt))
		sf = append(sf, s)
	}
	fee := osmomath.MustNewDecFromStr(gmFees[r.Intn(len(gmFees))])
	msg := stableswap.NewMsgCreateStableswapPool(w.actors[0].Addr, stableswap.PoolParams{SwapFee: fee, ExitFee: osmomath.ZeroDec()}, liq, sf, "")
	res := w.ch.Exec(&msg)
	if !res.OK() {
		w.c.Logf("create stableswap rejected: %s", trunc(res.ErrString(), 200))
		return
	}
	id := w.newPoolID()
	w.pools = append(w.pools, &gmPool{id: id, kind: "stableswap", denoms: ds, shareDenom: gammtypes.GetPoolShareDenom(id), addr: poolmanagertypes.NewPoolAddress(id), directSent: sdk.NewCoins(), fee: fee})
	w.c.Logf("pool %d stableswap %s sf=%v fee %s", id, liq, sf, fee)
}

func (w *gmWorld) createCL() {
	r := w.r
	ds := w.subset(2)
	fee := cltypes.AuthorizedSpreadFactors[r.Intn(len(cltypes.AuthorizedSpreadFactors))]
	msg := clmodel.NewMsgCreateConcentratedPool(w.actors[0].Addr, ds[0], ds[1], 100, fee)
	res := w.ch.Exec(&msg)
	if !res.OK() {
		w.c.Logf("create CL rejected: %s", trunc(res.ErrString(), 200))
		return
	}
	id := w.newPoolID()
	a0, a1 := sdkmath.NewIntFromBigInt(r.BigMag(8, 20)), sdkmath.NewIntFromBigInt(r.BigMag(8, 20))
	pm := &cltypes.MsgCreatePosition{PoolId: id, Sender: w.actors[1].Addr.String(), LowerTick: cltypes.MinInitializedTick, UpperTick: cltypes.MaxTick, TokensProvided: sdk.NewCoins(sdk.NewCoin(ds[0], a0), sdk.NewCoin(ds[1], a1)), TokenMinAmount0: sdkmath.ZeroInt(), TokenMinAmount1: sdkmath.ZeroInt()}
	if rr := w.ch.Exec(pm); !rr.OK() {
		w.c.Logf("CL first position rejected: %s", trunc(rr.ErrString(), 200))
		return
	}
	p, _ := w.ch.App.ConcentratedLiquidityKeeper.GetConcentratedPoolById(w.ch.Ctx, id)
	// a narrower position around the price for depth
	cur := p.GetCurrentTick()
	lo, hi := roundDown(cur, 100)-100*(1+r.I64n(500)), roundDown(cur, 100)+100*(1+r.I64n(500))
	if lo >= cltypes.MinInitializedTick && hi <= cltypes.MaxTick {
		w.ch.Exec(&cltypes.MsgCreatePosition{PoolId: id, Sender: w.actors[2].Addr.String(), LowerTick: lo, UpperTick: hi, TokensProvided: sdk.NewCoins(sdk.NewCoin(ds[0], a0), sdk.NewCoin(ds[1], a1)), TokenMinAmount0: sdkmath.ZeroInt(), TokenMinAmount1: sdkmath.ZeroInt()})
	}
	w.pools = append(w.pools, &gmPool{id: id, kind: "cl", denoms: ds, addr: p.GetAddress(), extraAddrs: []sdk.AccAddress{p.GetSpreadRewardsAddress(), p.GetIncentivesAddress()}, directSent: sdk.NewCoins(), fee: fee})
	w.c.Logf("pool %d CL %v fee %s", id, ds, fee)
}

func (w *gmWorld) nonShareSupply() sdk.Coins {
	out := sdk.NewCoins()
	for _, d := range gmDenoms {
		out = out.Add(w.ch.App.BankKeeper.GetSupply(w.ch.Ctx, d))
	}
	return out
}

// liquidity reported by the pool (classic pools) through the pool-manager query path.
func (w *gmWorld) reported(ctx sdk.Context, p *gmPool) (sdk.Coins, sdkmath.Int, error) {
	pi, err := w.ch.App.GAMMKeeper.GetCFMMPool(ctx, p.id)
	if err != nil {
		return nil, sdkmath.Int{}, err
	}
	return pi.GetTotalPoolLiquidity(ctx), pi.GetTotalShares(), nil
}

func (w *gmWorld) classicPools() []*gmPool {
	var out []*gmPool
	for _, p := range w.pools {
		if p.kind != "cl" {
			out = append(out, p)
		}
	}
	return out
}

func (w *gmWorld) balances(ctx sdk.Context) map[string]sdk.Coins {
	out := map[string]sdk.Coins{}
	for _, a := range w.tracked {
		out[a.String()] = w.ch.AllBal(ctx, a)
	}
	return out
}

// poolWith returns a pool trading din->dout other than the excluded ones.
func (w *gmWorld) poolWith(din, dout string, exclude map[uint64]bool) *gmPool {
	var cand []*gmPool
	for _, p := range w.pools {
		if exclude[p.id] {
			continue
		}
		hasIn, hasOut := false, false
		for _, d := range p.denoms {
			if d == din {
				hasIn = true
			}
			if d == dout {
				hasOut = true
			}
		}
		if hasIn && hasOut {
			cand = append(cand, p)
		}
	}
	if len(cand) == 0 {
		return nil
	}
	return cand[w.r.Intn(len(cand))]
}

// randomRoute builds a route of up to maxHops hops starting from a random denom (three in four over distinct pools).
func (w *gmWorld) randomRoute(maxHops int) (string, []poolmanagertypes.SwapAmountInRoute, []*gmPool) {
	r := w.r
	for attempt := 0; attempt < 20; attempt++ {
		start := w.pools[r.Intn(len(w.pools))]
		din := start.denoms[r.Intn(len(start.denoms))]
		cur := din
		used := map[uint64]bool{}
		// one route in four may come back to a pool it has already been through (A->B->C inside one 3-asset pool,
		// or A->B->A); the others visit every pool at most once
		revisit := r.Intn(4) == 0
		var route []poolmanagertypes.SwapAmountInRoute
		var ps []*gmPool
		hops := 1 + r.Intn(maxHops)
		for h := 0; h < hops; h++ {
			// pools containing cur
			var cand []*gmPool
			for _, p := range w.pools {
				if used[p.id] && !revisit {
					continue
				}
				for _, d := range p.denoms {
					if d == cur {
						cand = append(cand, p)
					}
				}
			}
			if len(cand) == 0 {
				break
			}
			p := cand[r.Intn(len(cand))]
			var outs []string
			for _, d := range p.denoms {
				if d != cur {
					outs = append(outs, d)
				}
			}
			dout := outs[r.Intn(len(outs))]
			route = append(route, poolmanagertypes.SwapAmountInRoute{PoolId: p.id, TokenOutDenom: dout})
			ps = append(ps, p)
			used[p.id] = true
			cur = dout
		}
		if len(route) > 0 {
			return din, route, ps
		}
	}
	return "", nil, nil
}

func toOutRoute(din string, in []poolmanagertypes.SwapAmountInRoute) ([]poolmanagertypes.SwapAmountOutRoute, string) {
	// same pools, same direction, expressed as exact-out route
	out := make([]poolmanagertypes.SwapAmountOutRoute, len(in))
	cur := din
	for i, h := range in {
		out[i] = poolmanagertypes.SwapAmountOutRoute{PoolId: h.PoolId, TokenInDenom: cur}
		cur = h.TokenOutDenom
	}
	return out, cur
}

func (w *gmWorld) tradeAmount(p *gmPool, denom string) sdkmath.Int {
	bal := w.ch.Bal(p.addr, denom)
	if !bal.IsPositive() {
		return sdkmath.NewInt(1000)
	}
	r := w.r
	switch r.Intn(7) {
	case 0:
		return sdkmath.NewInt(1 + r.I64n(10))
	case 1:
		return sdkmath.MaxInt(sdkmath.OneInt(), bal.QuoRaw(2+r.I64n(3)))
	case 2:
		return sdkmath.MaxInt(sdkmath.OneInt(), bal.QuoRaw(1000000))
	default:
		return sdkmath.MaxInt(sdkmath.OneInt(), bal.QuoRaw(10+r.I64n(10000)))
	}
}

func gmDescribe(msg sdk.Msg) string { return fmt.Sprintf("%T %v", msg, msg) }

var _ = banktypes.ModuleName


// governance applies, now and then, the parameter changes a passed proposal or a taker-fee admin makes while the
// chain runs: the reduced-fee whitelist gains, changes or loses its member, a pair's taker fee is set to another
// value — including the default value, which removes the override — or the default itself changes.
func (w *gmWorld) governance() {
	r := w.r
	ctx := w.ch.Ctx
	pk := w.ch.App.PoolManagerKeeper
	switch r.Intn(4) {
	case 0:
		p := pk.GetParams(ctx)
		if w.whitelisted >= 0 && r.Bool() {
			w.c.Logf("governance: actor %d leaves the reduced-fee whitelist", w.whitelisted)
			w.whitelisted = -1
			p.TakerFeeParams.ReducedFeeWhitelist = nil
		} else {
			w.whitelisted = r.Intn(len(w.actors))
			w.c.Logf("governance: reduced-fee whitelist = actor %d", w.whitelisted)
			p.TakerFeeParams.ReducedFeeWhitelist = []string{w.actors[w.whitelisted].Addr.String()}
		}
		pk.SetParams(ctx, p)
	case 1, 2:
		i, j := r.Intn(len(gmDenoms)), r.Intn(len(gmDenoms))
		if i == j {
			return
		}
		fee := osmomath.MustNewDecFromStr(gmTakerFees[r.Intn(len(gmTakerFees))])
		if r.Intn(3) == 0 {
			fee = pk.GetParams(ctx).TakerFeeParams.DefaultTakerFee // back to the default: the override is removed
		}
		w.c.Logf("governance: taker fee %s -> %s = %s", gmDenoms[i], gmDenoms[j], fee)
		pk.SetDenomPairTakerFee(ctx, gmDenoms[i], gmDenoms[j], fee)
	default:
		p := pk.GetParams(ctx)
		p.TakerFeeParams.DefaultTakerFee = osmomath.MustNewDecFromStr(gmTakerFees[r.Intn(len(gmTakerFees))])
		w.c.Logf("governance: default taker fee = %s", p.TakerFeeParams.DefaultTakerFee)
		pk.SetParams(ctx, p)
	}
}


// qctx is the context a query runs in on a real node: the same state, but not the execution mode of block
// processing (process-local caches that only block execution may use are bypassed by queries).
func qctx(ctx sdk.Context) sdk.Context { return ctx.WithExecMode(sdk.ExecModeCheck) }
