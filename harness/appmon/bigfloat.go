//go:build verif

package main

// Reference transcendental functions at 700-bit precision (own series; no use of the
// code under test). Accuracy ≈ 1e-200 relative, far beyond every tolerance used.

import (
	"math/big"
)

const refPrec = 700

func bf(x float64) *big.Float  { return new(big.Float).SetPrec(refPrec).SetFloat64(x) }
func bfInt(x *big.Int) *big.Float { return new(big.Float).SetPrec(refPrec).SetInt(x) }
func bfNew() *big.Float        { return new(big.Float).SetPrec(refPrec) }

// scaled integer / 10^prec as big.Float
func bfScaled(i *big.Int, prec int) *big.Float {
	return bfNew().Quo(bfInt(i), bfInt(pow10(prec)))
}

// atanh(z) for |z| <= 1/3 via series z + z^3/3 + ...
func bfAtanh(z *big.Float) *big.Float {
	z2 := bfNew().Mul(z, z)
	term := bfNew().Set(z)
	sum := bfNew().Set(z)
	eps := bfNew().SetMantExp(bf(1), -refPrec-8)
	for k := 3; k < 4000; k += 2 {
		term.Mul(term, z2)
		t := bfNew().Quo(term, bf(float64(k)))
		sum.Add(sum, t)
		if t.Abs(t).Cmp(bfNew().Mul(eps, bfNew().Abs(sum))) < 0 {
			break
		}
	}
	return sum
}

var bfLn2 = func() *big.Float {
	// ln 2 = 2 atanh(1/3)
	third := bfNew().Quo(bf(1), bf(3))
	return bfNew().Mul(bf(2), bfAtanh(third))
}()

// bfLn returns ln(x), x > 0.
func bfLn(x *big.Float) *big.Float {
	// x = m * 2^k, m in [0.5,1) ; shift to m in [0.75,1.5)
	m := bfNew()
	k := x.MantExp(m)
	if m.Cmp(bf(0.75)) < 0 {
		m.Mul(m, bf(2))
		k--
	}
	num := bfNew().Sub(m, bf(1))
	den := bfNew().Add(m, bf(1))
	z := bfNew().Quo(num, den) // |z| <= 0.2
	lnm := bfNew().Mul(bf(2), bfAtanh(z))
	return lnm.Add(lnm, bfNew().Mul(bf(float64(k)), bfLn2))
}

// bfExp returns e^y.
func bfExp(y *big.Float) *big.Float {
	// reduce: y = n ln2 + r, |r| <= ln2/2 ; then r/2^16 Taylor
	nf := bfNew().Quo(y, bfLn2)
	n, _ := nf.Int64()
	if nf.Sign() < 0 {
		n--
	}
	r := bfNew().Sub(y, bfNew().Mul(bf(float64(n)), bfLn2))
	const s = 16
	r.SetMantExp(r, -s)
	term := bf(1)
	sum := bf(1)
	eps := bfNew().SetMantExp(bf(1), -refPrec-8)
	for k := 1; k < 400; k++ {
		term.Mul(term, r)
		term.Quo(term, bf(float64(k)))
		sum.Add(sum, term)
		if bfNew().Abs(term).Cmp(eps) < 0 {
			break
		}
	}
	for i := 0; i < s; i++ {
		sum.Mul(sum, sum)
	}
	return sum.SetMantExp(sum, int(n))
}

func bfLog2(x *big.Float) *big.Float { return bfNew().Quo(bfLn(x), bfLn2) }
func bfExp2(x *big.Float) *big.Float { return bfExp(bfNew().Mul(x, bfLn2)) }
func bfPow(b, e *big.Float) *big.Float {
	return bfExp(bfNew().Mul(e, bfLn(b)))
}
func bfAbs(x *big.Float) *big.Float { return bfNew().Abs(x) }
func bfF64(x *big.Float) float64   { f, _ := x.Float64(); return f }

func pow10(k int) *big.Int { return new(big.Int).Exp(big.NewInt(10), big.NewInt(int64(k)), nil) }
