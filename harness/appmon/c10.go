//go:build verif

package main

// C10 — TWAP equals the time-weighted mean of the recorded spot prices.
// Oracle: per pool/pair a list of (block time, end-of-block spot prices, errored?) observed by the
// monitor itself; reference integrals in big.Rat, log2 / 2^x in 700-bit floats.

import (
	"sort"
	"fmt"
	"math/big"
	"time"

	sdkmath "cosmossdk.io/math"
	sdk "github.com/cosmos/cosmos-sdk/types"

	"github.com/osmosis-labs/osmosis/osmomath"
	clmodel "github.com/osmosis-labs/osmosis/v31/x/concentrated-liquidity/model"
	cltypes "github.com/osmosis-labs/osmosis/v31/x/concentrated-liquidity/types"
	"github.com/osmosis-labs/osmosis/v31/x/gamm/pool-models/balancer"
	"github.com/osmosis-labs/osmosis/v31/x/gamm/pool-models/stableswap"
	gammtypes "github.com/osmosis-labs/osmosis/v31/x/gamm/types"
	poolmanagertypes "github.com/osmosis-labs/osmosis/v31/x/poolmanager/types"
	twaptypes "github.com/osmosis-labs/osmosis/v31/x/twap/types"
	"github.com/osmosis-labs/osmosis/v31/zzverif/chain"
	"github.com/osmosis-labs/osmosis/v31/zzverif/vk"
)

type c10Obs struct {
	t   time.Time
	sp  *big.Int // SpotPrice(quote=asset0, base=asset1), 18 decimals, as recorded (truncated, clamped)
	sp1 *big.Int // SpotPrice(quote=asset1, base=asset0)
	err bool
}

type c10Pair struct {
	pool   uint64
	a0, a1 string // lexicographic
	obs    []c10Obs
}

func ms(t time.Time) int64 { return t.Round(0).UnixMilli() }

// segments in force on [t0,t1]: returns weighted sums over canonical milliseconds
func (p *c10Pair) integrate(t0, t1 time.Time, val func(o c10Obs) *big.Float, valRat func(o c10Obs) *big.Int) (sumRat *big.Int, sumF *big.Float, touched []c10Obs, ok bool) {
	// index of the observation in force at t0
	i0 := -1
	for i, o := range p.obs {
		if !o.t.After(t0) {
			i0 = i
		}
	}
	if i0 < 0 {
		return nil, nil, nil, false
	}
	sumRat = new(big.Int)
	sumF = bfNew()
	cur := t0
	for i := i0; i < len(p.obs); i++ {
		o := p.obs[i]
		if o.t.After(t1) {
			break
		}
		end := t1
		if i+1 < len(p.obs) && p.obs[i+1].t.Before(t1) {
			end = p.obs[i+1].t
		}
		start := cur
		if o.t.After(start) {
			start = o.t
		}
		// an observation is in force on [start, end); it "touches" the interval if that stretch is non-empty or it
		// sits exactly at t0 / within
		touched = append(touched, o)
		d := ms(end) - ms(start)
		if d > 0 {
			if valRat != nil {
				sumRat.Add(sumRat, new(big.Int).Mul(valRat(o), big.NewInt(d)))
			}
			if val != nil {
				sumF.Add(sumF, bfNew().Mul(val(o), bf(float64(d))))
			}
		}
		cur = end
	}
	return sumRat, sumF, touched, true
}

func runC10(c *vk.Ctx) {
	c.R.Rule = "cases = histories with a balancer, a stableswap and a concentrated pool, 40..120 real blocks of 1 ms .. 3 days (idle blocks, several price moves per block, joins/exits, the concentrated pool emptied and refilled to provoke spot-price errors), keep period 2h..48h with pruning epochs, then 200..500 queries per history: ArithmeticTwap / GeometricTwap / ...ToNow for both quote directions with start/end on, between, just before and after record times, plus degenerate [t, t] point queries. The monitor reads the end-of-block spot prices itself after every block and compares every answer with the time-weighted mean over canonical milliseconds (arithmetic: exact after the final truncation; geometric: within half a unit of the last kept significant figure), checks min/max bounds, reciprocity of the geometric directions, the error flag on intervals in which an errored price was in force, and that answers inside the keep window are identical before and after pruning. distinct_nontrivial counts distinct (pool kind, twap kind, #records in force bucket, starts on record?, ends now?, touches error?, after pruning?) tuples."
	nHist := c.N(240, 2880)
	c.Cases("history", nHist, func(i int, r *vk.Rng) {
		ch := chain.New(chain.Options{Denoms: []string{"aaa", "bbb", "bbbb", "ccc"}, NumAccounts: 6, Epochs: map[string]time.Duration{"day": 6 * time.Hour, "week": 1000 * time.Hour}})
		defer ch.Close()
		tk := ch.App.TwapKeeper
		keep := []time.Duration{2 * time.Hour, 12 * time.Hour, 48 * time.Hour}[r.Intn(3)]
		tp := tk.GetParams(ch.Ctx)
		tp.RecordHistoryKeepPeriod = keep
		tk.SetParams(ch.Ctx, tp)
		ch.NextBlock(5 * time.Second)
		lp, trader := ch.Accs[0], ch.Accs[1]
		// ---- pools
		var pairs []*c10Pair
		kinds := map[uint64]string{}
		newPool := func(kind string, denoms []string) uint64 {
			id := ch.App.PoolManagerKeeper.GetNextPoolId(ch.Ctx) - 1
			kinds[id] = kind
			// pairs are kept in the order x/twap keeps them (asset0 = lexicographically first denom): the
			// geometric accumulator is the log of asset0's price, the other direction is its reciprocal
			denoms = append([]string{}, denoms...)
			sort.Strings(denoms)
			for a := 0; a < len(denoms); a++ {
				for b := a + 1; b < len(denoms); b++ {
					pairs = append(pairs, &c10Pair{pool: id, a0: denoms[a], a1: denoms[b]})
				}
			}
			return id
		}
		amt := func(lo, hi int) sdkmath.Int { return sdkmath.NewIntFromBigInt(r.BigMag(lo, hi)) }
		// the third asset is either uosmo or a denom that has another asset's name as a strict prefix
		third := []string{"uosmo", "bbbb"}[r.Intn(2)]
		bm := balancer.NewMsgCreateBalancerPool(lp.Addr, balancer.NewPoolParams(osmomath.MustNewDecFromStr("0.003"), osmomath.ZeroDec(), nil),
			[]balancer.PoolAsset{{Weight: sdkmath.NewInt(1 + r.I64n(5)), Token: sdk.NewCoin("aaa", amt(8, 14))}, {Weight: sdkmath.NewInt(1 + r.I64n(5)), Token: sdk.NewCoin("bbb", amt(8, 14))}, {Weight: sdkmath.NewInt(1 + r.I64n(5)), Token: sdk.NewCoin(third, amt(8, 14))}}, "")
		if res := ch.Exec(&bm); !res.OK() {
			c.Violate("C10.setup", nil, "balancer: %s", res.ErrString())
			return
		}
		balID := newPool("balancer", []string{"aaa", "bbb", third})
		if i%2 == 1 {
			// a pool creation that fails as a whole after the pool-created hooks have run (the creator cannot pay the
			// initial liquidity); the next pool is handed the same id and has other denoms
			huge := sdkmath.NewIntWithDecimal(1, 45)
			fm := balancer.NewMsgCreateBalancerPool(trader.Addr, balancer.NewPoolParams(osmomath.MustNewDecFromStr("0.003"), osmomath.ZeroDec(), nil),
				[]balancer.PoolAsset{{Weight: sdkmath.NewInt(1), Token: sdk.NewCoin("bbb", huge)}, {Weight: sdkmath.NewInt(1), Token: sdk.NewCoin("ccc", huge)}}, "")
			if res := ch.Exec(&fm); res.OK() {
				c.Violate("C10.setup", nil, "a pool creation with unpayable initial liquidity succeeded")
				return
			}
			c.Count("failed_pool_creations", 1)
		}
		base := amt(9, 13)
		sm := stableswap.NewMsgCreateStableswapPool(lp.Addr, stableswap.PoolParams{SwapFee: osmomath.MustNewDecFromStr("0.001"), ExitFee: osmomath.ZeroDec()}, sdk.NewCoins(sdk.NewCoin("aaa", base), sdk.NewCoin("ccc", base.MulRaw(1+r.I64n(3)))), []uint64{1, 1}, "")
		if res := ch.Exec(&sm); !res.OK() {
			c.Violate("C10.setup", nil, "stableswap: %s", res.ErrString())
			return
		}
		stID := newPool("stableswap", []string{"aaa", "ccc"})
		// token0 / token1 of the concentrated pool in either alphabetical order
		cl0, cl1 := "bbb", "uosmo"
		if r.Bool() {
			cl0, cl1 = "uosmo", "bbb"
		}
		cm := clmodel.NewMsgCreateConcentratedPool(lp.Addr, cl0, cl1, 100, osmomath.MustNewDecFromStr("0.001"))
		if res := ch.Exec(&cm); !res.OK() {
			c.Violate("C10.setup", nil, "cl: %s", res.ErrString())
			return
		}
		clID := newPool("cl", []string{cl0, cl1})
		var clPositions []uint64
		addCLPos := func() {
			a0, a1 := amt(8, 14), amt(8, 14)
			res := ch.Exec(&cltypes.MsgCreatePosition{PoolId: clID, Sender: lp.Addr.String(), LowerTick: cltypes.MinInitializedTick, UpperTick: cltypes.MaxTick, TokensProvided: sdk.NewCoins(sdk.NewCoin("bbb", a0), sdk.NewCoin("uosmo", a1)), TokenMinAmount0: sdkmath.ZeroInt(), TokenMinAmount1: sdkmath.ZeroInt()})
			if res.OK() {
				var rsp cltypes.MsgCreatePositionResponse
				unpackResp(res, "MsgCreatePositionResponse", &rsp)
				clPositions = append(clPositions, rsp.PositionId)
			}
		}
		addCLPos()

		observe := func(t time.Time) {
			for _, p := range pairs {
				o := c10Obs{t: t}
				sp0, e0 := ch.App.PoolManagerKeeper.RouteCalculateSpotPrice(ch.Ctx, p.pool, p.a0, p.a1)
				sp1, e1 := ch.App.PoolManagerKeeper.RouteCalculateSpotPrice(ch.Ctx, p.pool, p.a1, p.a0)
				if e0 != nil || e1 != nil {
					o.err = true
				}
				conv := func(x osmomath.BigDec, e error) *big.Int {
					if e != nil && (x == osmomath.BigDec{}) {
						return new(big.Int)
					}
					if x.GT(twaptypes.MaxSpotPriceBigDec) {
						o.err = true
						return twaptypes.MaxSpotPrice.BigInt()
					}
					return x.Dec().BigInt()
				}
				o.sp, o.sp1 = conv(sp0, e0), conv(sp1, e1)
				if o.sp.Sign() == 0 {
					o.err = true
				}
				p.obs = append(p.obs, o)
			}
		}
		swap := func(pool uint64, din, dout string) {
			bal := ch.Bal(poolmanagertypes.NewPoolAddress(pool), din)
			if !bal.IsPositive() {
				return
			}
			a := sdkmath.MaxInt(sdkmath.OneInt(), bal.QuoRaw(5+r.I64n(2000)))
			ch.Exec(&poolmanagertypes.MsgSwapExactAmountIn{Sender: trader.Addr.String(), Routes: []poolmanagertypes.SwapAmountInRoute{{PoolId: pool, TokenOutDenom: dout}}, TokenIn: sdk.NewCoin(din, a), TokenOutMinAmount: sdkmath.OneInt()})
		}
		nBlocks := c.N(40, 120) + r.Intn(20)
		var pruneMarks []time.Time
		var retainFloor time.Time
		type savedQ struct {
			pair     *c10Pair
			geo      bool
			quote0   bool
			t0, t1   time.Time
			val      osmomath.Dec
			errFlag  bool
			failed   bool
			issuedAt time.Time
		}
		var saved []savedQ
		for b := 0; b < nBlocks; b++ {
			// activity in this block
			for k := r.Intn(4); k > 0; k-- {
				switch r.Intn(8) {
				case 0, 1:
					ds := []string{"aaa", "bbb", third}
					x := r.Intn(3)
					swap(balID, ds[x], ds[(x+1+r.Intn(2))%3])
				case 2:
					if r.Bool() {
						swap(stID, "aaa", "ccc")
					} else {
						swap(stID, "ccc", "aaa")
					}
				case 3, 4:
					if r.Bool() {
						swap(clID, "bbb", "uosmo")
					} else {
						swap(clID, "uosmo", "bbb")
					}
				case 5: // proportional join (touches the pool, keeps the price)
					sh := gammtypes.InitPoolSharesSupply.QuoRaw(10 + r.I64n(1000))
					ch.Exec(&gammtypes.MsgJoinPool{Sender: lp.Addr.String(), PoolId: balID, ShareOutAmount: sh, TokenInMaxs: sdk.NewCoins(sdk.NewCoin("aaa", sdkmath.NewIntWithDecimal(1, 40)), sdk.NewCoin("bbb", sdkmath.NewIntWithDecimal(1, 40)), sdk.NewCoin(third, sdkmath.NewIntWithDecimal(1, 40)))})
				case 6: // empty the concentrated pool: its spot price query errors until it is refilled
					if len(clPositions) > 0 && r.Intn(3) == 0 {
						for _, id := range clPositions {
							pos, err := ch.App.ConcentratedLiquidityKeeper.GetPosition(ch.Ctx, id)
							if err == nil {
								ch.Exec(&cltypes.MsgWithdrawPosition{PositionId: id, Sender: lp.Addr.String(), LiquidityAmount: pos.Liquidity})
							}
						}
						clPositions = nil
					}
				case 7:
					if len(clPositions) < 2 {
						addCLPos()
					}
				}
			}
			var dt time.Duration
			switch r.Intn(7) {
			case 0:
				dt = time.Millisecond * time.Duration(1+r.I64n(5))
			case 1:
				dt = time.Duration(r.I64n(int64(3 * 24 * time.Hour)))
			case 2:
				dt = time.Duration(r.I64n(int64(6 * time.Hour)))
			case 3:
				dt = time.Second * time.Duration(1+r.I64n(10))
			default:
				dt = time.Duration(r.I64n(int64(20 * time.Minute)))
			}
			if i%2 == 0 {
				dt = dt.Round(time.Millisecond) // every other history keeps whole-millisecond block times
			} else if r.Intn(3) == 0 {
				dt += time.Duration(r.I64n(int64(time.Millisecond))) // sub-millisecond parts on top of round steps too
			}
			if dt < time.Millisecond {
				dt = time.Millisecond
			}
			t := ch.Time
			dayBefore := ch.App.EpochsKeeper.GetEpochInfo(ch.Ctx, "day").CurrentEpoch
			ch.NextBlock(dt)
			observe(t)
			if ch.App.EpochsKeeper.GetEpochInfo(ch.Ctx, "day").CurrentEpoch != dayBefore {
				pruneMarks = append(pruneMarks, t)
				if f := t.Add(-keep); f.After(retainFloor) {
					retainFloor = f // everything from here on is inside the retention window of every pruning pass so far
				}
			}
			if i%3 == 0 && b == nBlocks/3 {
				// governance raises the retention period while the chain runs, the way a parameter-change proposal does:
				// straight into the module's parameter subspace
				if ss, ok := ch.App.ParamsKeeper.GetSubspace(twaptypes.ModuleName); ok {
					keep = keep * 2
					ss.Set(ch.Ctx, twaptypes.KeyRecordHistoryKeepPeriod, keep)
					c.Logf("governance: record history keep period raised to %s (parameter subspace)", keep)
					c.Count("keep_period_raised_mid_history", 1)
				}
			}
			// a batch of queries kept for the pruning clause: issued now, re-issued at the end
			if b%7 == 3 && len(saved) < 400 {
				for q := 0; q < 10; q++ {
					p := pairs[r.Intn(len(pairs))]
					if len(p.obs) < 2 {
						continue
					}
					t0 := p.obs[r.Intn(len(p.obs))].t.Add(time.Duration(r.I64n(int64(time.Hour))).Round(time.Millisecond))
					t1 := t0.Add(time.Duration(1 + r.I64n(int64(5*time.Hour))).Round(time.Millisecond) + time.Millisecond)
					if t1.After(t) {
						continue
					}
					sq := savedQ{pair: p, geo: r.Bool(), quote0: r.Bool(), t0: t0, t1: t1, issuedAt: t}
					sq.val, sq.errFlag, sq.failed = c10Query(ch, sq.pair, sq.geo, sq.quote0, sq.t0, sq.t1, false)
					saved = append(saved, sq)
				}
			}
		}
		now := ch.Ctx.BlockTime()
		// ---- pruning clause: answers inside the keep window must not have changed
		lastPrune := time.Time{}
		if len(pruneMarks) > 0 {
			lastPrune = pruneMarks[len(pruneMarks)-1]
		}
		for _, sq := range saved {
			if lastPrune.IsZero() || !sq.issuedAt.Before(lastPrune) {
				continue
			}
			if sq.t0.Before(retainFloor) {
				continue // older than the retention window: may legitimately be gone
			}
			c.Eval(1)
			v, ef, failed := c10Query(ch, sq.pair, sq.geo, sq.quote0, sq.t0, sq.t1, false)
			if failed != sq.failed || (!failed && (!v.Equal(sq.val) || ef != sq.errFlag)) {
				c.Violate("C10.pruning_changed_answer", map[string]any{"pool": kinds[sq.pair.pool], "geometric": sq.geo}, "twap(pool %d %s/%s geo=%v quote0=%v, [%s,%s]) was %s (flag %v, failed %v) before pruning and is %s (flag %v, failed %v) after it; the interval starts inside the %s keep window of the last pruning pass at %s", sq.pair.pool, sq.pair.a0, sq.pair.a1, sq.geo, sq.quote0, sq.t0, sq.t1, sq.val, sq.errFlag, sq.failed, v, ef, failed, keep, lastPrune)
				return
			}
			c.Class("%s|pruning-stable|geo%v", kinds[sq.pair.pool], sq.geo)
		}
		// ---- main query battery
		nQ := c.N(200, 500)
		for q := 0; q < nQ; q++ {
			p := pairs[r.Intn(len(pairs))]
			if len(p.obs) < 2 {
				continue
			}
			// inside the retention window of the last pruning pass (older records may be gone)
			floor := p.obs[0].t
			if !lastPrune.IsZero() && retainFloor.After(floor) {
				floor = retainFloor
			}
			var cand []time.Time
			for _, o := range p.obs {
				if !o.t.Before(floor) {
					cand = append(cand, o.t)
				}
			}
			if len(cand) < 2 {
				continue
			}
			pick := func() (time.Time, bool) {
				t := cand[r.Intn(len(cand))]
				switch r.Intn(4) {
				case 0:
					return t, true
				case 1:
					return t.Add(time.Millisecond), false
				case 2:
					return t.Add(-time.Millisecond), false
				default:
					return t.Add(time.Duration(r.I64n(int64(2 * time.Hour))).Round(time.Millisecond)), false
				}
			}
			t0, onRec := pick()
			t1, _ := pick()
			toNow := r.Intn(5) == 0
			if toNow {
				t1 = now
			}
			if t0.Before(floor) {
				t0 = floor
				onRec = true
			}
			if r.Intn(8) == 0 && !t0.After(now) {
				// degenerate interval [t, t]: the answer is the price in force at t, flagged if that price is an error
				geo, quote0 := r.Bool(), r.Bool()
				c.Eval(1)
				val, errFlag, failed := c10Query(ch, p, geo, quote0, t0, t0, false)
				sig := map[string]any{"pool": kinds[p.pool], "geometric": geo, "to_now": false, "point": true}
				desc := fmt.Sprintf("pool %d (%s) %s/%s quote=%s geo=%v point query at %s", p.pool, kinds[p.pool], p.a0, p.a1, map[bool]string{true: p.a0, false: p.a1}[quote0], geo, t0.Format(time.RFC3339Nano))
				if failed {
					c.Violate("C10.query_failed", sig, "%s failed although the time lies inside the retention window", desc)
					return
				}
				var cur *c10Obs
				for k := range p.obs {
					if !p.obs[k].t.After(t0) {
						cur = &p.obs[k]
					}
				}
				if cur == nil {
					continue
				}
				if cur.err {
					if !errFlag {
						c.Violate("C10.error_flag_missing", sig, "%s: a spot-price error is in force at that time but the answer %s carries no error", desc, val)
						return
					}
					c.Class("%s|point|touches-error", kinds[p.pool])
					continue
				}
				want := cur.sp
				if !quote0 {
					want = cur.sp1
				}
				if d := new(big.Int).Sub(val.BigInt(), want); d.Abs(d).Cmp(big.NewInt(1)) > 0 {
					c.Violate("C10.point_value", sig, "%s = %s, the recorded price in force is %s", desc, val, sdkmath.LegacyNewDecFromBigIntWithPrec(want, 18))
					return
				}
				c.Class("%s|point|onRec%v", kinds[p.pool], onRec)
				continue
			}
			if !t1.After(t0) || t1.After(now) || ms(t1) == ms(t0) {
				continue
			}
			geo, quote0 := r.Bool(), r.Bool()
			c.Eval(1)
			val, errFlag, failed := c10Query(ch, p, geo, quote0, t0, t1, toNow)
			sig := map[string]any{"pool": kinds[p.pool], "geometric": geo, "to_now": toNow}
			desc := fmt.Sprintf("pool %d (%s) %s/%s quote=%s geo=%v toNow=%v [%s, %s]", p.pool, kinds[p.pool], p.a0, p.a1, map[bool]string{true: p.a0, false: p.a1}[quote0], geo, toNow, t0.Format(time.RFC3339Nano), t1.Format(time.RFC3339Nano))
			if failed {
				c.Violate("C10.query_failed", sig, "%s failed although the interval lies inside the retention window", desc)
				return
			}
			// reference
			pick0 := func(o c10Obs) *big.Int {
				if quote0 {
					return o.sp
				}
				return o.sp1
			}
			sumRat, _, touched, ok := p.integrate(t0, t1, nil, pick0)
			if !ok {
				continue
			}
			dms := ms(t1) - ms(t0)
			touchesErr := false
			for _, o := range touched {
				if o.err {
					touchesErr = true
				}
			}
			if touchesErr && !errFlag {
				c.Violate("C10.error_flag_missing", sig, "%s: a spot-price error was in force during the interval but the answer %s carries no error", desc, val)
				return
			}
			if touchesErr {
				c.Class("%s|geo%v|touches-error", kinds[p.pool], geo)
				continue // values over errored stretches are not promised
			}
			var lo, hi *big.Int
			for _, o := range touched {
				v := pick0(o)
				if geo && !quote0 {
					// the asset1-quoted geometric twap is defined as the reciprocal of the asset0-quoted one
					v = new(big.Int).Quo(new(big.Int).Exp(big.NewInt(10), big.NewInt(36), nil), o.sp)
				}
				if lo == nil || v.Cmp(lo) < 0 {
					lo = v
				}
				if hi == nil || v.Cmp(hi) > 0 {
					hi = v
				}
			}
			if !geo {
				want := new(big.Int).Quo(sumRat, big.NewInt(dms))
				diff := new(big.Int).Sub(val.BigInt(), want)
				if diff.Abs(diff).Cmp(big.NewInt(1)) > 0 {
					c.Violate("C10.arithmetic_value", sig, "%s = %s, time-weighted mean of the %d prices in force is %s", desc, val, len(touched), sdkmath.LegacyNewDecFromBigIntWithPrec(want, 18))
					return
				}
				if val.BigInt().Cmp(new(big.Int).Sub(lo, big.NewInt(1))) < 0 || val.BigInt().Cmp(new(big.Int).Add(hi, big.NewInt(1))) > 0 {
					c.Violate("C10.bounds", sig, "%s = %s outside [min, max] = [%s, %s] of the prices in force", desc, val, lo, hi)
					return
				}
			} else {
				// 2^(Σ log2(sp0)·Δ / ΣΔ), inverted for the asset1 quote
				_, sumF, _, _ := p.integrate(t0, t1, func(o c10Obs) *big.Float { return bfLog2(bfScaled(o.sp, 18)) }, nil)
				mean := bfNew().Quo(sumF, bf(float64(dms)))
				ref := bfExp2(mean)
				if !quote0 {
					ref = bfNew().Quo(bf(1), ref)
				}
				got := bfScaled(val.BigInt(), 18)
				// half a unit of the last kept significant figure (SigFigRound with 1e8), plus the 18-decimal
				// truncations of the per-record logarithm, of the mean and of the result
				k := 0
				x := bfNew().Set(ref)
				for x.Cmp(bf(0.1)) < 0 && k < 40 {
					x.Mul(x, bf(10))
					k++
				}
				tol := bfNew().Quo(bf(0.5), bfInt(pow10(8+k)))
				tol.Add(tol, bfNew().Mul(ref, bf(8e-18)))
				tol.Add(tol, bf(2e-18))
				diff := bfAbs(bfNew().Sub(got, ref))
				c.Max("geometric_diff_over_tol", bfF64(bfNew().Quo(diff, tol)), desc)
				if diff.Cmp(tol) > 0 {
					// the implementation returns 0 whenever the difference of the geometric accumulators is exactly zero,
					// i.e. when the time-weighted mean of the logarithms is 0 (all prices exactly 1, or exact cancellation)
					sig["log_mean_zero_answer_zero"] = val.IsZero() && bfAbs(mean).Cmp(bf(1e-17)) < 0
					c.Violate("C10.geometric_value", sig, "%s = %s, 2^(time-weighted mean of log2 of the %d prices in force) = %s, |diff| %.3e > %.3e", desc, val, len(touched), ref.Text('f', 24), bfF64(diff), bfF64(tol))
					if sig["log_mean_zero_answer_zero"] == true {
						continue // recorded finding, keep monitoring
					}
					return
				}
				loF, hiF := bfNew().Sub(bfScaled(lo, 18), tol), bfNew().Add(bfScaled(hi, 18), tol)
				if got.Cmp(loF) < 0 || got.Cmp(hiF) > 0 {
					c.Violate("C10.bounds", sig, "%s = %s outside [min, max] = [%s, %s] of the prices in force", desc, val, sdkmath.LegacyNewDecFromBigIntWithPrec(lo, 18), sdkmath.LegacyNewDecFromBigIntWithPrec(hi, 18))
					return
				}
				// reciprocity of the two quote directions
				other, oe, ofail := c10Query(ch, p, true, !quote0, t0, t1, toNow)
				if !ofail && !oe && !other.IsZero() {
					prod := bfNew().Mul(got, bfScaled(other.BigInt(), 18))
					dev := bfAbs(bfNew().Sub(prod, bf(1)))
					// each side is rounded to 8 significant figures
					rt := bfNew().Add(bfNew().Quo(tol, ref), bfNew().Quo(bfNew().Quo(bf(0.5), bfInt(pow10(7))), bf(1)))
					if dev.Cmp(bfNew().Add(rt, bf(2e-7))) > 0 {
						c.Violate("C10.reciprocity", sig, "%s: g(a,b)·g(b,a) = %s", desc, prod.Text('f', 12))
						return
					}
				}
			}
			c.Class("%s|geo%v|rec%d|onRec%v|toNow%v|pruned%v", kinds[p.pool], geo, bucket(len(touched)), onRec, toNow, !lastPrune.IsZero())
			if q < 1 && i < 2 {
				c.Sample(map[string]any{"query": desc, "answer": val.String(), "records_in_force": len(touched), "keep_period": keep.String(), "blocks": nBlocks})
			}
		}
	})
}

// c10Query issues one twap query; returns value, error flag (value returned together with an error) and
// failed (no value at all).
func c10Query(ch *chain.Chain, p *c10Pair, geo, quote0 bool, t0, t1 time.Time, toNow bool) (osmomath.Dec, bool, bool) {
	base, quote := p.a1, p.a0
	if !quote0 {
		base, quote = p.a0, p.a1
	}
	tk := ch.App.TwapKeeper
	var v osmomath.Dec
	var err error
	rec, _ := vk.Guard(func() {
		switch {
		case geo && toNow:
			v, err = tk.GetGeometricTwapToNow(ch.Ctx, p.pool, base, quote, t0)
		case geo:
			v, err = tk.GetGeometricTwap(ch.Ctx, p.pool, base, quote, t0, t1)
		case toNow:
			v, err = tk.GetArithmeticTwapToNow(ch.Ctx, p.pool, base, quote, t0)
		default:
			v, err = tk.GetArithmeticTwap(ch.Ctx, p.pool, base, quote, t0, t1)
		}
	})
	if rec != nil || v.IsNil() {
		return osmomath.Dec{}, err != nil, true
	}
	return v, err != nil, false
}
