//go:build verif

package main

import (
	"fmt"
	"time"

	sdkmath "cosmossdk.io/math"
	sdk "github.com/cosmos/cosmos-sdk/types"

	"github.com/osmosis-labs/osmosis/osmomath"
	"github.com/osmosis-labs/osmosis/v31/x/gamm/pool-models/balancer"
	poolmanagertypes "github.com/osmosis-labs/osmosis/v31/x/poolmanager/types"
	"github.com/osmosis-labs/osmosis/v31/zzverif/chain"
	"github.com/osmosis-labs/osmosis/v31/zzverif/vk"
)

func runSmoke(c *vk.Ctx) {
	t0 := time.Now()
	ch := chain.New(chain.Options{Denoms: []string{"foo", "bar", "baz"}})
	defer ch.Close()
	fmt.Println("chain up in", time.Since(t0))
	t0 = time.Now()
	ch.NextBlock(5 * time.Second)
	fmt.Println("block in", time.Since(t0), "height", ch.Height)
	a := ch.Accs[0]
	msg := balancer.NewMsgCreateBalancerPool(a.Addr, balancer.NewPoolParams(osmomath.MustNewDecFromStr("0.003"), osmomath.ZeroDec(), nil),
		[]balancer.PoolAsset{{Weight: sdkmath.NewInt(1), Token: sdk.NewCoin("foo", sdkmath.NewInt(5000000))}, {Weight: sdkmath.NewInt(1), Token: sdk.NewCoin("bar", sdkmath.NewInt(5000000))}}, "")
	r := ch.Exec(&msg)
	fmt.Println("create pool:", r.OK(), r.ErrString())
	sw := &poolmanagertypes.MsgSwapExactAmountIn{Sender: ch.Accs[1].Addr.String(), Routes: []poolmanagertypes.SwapAmountInRoute{{PoolId: 1, TokenOutDenom: "bar"}}, TokenIn: sdk.NewCoin("foo", sdkmath.NewInt(1000)), TokenOutMinAmount: sdkmath.OneInt()}
	t0 = time.Now()
	r = ch.Exec(sw)
	fmt.Println("swap:", r.OK(), r.ErrString(), time.Since(t0))
	for i := 0; i < 5; i++ {
		ch.NextBlock(5 * time.Second)
	}
	fmt.Println("height", ch.Height, "bal", ch.Bal(ch.Accs[1].Addr, "bar"))
	c.Eval(1)
}

func runSmokeTx(c *vk.Ctx) {
	ch := chain.New(chain.Options{Denoms: []string{"foo", "bar"}})
	defer ch.Close()
	a := ch.Accs[0]
	msg := balancer.NewMsgCreateBalancerPool(a.Addr, balancer.NewPoolParams(osmomath.MustNewDecFromStr("0.003"), osmomath.ZeroDec(), nil),
		[]balancer.PoolAsset{{Weight: sdkmath.NewInt(1), Token: sdk.NewCoin("foo", sdkmath.NewInt(5000000))}, {Weight: sdkmath.NewInt(1), Token: sdk.NewCoin("bar", sdkmath.NewInt(5000000))}}, "")
	tx1 := ch.Tx(a, &msg)
	sw := &poolmanagertypes.MsgSwapExactAmountIn{Sender: ch.Accs[1].Addr.String(), Routes: []poolmanagertypes.SwapAmountInRoute{{PoolId: 1, TokenOutDenom: "bar"}}, TokenIn: sdk.NewCoin("foo", sdkmath.NewInt(1000)), TokenOutMinAmount: sdkmath.OneInt()}
	tx2 := ch.Tx(ch.Accs[1], sw)
	sw2 := &poolmanagertypes.MsgSwapExactAmountIn{Sender: ch.Accs[1].Addr.String(), Routes: []poolmanagertypes.SwapAmountInRoute{{PoolId: 1, TokenOutDenom: "bar"}}, TokenIn: sdk.NewCoin("foo", sdkmath.NewInt(1000)), TokenOutMinAmount: sdkmath.NewInt(100000)}
	tx3 := ch.Tx(ch.Accs[1], sw2)
	t0 := time.Now()
	res := ch.NextBlock(5*time.Second, tx1, tx2, tx3)
	for i, r := range res.TxResults {
		fmt.Println(i, chain.ResultString(r), len(r.Events))
	}
	fmt.Println("block with 3 txs in", time.Since(t0), "apphash", fmt.Sprintf("%X", res.AppHash)[:16])
	c.Eval(1)
}

func runDbg19(c *vk.Ctx) {
	ch := chain.New(c19Options())
	defer ch.Close()
	fmt.Println("assets at start", ch.App.SuperfluidKeeper.GetAllSuperfluidAssets(ch.Ctx))
	g := &c19Gen{ch: ch, r: vk.NewRng(7)}
	for b := 0; b < 4; b++ {
		txs, _ := g.setupBlock(b)
		ch.NextBlock(5*time.Second, txs...)
	}
	for k := 0; k < 5; k++ {
		ch.NextBlock(time.Hour)
		fmt.Println("mult", ch.App.SuperfluidKeeper.GetOsmoEquivalentMultiplier(ch.Ctx, "gamm/pool/1"), "assets", ch.App.SuperfluidKeeper.GetAllSuperfluidAssets(ch.Ctx), "epochid", ch.App.SuperfluidKeeper.GetEpochIdentifier(ch.Ctx))
		ei := ch.App.EpochsKeeper.GetEpochInfo(ch.Ctx, "week")
		fmt.Println("week epoch", ei.CurrentEpoch, "hook err:", ch.App.SuperfluidKeeper.Hooks().AfterEpochEnd(ch.Fork(), "week", ei.CurrentEpoch))
	}
}
