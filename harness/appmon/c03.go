//go:build verif

package main

// C03 — concentrated swaps follow the curve, round in the pool's favour, match quotes.

import (
	"fmt"
	"math/big"

	sdkmath "cosmossdk.io/math"
	sdk "github.com/cosmos/cosmos-sdk/types"

	"github.com/osmosis-labs/osmosis/osmomath"
	clmath "github.com/osmosis-labs/osmosis/v31/x/concentrated-liquidity/math"
	"github.com/osmosis-labs/osmosis/v31/x/concentrated-liquidity/swapstrategy"
	cltypes "github.com/osmosis-labs/osmosis/v31/x/concentrated-liquidity/types"
	pmclient "github.com/osmosis-labs/osmosis/v31/x/poolmanager/client"
	pmquery "github.com/osmosis-labs/osmosis/v31/x/poolmanager/client/queryproto"
	poolmanagertypes "github.com/osmosis-labs/osmosis/v31/x/poolmanager/types"
	"github.com/osmosis-labs/osmosis/v31/zzverif/vk"
)

var ulp36Rat = new(big.Rat).SetFrac(big.NewInt(1), ratE36)

// c03Bound computes the per-witness rounding allowance from the reference walk (DESIGN C03).
func c03Bound(wk clWalk, zeroForOne, exactIn bool, spread *big.Rat) *big.Rat {
	one := big.NewRat(1, 1)
	b := big.NewRat(1, 1)
	for _, s := range wk.steps {
		pa, pb := s.sqrtA, s.sqrtB
		inv := new(big.Rat)
		if pa.Sign() > 0 && pb.Sign() > 0 {
			inv.Inv(new(big.Rat).Mul(pa, pb))
		}
		f := one
		if inv.Cmp(one) > 0 {
			f = inv
		}
		t := new(big.Rat).Mul(new(big.Rat).Mul(big.NewRat(4, 1), ulp36Rat), new(big.Rat).Mul(s.L, f))
		ti := new(big.Rat).SetInt(ratCeil(t))
		// marginal price of the step: output units per input unit (exact-in) or input per output (exact-out)
		// evaluated at the start of the step, where it is largest along the walk
		p2 := new(big.Rat).Mul(pa, pa)
		var m *big.Rat
		if p2.Sign() == 0 {
			m = new(big.Rat)
		} else if zeroForOne == exactIn {
			// zfo exact-in: token1 out per token0 in = P ; ofz exact-out: token1 in per token0 out = P
			m = p2
			if !exactIn { // price rises along a one-for-zero walk: the end of the step is the expensive side
				m = new(big.Rat).Mul(pb, pb)
			}
		} else {
			m = new(big.Rat).Inv(p2)
			if !exactIn {
				m = new(big.Rat).Inv(new(big.Rat).Mul(pb, pb))
			}
		}
		step := new(big.Rat).Add(ti, big.NewRat(2, 1))
		step.Add(step, new(big.Rat).Mul(big.NewRat(2, 1), m))
		// the spread charge uses f/(1−f) rounded up at 18 decimals: up to 2e-18 of the step's input is charged
		// on top (exact-out) resp. is not available to later steps (exact-in, worth m output units each)
		feeRound := new(big.Rat).Mul(s.curveIn, big.NewRat(2, 1e18))
		if exactIn {
			step.Add(step, new(big.Rat).Mul(feeRound, m))
		} else {
			step.Add(step, feeRound)
			step.Add(step, new(big.Rat).Mul(ti, m))
		}
		b.Add(b, step)
	}
	if !exactIn {
		b.Quo(b, new(big.Rat).Sub(one, spread))
		b.Add(b, one)
	}
	return b
}

func runC03(c *vk.Ctx) {
	c.R.Rule = "cases = the common concentrated-liquidity histories with a swap-heavy mix (see C07). For EVERY swap message: the estimate queries (pool-manager EstimateSwapExactAmountIn/Out and the CL Calc*) are evaluated on the same state and the digest of the CL and bank stores is compared before/after; an exact big.Rat walker over the pool/all-ticks queries yields the ideal amount; an executed swap must equal the estimate, must not beat the ideal (exact inequality) and must be within the per-witness rounding bound of it; a there-and-back pair is run on a discarded branch. A second part checks the exported per-bucket swap functions at ulp level. distinct_nontrivial counts distinct (direction, exact-in/out, #ticks crossed bucket, landed-on-tick?, spread factor, hit-gap?, outcome) tuples among swaps plus (function, direction, reached-target?) cells."
	nHist := c.N(1440, 2400)
	opsPer := c.N(40, 150)
	hooks := clHooks{}
	hooks.beforeSwap = func(w *clWorld, zfo, exactIn bool, amount sdkmath.Int) func(clSwapRec) {
		ctx := w.ch.Ctx
		st := clReadState(w, ctx)
		if st == nil {
			return nil
		}
		wk := st.walk(zfo, exactIn, amount.BigInt())
		din, dout := w.d0, w.d1
		if !zfo {
			din, dout = w.d1, w.d0
		}
		sig := map[string]any{"zero_for_one": zfo, "exact_in": exactIn}
		// ---- estimates on the same state, digest before/after
		before := w.ch.Digest(ctx, "concentratedliquidity", "bank", "poolmanager")
		q := pmclient.NewQuerier(w.ch.App.PoolManagerKeeper)
		var est, est2 sdkmath.Int
		var estErr, est2Err error
		rec0, _ := vk.Guard(func() {
			if exactIn {
				r1, e := q.EstimateSwapExactAmountIn(qctx(ctx), pmquery.EstimateSwapExactAmountInRequest{TokenIn: sdk.NewCoin(din, amount).String(), Routes: []poolmanagertypes.SwapAmountInRoute{{PoolId: w.poolID, TokenOutDenom: dout}}})
				estErr = e
				if e == nil {
					est = r1.TokenOutAmount
				}
				p, _ := w.ch.App.ConcentratedLiquidityKeeper.GetPool(ctx, w.poolID)
				cn, e2 := w.ch.App.ConcentratedLiquidityKeeper.CalcOutAmtGivenIn(ctx, p, sdk.NewCoin(din, amount), dout, w.spread)
				est2Err = e2
				if e2 == nil {
					est2 = cn.Amount
				}
			} else {
				r1, e := q.EstimateSwapExactAmountOut(qctx(ctx), pmquery.EstimateSwapExactAmountOutRequest{TokenOut: sdk.NewCoin(dout, amount).String(), Routes: []poolmanagertypes.SwapAmountOutRoute{{PoolId: w.poolID, TokenInDenom: din}}})
				estErr = e
				if e == nil {
					est = r1.TokenInAmount
				}
				p, _ := w.ch.App.ConcentratedLiquidityKeeper.GetPool(ctx, w.poolID)
				cn, e2 := w.ch.App.ConcentratedLiquidityKeeper.CalcInAmtGivenOut(ctx, p, sdk.NewCoin(dout, amount), din, w.spread)
				est2Err = e2
				if e2 == nil {
					est2 = cn.Amount
				}
			}
		})
		if rec0 != nil { // the swap step panics by design on a slightly negative fee remainder; an estimate has no recover of its own
			estErr = fmt.Errorf("panic: %v", rec0)
			est2Err = estErr
		}
		c.Eval(2)
		if exactIn && w.r.Intn(3) == 0 {
			// the price-impact estimate (a search that asks the pool for many quotes in a row): what it reports as
			// output for the input it settles on must be what a plain quote of that input returns on the same state
			var pi *pmquery.EstimateTradeBasedOnPriceImpactResponse
			var piErr error
			imp := sdkmath.LegacyNewDecWithPrec(1+w.r.I64n(60), 2)
			recP, _ := vk.Guard(func() {
				pi, piErr = q.EstimateTradeBasedOnPriceImpact(qctx(ctx), pmquery.EstimateTradeBasedOnPriceImpactRequest{FromCoin: sdk.NewCoin(din, amount), ToCoinDenom: dout, PoolId: w.poolID, MaxPriceImpact: imp, ExternalPrice: sdkmath.LegacyZeroDec()})
			})
			if recP == nil && piErr == nil && pi != nil && pi.InputCoin.Amount.IsPositive() {
				var plain sdk.Coin
				var plainErr error
				recQ, _ := vk.Guard(func() {
					p, _ := w.ch.App.ConcentratedLiquidityKeeper.GetPool(ctx, w.poolID)
					plain, plainErr = w.ch.App.ConcentratedLiquidityKeeper.CalcOutAmtGivenIn(ctx, p, pi.InputCoin, dout, w.spread)
				})
				c.Eval(1)
				if recQ == nil && plainErr == nil && !plain.Amount.Equal(pi.OutputCoin.Amount) {
					c.Violate("C03.estimate_vs_execution", map[string]any{"zero_for_one": zfo, "exact_in": true, "price_impact_estimate": true}, "EstimateTradeBasedOnPriceImpact(%s%s -> %s, max impact %s) settles on input %s and reports output %s, a plain quote of that input on the same state gives %s", amount, din, dout, imp, pi.InputCoin, pi.OutputCoin, plain)
					return nil
				}
				c.Class("price-impact-estimate|zfo%v|agrees", zfo)
			}
		}
		if w.ch.Digest(ctx, "concentratedliquidity", "bank", "poolmanager") != before {
			c.Violate("C03.estimate_changed_state", sig, "the estimate queries for %s (zfo=%v exactIn=%v) changed the concentrated-liquidity / bank / pool-manager stores", amount, zfo, exactIn)
			return nil
		}
		// ---- there and straight back on a discarded branch
		if exactIn {
			f := w.ch.Fork()
			tr := w.traders[0].Addr
			b0 := w.ch.BalOn(f, tr, din)
			r1 := w.ch.ExecOn(f, &poolmanagertypes.MsgSwapExactAmountIn{Sender: tr.String(), Routes: []poolmanagertypes.SwapAmountInRoute{{PoolId: w.poolID, TokenOutDenom: dout}}, TokenIn: sdk.NewCoin(din, amount), TokenOutMinAmount: sdkmath.OneInt()})
			if r1.OK() {
				var rsp poolmanagertypes.MsgSwapExactAmountInResponse
				unpackResp(r1, "MsgSwapExactAmountInResponse", &rsp)
				r2 := w.ch.ExecOn(f, &poolmanagertypes.MsgSwapExactAmountIn{Sender: tr.String(), Routes: []poolmanagertypes.SwapAmountInRoute{{PoolId: w.poolID, TokenOutDenom: din}}, TokenIn: sdk.NewCoin(dout, rsp.TokenOutAmount), TokenOutMinAmount: sdkmath.OneInt()})
				c.Eval(1)
				if r2.OK() {
					if b1 := w.ch.BalOn(f, tr, din); b1.GT(b0) {
						c.Violate("C03.round_trip_profit", sig, "swapping %s%s to %s%s and straight back left the trader with %s more %s than before", amount, din, rsp.TokenOutAmount, dout, b1.Sub(b0), din)
						return nil
					}
					c.Count("round_trips", 1)
				}
			}
		}
		return func(rec clSwapRec) {
			c.Eval(1)
			cls := func(outcome string) {
				c.Class("%v|%v|x%d|on%v|sf%s|gap%v|%s", zfo, exactIn, min(wk.crossings, 4), wk.landedOn, w.spread.String()[:6], wk.hitGap, outcome)
			}
			if !rec.executed {
				cls("rejected")
				return
			}
			got := rec.out
			if !exactIn {
				got = rec.in
			}
			if !rec.respAmount.Equal(got) {
				c.Violate("C03.response_vs_balance", sig, "swap of %s: the response reports %s but the trader's balance moved by in %s / out %s", amount, rec.respAmount, rec.in, rec.out)
				return
			}
			specified := rec.in
			if !exactIn {
				specified = rec.out
			}
			partial := !specified.Equal(amount)
			oneLess := false
			if !exactIn && !wk.hitLimit && specified.Equal(amount.SubRaw(1)) {
				// an exact-out swap stops once the remaining output is <= 1e-18 and then truncates
				// (requested − remainder) to whole units: it may deliver one unit less than requested
				partial = false
				c.Count("exact_out_delivered_one_less", 1)
				// direction is decided against what was delivered, closeness against what was computed (the request)
				wkDelivered := st.walk(zfo, exactIn, specified.BigInt())
				if wkDelivered.ok && new(big.Rat).SetInt(rec.in.BigInt()).Cmp(wkDelivered.idealIn) < 0 {
					sig["clause"] = "undercharged"
					c.Violate("C03.curve_direction", sig, "exact-out swap delivered %s%s and charged %s, the exact curve prescribes %s for that output", specified, dout, rec.in, wkDelivered.idealIn.FloatString(12))
					return
				}
				oneLess = true
			}
			if partial {
				c.Count("partially_filled_swaps", 1)
				if !wk.hitLimit {
					c.Violate("C03.partial_fill", sig, "swap of %s was only filled to %s although the price limit was not reached (in %s out %s)", amount, specified, rec.in, rec.out)
					return
				}
			}
			// (c) estimate == execution
			if estErr != nil || est2Err != nil {
				c.Violate("C03.estimate_vs_execution", sig, "swap of %s executed (in %s out %s) but the estimate on the same state failed: %v / %v", amount, rec.in, rec.out, estErr, est2Err)
				return
			}
			if !est.Equal(got) || !est2.Equal(got) {
				c.Violate("C03.estimate_vs_execution", sig, "swap of %s executed with %s, pool-manager estimate %s, CL estimate %s", amount, got, est, est2)
				return
			}
			if !wk.ok && !partial {
				c.Violate("C03.filled_beyond_liquidity", sig, "swap of %s executed (in %s out %s) although the initialised ticks do not hold enough liquidity for it; state before: %s; walk: %d steps, %d crossings", amount, rec.in, rec.out, st.describe(), len(wk.steps), wk.crossings)
				return
			}
			bound := c03Bound(wk, zfo, exactIn, st.spread)
			g := new(big.Rat).SetInt(got.BigInt())
			var gap *big.Rat
			if wk.hitLimit {
				// stopped at the global price limit: everything up to the limit was traded; both sides are decided
				gi, gOut := new(big.Rat).SetInt(rec.in.BigInt()), new(big.Rat).SetInt(rec.out.BigInt())
				if gOut.Cmp(wk.idealOut) > 0 || gi.Cmp(new(big.Rat).Sub(wk.idealIn, big.NewRat(0, 1))) < 0 {
					sig["clause"] = "at_price_limit"
					c.Violate("C03.curve_direction", sig, "swap of %s stopped at the price limit with in %s out %s; the exact curve up to the limit takes %s and pays %s", amount, rec.in, rec.out, wk.idealIn.FloatString(6), wk.idealOut.FloatString(6))
					return
				}
				// and both sides stay within the rounding bound of the walk up to the limit: the trader is charged what the
				// curve consumed, not what was offered
				bIn, bOut := c03Bound(wk, zfo, false, st.spread), c03Bound(wk, zfo, true, st.spread)
				gapIn, gapOut := new(big.Rat).Sub(gi, wk.idealIn), new(big.Rat).Sub(wk.idealOut, gOut)
				if gapIn.Cmp(bIn) > 0 || gapOut.Cmp(bOut) > 0 {
					sig["clause"] = "at_price_limit"
					c.Violate("C03.rounding_bound", sig, "swap of %s stopped at the price limit with in %s out %s; the exact curve up to the limit takes %s and pays %s: off by %s / %s, rounding bounds %s / %s (%d steps)", amount, rec.in, rec.out, wk.idealIn.FloatString(6), wk.idealOut.FloatString(6), gapIn.FloatString(6), gapOut.FloatString(6), bIn.FloatString(3), bOut.FloatString(3), len(wk.steps))
					return
				}
				cls("executed-to-limit")
				return
			}
			if exactIn {
				// (a) never pays more than the curve
				if g.Cmp(wk.idealOut) > 0 {
					sig["clause"] = "overpaid"
					c.Violate("C03.curve_direction", sig, "exact-in swap of %s%s paid out %s, the exact curve (same ticks, spread %s) prescribes %s", amount, din, got, w.spread, wk.idealOut.FloatString(12))
					return
				}
				gap = new(big.Rat).Sub(wk.idealOut, g)
			} else {
				if g.Cmp(wk.idealIn) < 0 && !oneLess {
					sig["clause"] = "undercharged"
					c.Violate("C03.curve_direction", sig, "exact-out swap for %s%s charged %s, the exact curve (same ticks, spread %s) prescribes %s", amount, dout, got, w.spread, wk.idealIn.FloatString(12))
					return
				}
				gap = new(big.Rat).Sub(g, wk.idealIn)
				if gap.Sign() < 0 {
					gap = new(big.Rat) // one-less case: charged for (request − 1e-18), i.e. marginally below the ideal for the request
				}
			}
			rf, _ := new(big.Rat).Quo(gap, bound).Float64()
			c.Max("curve_gap_over_bound", rf, fmt.Sprintf("zfo=%v exactIn=%v amount=%s steps=%d gap=%s bound=%s", zfo, exactIn, amount, len(wk.steps), gap.FloatString(3), bound.FloatString(3)))
			if rf > 1 {
				c.Violate("C03.curve_closeness", sig, "swap of %s (zfo=%v exactIn=%v) result %s differs from the exact curve by %s, rounding bound for this walk (%d steps) is %s; ideal %s/%s; state before: %s", amount, zfo, exactIn, got, gap.FloatString(6), len(wk.steps), bound.FloatString(6), wk.idealIn.FloatString(3), wk.idealOut.FloatString(3), st.describe())
				return
			}
			cls("executed")
		}
	}
	runCLHistories(c, "swap-heavy", nHist, opsPer, hooks, nil)
	runC03Buckets(c)
}

// ---------------------------------------------------------------- ulp level (O-ulp)

func runC03Buckets(c *vk.Ctx) {
	one := big.NewRat(1, 1)
	c.Cases("bucket-math", c.N(60000, 4000000), func(i int, r *vk.Rng) {
		zfo := r.Bool()
		exactIn := r.Bool()
		f := cltypes.AuthorizedSpreadFactors[r.Intn(len(cltypes.AuthorizedSpreadFactors))]
		// current and target sqrt prices from real ticks
		t1 := r.Range(cltypes.MinInitializedTick+1, cltypes.MaxTick-2)
		dt := 1 + r.I64n(1+int64(r.Intn(6))*int64(r.Intn(200000)+1))
		var tc, tt int64
		if zfo {
			tc, tt = t1, t1-dt
			if tt < cltypes.MinInitializedTick {
				tt = cltypes.MinInitializedTick
			}
		} else {
			tc, tt = t1, t1+dt
			if tt > cltypes.MaxTick {
				tt = cltypes.MaxTick
			}
		}
		if tc == tt {
			return
		}
		sc, _ := clmath.TickToSqrtPrice(tc)
		stt, _ := clmath.TickToSqrtPrice(tt)
		if r.Intn(3) == 0 { // current price strictly inside a bucket (36-decimal value)
			delta := stt.Sub(sc)
			frac := osmomath.NewBigDecWithPrec(1+r.I64n(999), 3)
			sc = sc.Add(delta.Mul(frac).Mul(osmomath.NewBigDecWithPrec(1, 1)))
		}
		if sc.Equal(stt) {
			return
		}
		li := r.BigMag(6, 48)
		L := sdkmath.LegacyNewDecFromBigIntWithPrec(li, 18)
		rL := new(big.Rat).SetFrac(li, ratE18i)
		rc, rt := ratBD(sc), ratBD(stt)
		rf := ratD(f)
		omf := new(big.Rat).Sub(one, rf)
		// amounts to reach the target exactly
		var fullIn, fullOut *big.Rat
		if zfo {
			fullIn = new(big.Rat).Mul(rL, new(big.Rat).Sub(new(big.Rat).Inv(rt), new(big.Rat).Inv(rc)))
			fullOut = new(big.Rat).Mul(rL, new(big.Rat).Sub(rc, rt))
		} else {
			fullIn = new(big.Rat).Mul(rL, new(big.Rat).Sub(rt, rc))
			fullOut = new(big.Rat).Mul(rL, new(big.Rat).Sub(new(big.Rat).Inv(rc), new(big.Rat).Inv(rt)))
		}
		ref := fullIn
		if !exactIn {
			ref = fullOut
		}
		// remaining amount: below, around and above what the bucket can absorb
		var rem *big.Rat
		switch r.Intn(4) {
		case 0:
			rem = new(big.Rat).Mul(ref, big.NewRat(1+r.I64n(999), 1000))
		case 1:
			rem = new(big.Rat).Mul(ref, big.NewRat(1001+r.I64n(5000), 1000))
		case 2:
			rem = new(big.Rat).Add(ref, big.NewRat(r.Range(-2, 2), 1))
		default:
			rem = new(big.Rat).SetInt(r.BigMag(0, 30))
		}
		if exactIn {
			rem.Quo(rem, omf)
		}
		remI := new(big.Int).Quo(new(big.Int).Mul(rem.Num(), ratE18i), rem.Denom())
		if remI.Sign() <= 0 || remI.BitLen() > 250 {
			return
		}
		remD := sdkmath.LegacyNewDecFromBigIntWithPrec(remI, 18)
		rRem := new(big.Rat).SetFrac(remI, ratE18i)
		strat := swapstrategy.New(zfo, osmomath.ZeroBigDec(), nil, f)
		var next osmomath.BigDec
		var a1, a2, fee osmomath.Dec
		rec, _ := vk.Guard(func() {
			if exactIn {
				next, a1, a2, fee = strat.ComputeSwapWithinBucketOutGivenIn(sc, stt, L, remD)
			} else {
				next, a1, a2, fee = strat.ComputeSwapWithinBucketInGivenOut(sc, stt, L, remD)
			}
		})
		c.Eval(1)
		if rec != nil {
			c.Class("bucket|%v|%v|panic", zfo, exactIn)
			return
		}
		rn := ratBD(next)
		sig := map[string]any{"zero_for_one": zfo, "exact_in": exactIn}
		desc := fmt.Sprintf("zfo=%v exactIn=%v cur=%s target=%s L=%s remaining=%s spread=%s -> next=%s", zfo, exactIn, sc, stt, L, remD, f, next)
		// the price moves toward the target and never beyond it
		lo, hi := rt, rc
		if !zfo {
			lo, hi = rc, rt
		}
		if (zfo && rn.Cmp(rc) > 0) || (!zfo && rn.Cmp(rc) < 0) {
			c.Violate("C03.bucket_price_range", sig, "%s: the price moved away from the target", desc)
			return
		}
		if rn.Cmp(lo) < 0 || rn.Cmp(hi) > 0 {
			// with liquidity so thin that the whole-unit round-up of the step's input exceeds what is offered, the
			// partial-step formula overshoots the target; computeOut/InAmt rejects such a swap
			// (ComputedSqrtPriceInequalityError). Counted, not a violation at this level.
			c.Class("bucket|%v|%v|overshoot-rejected-upstream", zfo, exactIn)
			return
		}
		reached := next.Equal(stt)
		// exact amounts for the move current -> next
		var mvIn, mvOut *big.Rat
		if zfo {
			mvIn = new(big.Rat).Mul(rL, new(big.Rat).Sub(new(big.Rat).Inv(rn), new(big.Rat).Inv(rc)))
			mvOut = new(big.Rat).Mul(rL, new(big.Rat).Sub(rc, rn))
		} else {
			mvIn = new(big.Rat).Mul(rL, new(big.Rat).Sub(rn, rc))
			mvOut = new(big.Rat).Mul(rL, new(big.Rat).Sub(new(big.Rat).Inv(rc), new(big.Rat).Inv(rn)))
		}
		var inGot, outGot *big.Rat
		if exactIn {
			inGot, outGot = ratD(a1), ratD(a2)
		} else {
			outGot, inGot = ratD(a1), ratD(a2)
		}
		ulp18 := big.NewRat(1, 1e18)
		amp := new(big.Rat).Add(one, new(big.Rat).Inv(new(big.Rat).Mul(rc, rn)))
		amp.Mul(amp, new(big.Rat).Mul(ulp36Rat, big.NewRat(4, 1)))
		amp.Add(amp, ulp18)
		// amount in (charged): never below the exact amount for the realised price move, less than one whole unit above
		if inGot.Cmp(new(big.Rat).Sub(mvIn, amp)) < 0 {
			sig["clause"] = "amount_in_low"
			c.Violate("C03.bucket_rounding", sig, "%s: amount in %s is below the exact amount %s for the realised price move", desc, inGot.FloatString(18), mvIn.FloatString(24))
			return
		}
		if inGot.Cmp(new(big.Rat).Add(mvIn, new(big.Rat).Add(one, amp))) > 0 {
			sig["clause"] = "amount_in_high"
			c.Violate("C03.bucket_rounding", sig, "%s: amount in %s exceeds the exact amount %s by more than one unit", desc, inGot.FloatString(18), mvIn.FloatString(24))
			return
		}
		// amount out (paid): never above the exact amount, at most a few ulps below
		if !(exactIn == false && !reached) { // exact-out partial steps cap the output at the requested amount
			if outGot.Cmp(new(big.Rat).Add(mvOut, amp)) > 0 {
				sig["clause"] = "amount_out_high"
				c.Violate("C03.bucket_rounding", sig, "%s: amount out %s is above the exact amount %s for the realised price move", desc, outGot.FloatString(18), mvOut.FloatString(24))
				return
			}
		} else if outGot.Cmp(rRem) > 0 {
			sig["clause"] = "amount_out_over_request"
			c.Violate("C03.bucket_rounding", sig, "%s: amount out %s exceeds the requested %s", desc, outGot.FloatString(18), rRem.FloatString(18))
			return
		}
		lowAmp := new(big.Rat).Mul(amp, big.NewRat(2, 1))
		capped := !exactIn && outGot.Cmp(rRem) == 0 // exact-out steps cap the output at the requested amount
		if outGot.Cmp(new(big.Rat).Sub(mvOut, lowAmp)) < 0 && !(exactIn == false && !reached) && !capped {
			sig["clause"] = "amount_out_low"
			c.Violate("C03.bucket_rounding", sig, "%s: amount out %s is more than the truncation allowance below the exact amount %s", desc, outGot.FloatString(18), mvOut.FloatString(24))
			return
		}
		// spread reward charge: at least in·f/(1−f) when the target was reached (exact-in) and always for exact-out
		feeGot := ratD(fee)
		if rf.Sign() > 0 && (reached || !exactIn) {
			want := new(big.Rat).Mul(inGot, new(big.Rat).Quo(rf, omf))
			if feeGot.Cmp(want) < 0 {
				sig["clause"] = "fee_low"
				c.Violate("C03.bucket_rounding", sig, "%s: spread charge %s is below amountIn·f/(1−f) = %s", desc, feeGot.FloatString(18), want.FloatString(24))
				return
			}
			if feeGot.Cmp(new(big.Rat).Add(want, new(big.Rat).Add(new(big.Rat).Mul(inGot, ulp18), big.NewRat(2, 1e18)))) > 0 {
				sig["clause"] = "fee_high"
				c.Violate("C03.bucket_rounding", sig, "%s: spread charge %s exceeds amountIn·f/(1−f) = %s by more than the rounding of f/(1−f)", desc, feeGot.FloatString(18), want.FloatString(24))
				return
			}
		}
		if exactIn && !reached {
			// all of the remaining input is consumed: in + fee = remaining (with a zero spread factor no charge is computed)
			if rf.Sign() > 0 && new(big.Rat).Add(inGot, feeGot).Cmp(rRem) != 0 {
				sig["clause"] = "partial_step_consumption"
				c.Violate("C03.bucket_rounding", sig, "%s: a partial step consumed %s + %s, remaining was %s", desc, inGot.FloatString(18), feeGot.FloatString(18), rRem.FloatString(18))
				return
			}
			// the price must not move further than the curve allows for the input after fee
			curveIn := new(big.Rat).Mul(rRem, omf)
			var exactNext *big.Rat
			if zfo {
				exactNext = new(big.Rat).Quo(new(big.Rat).Mul(rL, rc), new(big.Rat).Add(rL, new(big.Rat).Mul(curveIn, rc)))
				if rn.Cmp(new(big.Rat).Sub(exactNext, ulp36Rat)) < 0 {
					sig["clause"] = "price_moved_too_far"
					c.Violate("C03.bucket_rounding", sig, "%s: next sqrt price is below the exact %s (moved further than the input pays for)", desc, exactNext.FloatString(40))
					return
				}
			} else {
				exactNext = new(big.Rat).Add(rc, new(big.Rat).Quo(curveIn, rL))
				if rn.Cmp(new(big.Rat).Add(exactNext, ulp36Rat)) > 0 {
					sig["clause"] = "price_moved_too_far"
					c.Violate("C03.bucket_rounding", sig, "%s: next sqrt price is above the exact %s (moved further than the input pays for)", desc, exactNext.FloatString(40))
					return
				}
			}
		}
		c.Class("bucket|%v|%v|reached%v|sf%s", zfo, exactIn, reached, f.String()[:6])
		if i < 1 {
			c.Sample(map[string]any{"part": "bucket-math", "desc": desc})
		}
	})
}
