//go:build verif

// Package vk is the shared kit of the runtime monitors: deterministic PRNG,
// case/shard bookkeeping, result collection (evaluations, distinct classes,
// samples, violations) written as one JSON file per shard.
package vk

import (
	"sync"
	"encoding/json"
	"fmt"
	"hash/fnv"
	"math/big"
	"os"
	"runtime/debug"
	"sort"
	"strconv"
	"strings"
	"time"
)

// ---------------------------------------------------------------- PRNG

type Rng struct{ s uint64 }

func NewRng(seed uint64) *Rng { return &Rng{s: seed} }

func (r *Rng) U64() uint64 {
	r.s += 0x9E3779B97F4A7C15
	z := r.s
	z = (z ^ (z >> 30)) * 0xBF58476D1CE4E5B9
	z = (z ^ (z >> 27)) * 0x94D049BB133111EB
	return z ^ (z >> 31)
}

func (r *Rng) Intn(n int) int {
	if n <= 0 {
		return 0
	}
	return int(r.U64() % uint64(n))
}
func (r *Rng) I64n(n int64) int64 {
	if n <= 0 {
		return 0
	}
	return int64(r.U64() % uint64(n))
}
func (r *Rng) Range(lo, hi int64) int64 { // inclusive
	if hi <= lo {
		return lo
	}
	return lo + int64(r.U64()%uint64(hi-lo+1))
}
func (r *Rng) Bool() bool          { return r.U64()&1 == 1 }
func (r *Rng) Chance(p int) bool   { return r.Intn(100) < p }
func (r *Rng) Float() float64      { return float64(r.U64()>>11) / float64(1<<53) }
func (r *Rng) Fork(tag uint64) *Rng { return NewRng(r.U64() ^ Mix(tag)) }

// BigBits returns a uniformly random non-negative integer below 2^bits.
func (r *Rng) BigBits(bits int) *big.Int {
	if bits <= 0 {
		return new(big.Int)
	}
	words := (bits + 63) / 64
	b := make([]byte, 0, words*8)
	for i := 0; i < words; i++ {
		v := r.U64()
		for j := 0; j < 8; j++ {
			b = append(b, byte(v>>(8*j)))
		}
	}
	x := new(big.Int).SetBytes(b)
	return x.Rsh(x, uint(words*64-bits))
}

// BigBelow returns a uniformly random integer in [0, n).
func (r *Rng) BigBelow(n *big.Int) *big.Int {
	if n.Sign() <= 0 {
		return new(big.Int)
	}
	x := r.BigBits(n.BitLen() + 64)
	return x.Mod(x, n)
}

// BigMag returns an integer with a random decimal magnitude in [10^lo, 10^hi]
// (log-uniform), random mantissa.
func (r *Rng) BigMag(lo, hi int) *big.Int {
	e := int(r.Range(int64(lo), int64(hi)))
	base := new(big.Int).Exp(big.NewInt(10), big.NewInt(int64(e)), nil)
	// mantissa in [1,10)
	m := r.BigBelow(new(big.Int).Mul(base, big.NewInt(9)))
	return m.Add(m, base)
}

func Mix(x uint64) uint64 {
	x += 0x9E3779B97F4A7C15
	x = (x ^ (x >> 30)) * 0xBF58476D1CE4E5B9
	x = (x ^ (x >> 27)) * 0x94D049BB133111EB
	return x ^ (x >> 31)
}

func HashStr(s string) uint64 {
	h := fnv.New64a()
	h.Write([]byte(s))
	return h.Sum64()
}

// ---------------------------------------------------------------- run context

type CaseRef struct {
	Prop  string `json:"prop"`
	Seed  uint64 `json:"seed"`
	Tier  string `json:"tier"`
	Part  string `json:"part"`
	Index int    `json:"index"`
}

type Violation struct {
	Check  string         `json:"check"`
	Sig    map[string]any `json:"sig"`
	Detail string         `json:"detail"`
	Case   CaseRef        `json:"case"`
	Log    []string       `json:"log,omitempty"`
}

type Result struct {
	Prop         string             `json:"prop"`
	Shard        int                `json:"shard"`
	NShards      int                `json:"nshards"`
	Seed         uint64             `json:"seed"`
	Tier         string             `json:"tier"`
	Evaluations  int64              `json:"evaluations"`
	Classes      map[string]int64   `json:"classes"`
	Samples      []any              `json:"samples"`
	Violations   []Violation        `json:"violations"`
	NViolations  int64              `json:"n_violations"`
	Counters     map[string]int64   `json:"counters"`
	Maxima       map[string]float64 `json:"maxima"`
	MaximaAt     map[string]string  `json:"maxima_at"`
	Rule         string             `json:"rule"`
	Notes        []string           `json:"notes,omitempty"`
	Inconclusive string             `json:"inconclusive,omitempty"`
	Done         bool               `json:"done"`
	WallS        float64            `json:"wall_s"`
}

type Ctx struct {
	Prop    string
	Seed    uint64
	Tier    string // quick|thorough
	Shard   int
	NShards int
	// replay: run only this (part,index)
	ReplayPart  string
	ReplayIndex int
	Replay      bool
	Verbose     bool

	R       Result
	out     string
	start   time.Time
	sigSeen map[string]bool
	cur     CaseRef
	curLog  []string
}

func envInt(k string, d int) int {
	if v := os.Getenv(k); v != "" {
		if n, err := strconv.Atoi(v); err == nil {
			return n
		}
	}
	return d
}

func NewCtx(prop string) *Ctx {
	seed := uint64(1)
	if v := os.Getenv("VERIF_SEED"); v != "" {
		if n, err := strconv.ParseUint(v, 10, 64); err == nil {
			seed = n
		} else if n, err := strconv.ParseInt(v, 10, 64); err == nil {
			seed = uint64(n)
		}
	}
	tier := os.Getenv("VERIF_TIER")
	if tier != "thorough" {
		tier = "quick"
	}
	c := &Ctx{Prop: prop, Seed: seed, Tier: tier, Shard: envInt("VERIF_SHARD", 0), NShards: envInt("VERIF_NSHARDS", 1),
		out: os.Getenv("VERIF_OUT"), start: time.Now(), sigSeen: map[string]bool{}}
	if c.NShards < 1 {
		c.NShards = 1
	}
	if v := os.Getenv("VERIF_REPLAY_INDEX"); v != "" {
		c.Replay = true
		c.ReplayIndex = envInt("VERIF_REPLAY_INDEX", 0)
		c.ReplayPart = os.Getenv("VERIF_REPLAY_PART")
		c.Shard, c.NShards = 0, 1
	}
	c.Verbose = os.Getenv("VERIF_VERBOSE") != ""
	c.R = Result{Prop: prop, Shard: c.Shard, NShards: c.NShards, Seed: seed, Tier: tier,
		Classes: map[string]int64{}, Counters: map[string]int64{}, Maxima: map[string]float64{}, MaximaAt: map[string]string{}}
	return c
}

func (c *Ctx) Thorough() bool { return c.Tier == "thorough" }

// N picks the case count for the tier.
func (c *Ctx) N(quick, thorough int) int {
	if c.Thorough() {
		return thorough
	}
	return quick
}

// Cases runs fn for every case index of `part` that belongs to this shard.
// The case PRNG depends only on (seed, prop, part, index), never on the shard
// count, so a replay regenerates exactly the same case.
func (c *Ctx) Cases(part string, n int, fn func(i int, r *Rng)) {
	for i := 0; i < n; i++ {
		if c.Replay {
			if part != c.ReplayPart || i != c.ReplayIndex {
				continue
			}
		} else if i%c.NShards != c.Shard {
			continue
		}
		c.cur = CaseRef{Prop: c.Prop, Seed: c.Seed, Tier: c.Tier, Part: part, Index: i}
		c.curLog = c.curLog[:0]
		r := NewRng(Mix(c.Seed) ^ Mix(HashStr(c.Prop+"/"+part)) ^ Mix(uint64(i)+0x1234567))
		fn(i, r)
		if i%16 == 0 {
			c.Flush(false)
		}
	}
}

// Logf appends to the per-case operation log (attached to violations).
func (c *Ctx) Logf(f string, a ...any) {
	s := fmt.Sprintf(f, a...)
	if len(c.curLog) < 4000 {
		c.curLog = append(c.curLog, s)
	}
	if c.Verbose {
		fmt.Println("  | " + s)
	}
}

func (c *Ctx) Eval(n int64) { c.R.Evaluations += n }

// Class records one observation of a non-trivial outcome/state class.
func (c *Ctx) Class(f string, a ...any) {
	if len(a) == 0 {
		c.R.Classes[f]++
		return
	}
	c.R.Classes[fmt.Sprintf(f, a...)]++
}

func (c *Ctx) Count(k string, n int64) { c.R.Counters[k] += n }

func (c *Ctx) Max(k string, v float64, at string) {
	if old, ok := c.R.Maxima[k]; !ok || v > old {
		c.R.Maxima[k] = v
		c.R.MaximaAt[k] = at
	}
}

func (c *Ctx) Sample(v any) {
	if len(c.R.Samples) < 4 {
		c.R.Samples = append(c.R.Samples, v)
	}
}

func (c *Ctx) Note(f string, a ...any) {
	if len(c.R.Notes) < 50 {
		c.R.Notes = append(c.R.Notes, fmt.Sprintf(f, a...))
	}
}

// Violate records a violation. sig is the discriminating signature used for
// de-duplication and for matching known findings.
func (c *Ctx) Violate(check string, sig map[string]any, f string, a ...any) {
	c.R.NViolations++
	if sig == nil {
		sig = map[string]any{}
	}
	sig["check"] = check
	keys := make([]string, 0, len(sig))
	for k := range sig {
		keys = append(keys, k)
	}
	sort.Strings(keys)
	var sb strings.Builder
	for _, k := range keys {
		fmt.Fprintf(&sb, "%s=%v;", k, sig[k])
	}
	detail := fmt.Sprintf(f, a...)
	if c.Verbose || c.Replay {
		fmt.Printf("  ! %s %s: %s\n", check, sb.String(), detail)
	}
	if c.sigSeen[sb.String()] || len(c.R.Violations) >= 40 {
		return
	}
	c.sigSeen[sb.String()] = true
	lg := append([]string(nil), c.curLog...)
	if len(lg) > 400 {
		lg = append([]string{fmt.Sprintf("… %d earlier entries dropped …", len(lg)-400)}, lg[len(lg)-400:]...)
	}
	c.R.Violations = append(c.R.Violations, Violation{Check: check, Sig: sig, Detail: detail, Case: c.cur, Log: lg})
	c.Flush(false)
}

func (c *Ctx) Inconclusive(f string, a ...any) {
	if c.R.Inconclusive == "" {
		c.R.Inconclusive = fmt.Sprintf(f, a...)
	}
}

func (c *Ctx) Flush(done bool) {
	c.R.Done = done
	c.R.WallS = time.Since(c.start).Seconds()
	if c.out == "" {
		return
	}
	b, err := json.Marshal(&c.R)
	if err != nil {
		fmt.Fprintln(os.Stderr, "vk: marshal:", err)
		return
	}
	tmp := c.out + ".tmp"
	if err := os.WriteFile(tmp, b, 0o644); err == nil {
		os.Rename(tmp, c.out)
	}
}

// Guard runs fn and converts a panic into (recovered value, stack).
func Guard(fn func()) (rec any, stack string) {
	defer func() {
		if r := recover(); r != nil {
			rec = r
			stack = string(debug.Stack())
		}
	}()
	fn()
	return nil, ""
}

func (c *Ctx) Finish() {
	c.Flush(true)
	if c.Replay || c.Verbose {
		fmt.Printf("prop=%s evals=%d classes=%d violations=%d\n", c.Prop, c.R.Evaluations, len(c.R.Classes), c.R.NViolations)
	}
}

// ---------------------------------------------------------------- concurrent callers

// Call is one closed call into the code under test; it builds its own operands and renders its result.
type Call struct {
	Name string
	Fn   func() string
}

// ConcurrentSame evaluates every call once sequentially (the reference) and then lets `goroutines` goroutines
// execute overlapping subsets of the same calls at the same time. It returns the index of a call whose concurrent
// answer differed from the sequential one, the two answers, or -1. Library functions that share no operands must
// not influence each other (they are called from query goroutines while blocks execute).
func ConcurrentSame(calls []Call, goroutines, reps int) (int, string, string) {
	ref := make([]string, len(calls))
	run := func(k int) (out string) {
		defer func() {
			if r := recover(); r != nil {
				out = fmt.Sprint("panic: ", r)
			}
		}()
		return calls[k].Fn()
	}
	for k := range calls {
		ref[k] = run(k)
	}
	// the answer to a call may not depend on which calls the process has executed before it (package-level state that
	// a call leaves behind): the same calls once more, last first
	for k := len(calls) - 1; k >= 0; k-- {
		if got := run(k); got != ref[k] {
			return k, ref[k], got + " (sequential re-evaluation in reverse order)"
		}
	}
	var mu sync.Mutex
	bad, badGot := -1, ""
	var wg sync.WaitGroup
	for g := 0; g < goroutines; g++ {
		wg.Add(1)
		go func(g int) {
			defer wg.Done()
			for rep := 0; rep < reps; rep++ {
				for k := (g * 37) % len(calls); k < len(calls); k += 1 + g%3 {
					if got := run(k); got != ref[k] {
						mu.Lock()
						if bad < 0 {
							bad, badGot = k, got
						}
						mu.Unlock()
					}
				}
			}
		}(g)
	}
	wg.Wait()
	if bad >= 0 {
		return bad, ref[bad], badGot
	}
	return -1, "", ""
}
