//go:build verif

package vk

import (
	"time"

	"cosmossdk.io/log"
	"cosmossdk.io/store/cachemulti"
	storetypes "cosmossdk.io/store/types"
	cmtproto "github.com/cometbft/cometbft/proto/tendermint/types"
	sdk "github.com/cosmos/cosmos-sdk/types"
)

// MemCtx is an sdk.Context over harness-owned SliceStores (one per store key).
type MemCtx struct {
	Keys   map[string]*storetypes.KVStoreKey
	Stores map[string]*SliceStore
	Root   cachemulti.Store
}

func NewMemCtx(names ...string) (*MemCtx, sdk.Context) {
	m := &MemCtx{Keys: map[string]*storetypes.KVStoreKey{}, Stores: map[string]*SliceStore{}}
	stores := map[storetypes.StoreKey]storetypes.CacheWrapper{}
	keys := map[string]storetypes.StoreKey{}
	for _, n := range names {
		k := storetypes.NewKVStoreKey(n)
		s := NewSliceStore()
		m.Keys[n], m.Stores[n] = k, s
		stores[k] = s
		keys[n] = k
	}
	m.Root = cachemulti.NewFromKVStore(NewSliceStore(), stores, keys, nil, nil)
	ctx := sdk.NewContext(m.Root, cmtproto.Header{Height: 1, ChainID: "verif-1", Time: time.Unix(1700000000, 0).UTC()}, false, log.NewNopLogger())
	return m, ctx
}
