//go:build verif

package vk

import (
	"bytes"
	"crypto/sha256"
	"io"
	"sort"

	"cosmossdk.io/store/cachekv"
	storetypes "cosmossdk.io/store/types"
)

// SliceStore is a tiny sorted-slice KVStore owned by the harness (no goroutines, no
// background pruning). Iterators re-seek on every step, so they tolerate writes.
type SliceStore struct {
	keys [][]byte
	vals [][]byte
	Ops  int64
}

var _ storetypes.KVStore = (*SliceStore)(nil)

func NewSliceStore() *SliceStore { return &SliceStore{} }

func (s *SliceStore) find(k []byte) (int, bool) {
	i := sort.Search(len(s.keys), func(i int) bool { return bytes.Compare(s.keys[i], k) >= 0 })
	return i, i < len(s.keys) && bytes.Equal(s.keys[i], k)
}
func (s *SliceStore) GetStoreType() storetypes.StoreType { return storetypes.StoreTypeMemory }
func (s *SliceStore) CacheWrap() storetypes.CacheWrap    { return cachekv.NewStore(s) }
func (s *SliceStore) CacheWrapWithTrace(w io.Writer, tc storetypes.TraceContext) storetypes.CacheWrap {
	return cachekv.NewStore(s)
}
func (s *SliceStore) Get(k []byte) []byte {
	s.Ops++
	if i, ok := s.find(k); ok {
		return append([]byte(nil), s.vals[i]...)
	}
	return nil
}
func (s *SliceStore) Has(k []byte) bool { s.Ops++; _, ok := s.find(k); return ok }
func (s *SliceStore) Set(k, v []byte) {
	s.Ops++
	if k == nil {
		k = []byte{}
	}
	if v == nil {
		panic("nil value")
	}
	i, ok := s.find(k)
	if ok {
		s.vals[i] = append([]byte(nil), v...)
		return
	}
	s.keys = append(s.keys, nil)
	s.vals = append(s.vals, nil)
	copy(s.keys[i+1:], s.keys[i:])
	copy(s.vals[i+1:], s.vals[i:])
	s.keys[i] = append([]byte{}, k...)
	s.vals[i] = append([]byte(nil), v...)
}
func (s *SliceStore) Delete(k []byte) {
	s.Ops++
	if i, ok := s.find(k); ok {
		s.keys = append(s.keys[:i], s.keys[i+1:]...)
		s.vals = append(s.vals[:i], s.vals[i+1:]...)
	}
}
func (s *SliceStore) Len() int { return len(s.keys) }

// Digest is a SHA-256 over all (key, value) pairs in order.
func (s *SliceStore) Digest() [32]byte {
	h := sha256.New()
	var l [4]byte
	for i := range s.keys {
		l[0], l[1], l[2], l[3] = byte(len(s.keys[i])>>24), byte(len(s.keys[i])>>16), byte(len(s.keys[i])>>8), byte(len(s.keys[i]))
		h.Write(l[:])
		h.Write(s.keys[i])
		l[0], l[1], l[2], l[3] = byte(len(s.vals[i])>>24), byte(len(s.vals[i])>>16), byte(len(s.vals[i])>>8), byte(len(s.vals[i]))
		h.Write(l[:])
		h.Write(s.vals[i])
	}
	var out [32]byte
	copy(out[:], h.Sum(nil))
	return out
}

// Each visits all pairs in key order.
func (s *SliceStore) Each(fn func(k, v []byte)) {
	for i := range s.keys {
		fn(s.keys[i], s.vals[i])
	}
}

type sliceIter struct {
	s          *SliceStore
	start, end []byte
	rev        bool
	cur        []byte
	valid      bool
}

func (s *SliceStore) Iterator(start, end []byte) storetypes.Iterator {
	s.Ops++
	it := &sliceIter{s: s, start: start, end: end}
	i := 0
	if start != nil {
		i, _ = s.find(start)
	}
	it.setAt(i)
	return it
}
func (s *SliceStore) ReverseIterator(start, end []byte) storetypes.Iterator {
	s.Ops++
	it := &sliceIter{s: s, start: start, end: end, rev: true}
	i := len(s.keys)
	if end != nil {
		i, _ = s.find(end) // first >= end ; we want last < end
	}
	it.setAt(i - 1)
	return it
}
func (it *sliceIter) setAt(i int) {
	if i < 0 || i >= len(it.s.keys) {
		it.valid = false
		return
	}
	k := it.s.keys[i]
	if it.start != nil && bytes.Compare(k, it.start) < 0 {
		it.valid = false
		return
	}
	if it.end != nil && bytes.Compare(k, it.end) >= 0 {
		it.valid = false
		return
	}
	it.cur = k
	it.valid = true
}
func (it *sliceIter) Domain() ([]byte, []byte) { return it.start, it.end }
func (it *sliceIter) Valid() bool              { return it.valid }
func (it *sliceIter) Next() {
	if !it.valid {
		panic("Next on invalid iterator")
	}
	i, ok := it.s.find(it.cur)
	if it.rev {
		it.setAt(i - 1)
	} else {
		if ok {
			i++
		}
		it.setAt(i)
	}
}
func (it *sliceIter) Key() []byte {
	if !it.valid {
		panic("Key on invalid iterator")
	}
	return append([]byte(nil), it.cur...)
}
func (it *sliceIter) Value() []byte {
	if !it.valid {
		panic("Value on invalid iterator")
	}
	if i, ok := it.s.find(it.cur); ok {
		return append([]byte(nil), it.s.vals[i]...)
	}
	return nil
}
func (it *sliceIter) Error() error { return nil }
func (it *sliceIter) Close() error { it.valid = false; return nil }
