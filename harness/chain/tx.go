//go:build verif

package chain

// D2 — transaction driver: messages wrapped in signed transactions (SIGN_MODE_DIRECT, fees
// in the fee base denom, harness-tracked sequences) delivered through FinalizeBlock.

import (
	"context"
	"fmt"

	sdkmath "cosmossdk.io/math"
	abci "github.com/cometbft/cometbft/abci/types"
	sdk "github.com/cosmos/cosmos-sdk/types"
	"github.com/cosmos/cosmos-sdk/types/tx/signing"
	authsign "github.com/cosmos/cosmos-sdk/x/auth/signing"
)

const (
	DefaultGas = uint64(6_000_000)
)

// FeeFor returns the fee the ante handler demands for a gas limit (0.03 uosmo per gas unit, rounded up a little).
func FeeFor(gas uint64) sdk.Coins {
	return sdk.NewCoins(sdk.NewCoin(Bond, sdkmath.NewIntFromUint64(gas).MulRaw(4).QuoRaw(100)))
}

// pendingSeq tracks sequences of transactions signed for the block being assembled.
func (c *Chain) nextSeq(acc Account) (uint64, uint64) {
	a := c.App.AccountKeeper.GetAccount(c.Ctx, acc.Addr)
	if a == nil {
		panic("unknown account " + acc.Addr.String())
	}
	key := acc.Addr.String()
	if c.pendHeight != c.Height {
		c.pend = map[string]uint64{}
		c.pendHeight = c.Height
	}
	seq := a.GetSequence() + c.pend[key]
	c.pend[key]++
	return a.GetAccountNumber(), seq
}

// SignTx builds and signs a transaction for the block being assembled. Sequence numbers assume that every
// transaction signed so far for this block passes the ante handler.
func (c *Chain) SignTx(acc Account, gas uint64, fee sdk.Coins, msgs ...sdk.Msg) []byte {
	txConfig := c.App.GetTxConfig()
	accNum, seq := c.nextSeq(acc)
	signMode, err := authsign.APISignModeToInternal(txConfig.SignModeHandler().DefaultMode())
	if err != nil {
		panic(err)
	}
	sig := signing.SignatureV2{PubKey: acc.Priv.PubKey(), Data: &signing.SingleSignatureData{SignMode: signMode}, Sequence: seq}
	b := txConfig.NewTxBuilder()
	if err := b.SetMsgs(msgs...); err != nil {
		panic(err)
	}
	if err := b.SetSignatures(sig); err != nil {
		panic(err)
	}
	b.SetFeeAmount(fee)
	b.SetGasLimit(gas)
	sd := authsign.SignerData{Address: acc.Addr.String(), ChainID: ChainID, AccountNumber: accNum, Sequence: seq, PubKey: acc.Priv.PubKey()}
	signBytes, err := authsign.GetSignBytesAdapter(context.Background(), txConfig.SignModeHandler(), signMode, sd, b.GetTx())
	if err != nil {
		panic(err)
	}
	sg, err := acc.Priv.Sign(signBytes)
	if err != nil {
		panic(err)
	}
	sig.Data.(*signing.SingleSignatureData).Signature = sg
	if err := b.SetSignatures(sig); err != nil {
		panic(err)
	}
	bz, err := txConfig.TxEncoder()(b.GetTx())
	if err != nil {
		panic(err)
	}
	return bz
}

// Tx signs with the default gas limit and the matching fee.
func (c *Chain) Tx(acc Account, msgs ...sdk.Msg) []byte {
	return c.SignTx(acc, DefaultGas, FeeFor(DefaultGas), msgs...)
}

// UnsignedSeqRollback tells the driver that the last signed transaction of acc will not be delivered.
func (c *Chain) DropPending(acc Account) {
	if c.pend != nil && c.pend[acc.Addr.String()] > 0 {
		c.pend[acc.Addr.String()]--
	}
}

func ResultString(r *abci.ExecTxResult) string {
	return fmt.Sprintf("code=%d codespace=%s gas=%d log=%.160s", r.Code, r.Codespace, r.GasUsed, r.Log)
}
