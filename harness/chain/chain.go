//go:build verif

// Package chain is the application driver of the monitors: a real OsmosisApp built from
// a deterministic genesis, real FinalizeBlock/Commit block boundaries, message execution
// with transaction semantics (cache context + recover, write on success), signed
// transactions through FinalizeBlock, and a bank-event ledger.
package chain

import (
	"crypto/sha256"
	"encoding/binary"
	"encoding/hex"
	"io"
	"encoding/json"
	"fmt"
	"os"
	"sort"
	"time"

	"cosmossdk.io/log"
	sdkmath "cosmossdk.io/math"
	abci "github.com/cometbft/cometbft/abci/types"
	cmtproto "github.com/cometbft/cometbft/proto/tendermint/types"
	cosmosdb "github.com/cosmos/cosmos-db"
	"github.com/cosmos/cosmos-sdk/baseapp"
	codectypes "github.com/cosmos/cosmos-sdk/codec/types"
	"github.com/cosmos/cosmos-sdk/crypto/keys/ed25519"
	"github.com/cosmos/cosmos-sdk/crypto/keys/secp256k1"
	sims "github.com/cosmos/cosmos-sdk/testutil/sims"
	sdk "github.com/cosmos/cosmos-sdk/types"
	authtypes "github.com/cosmos/cosmos-sdk/x/auth/types"
	banktypes "github.com/cosmos/cosmos-sdk/x/bank/types"
	slashingtypes "github.com/cosmos/cosmos-sdk/x/slashing/types"
	stakingtypes "github.com/cosmos/cosmos-sdk/x/staking/types"

	"github.com/osmosis-labs/osmosis/osmomath"
	"github.com/osmosis-labs/osmosis/v31/app"
	cltypes "github.com/osmosis-labs/osmosis/v31/x/concentrated-liquidity/types"
	clgenesis "github.com/osmosis-labs/osmosis/v31/x/concentrated-liquidity/types/genesis"
	gammtypes "github.com/osmosis-labs/osmosis/v31/x/gamm/types"
	incentivestypes "github.com/osmosis-labs/osmosis/v31/x/incentives/types"
	minttypes "github.com/osmosis-labs/osmosis/v31/x/mint/types"
	poolmanagertypes "github.com/osmosis-labs/osmosis/v31/x/poolmanager/types"
	tokenfactorytypes "github.com/osmosis-labs/osmosis/v31/x/tokenfactory/types"
	txfeestypes "github.com/osmosis-labs/osmosis/v31/x/txfees/types"
	epochstypes "github.com/osmosis-labs/osmosis/x/epochs/types"
)

const (
	ChainID = "osmosis-1"
	Bond    = "uosmo"
)

var GenesisTime = time.Date(2024, 1, 1, 0, 0, 0, 0, time.UTC)

type Account struct {
	Priv *secp256k1.PrivKey
	Addr sdk.AccAddress
}

type Validator struct {
	Priv    *ed25519.PrivKey
	OpAddr  sdk.ValAddress
	ConsAdr sdk.ConsAddress
	Owner   Account
}

type Options struct {
	NumAccounts   int
	NumValidators int
	Denoms        []string // extra denoms funded to every account
	Fund          sdkmath.Int
	// GenesisMutator may edit module genesis states before InitChain.
	GenesisMutator func(a *app.OsmosisApp, gs app.GenesisState)
	// epoch durations (identifier -> duration); default day/week as in the module default
	Epochs map[string]time.Duration
	// mint: start minting at this epoch (default: module default)
	HomeDir string
	AppState []byte // if set, InitChain from this exported state (import mode)
	InitialHeight int64
	GenesisTime   time.Time
	// NoFirstBlock leaves the first block to the caller (import mode: the first block is part of the history)
	NoFirstBlock bool
	// StoreTrace, if set, receives the multistore's operation trace (diagnostics)
	StoreTrace io.Writer
}

type Chain struct {
	App    *app.OsmosisApp
	Ctx    sdk.Context // uncached context of the block being assembled (height = next block)
	Height int64
	Time   time.Time
	Accs   []Account
	Vals   []Validator
	home   string
	ownHome bool
	Seqs   map[string]uint64
	AccNums map[string]uint64
	// LastBlock holds the response of the most recent FinalizeBlock
	LastBlock *abci.ResponseFinalizeBlock
	LastAppHash []byte
	Denoms []string
	pend       map[string]uint64
	// BeforeCommit, if set, runs between FinalizeBlock and Commit (the race tier joins its mempool-connection load here)
	BeforeCommit func()
	pendHeight int64
}

func DetAccount(tag string, i int) Account {
	priv := secp256k1.GenPrivKeyFromSecret([]byte(fmt.Sprintf("verif-%s-%d", tag, i)))
	return Account{Priv: priv, Addr: sdk.AccAddress(priv.PubKey().Address())}
}

func New(o Options) *Chain {
	if o.NumAccounts == 0 {
		o.NumAccounts = 8
	}
	if o.NumValidators == 0 {
		o.NumValidators = 1
	}
	if o.Fund.IsNil() {
		o.Fund = sdkmath.NewIntWithDecimal(1, 40)
	}
	if o.GenesisTime.IsZero() {
		o.GenesisTime = GenesisTime
	}
	c := &Chain{Seqs: map[string]uint64{}, AccNums: map[string]uint64{}}
	c.home = o.HomeDir
	if c.home == "" {
		d, err := os.MkdirTemp("", "verif-osmo-home")
		if err != nil {
			panic(err)
		}
		c.home, c.ownHome = d, true
	}
	db := cosmosdb.NewMemDB()
	lg := log.NewNopLogger()
	if os.Getenv("VERIF_APP_LOG") != "" {
		lg = log.NewLogger(os.Stderr)
	}
	a := app.NewOsmosisApp(lg, db, nil, true, map[int64]bool{}, c.home, 0, sims.EmptyAppOptions{}, app.EmptyWasmOpts, baseapp.SetChainID(ChainID))
	c.App = a
	if o.StoreTrace != nil {
		a.SetCommitMultiStoreTracer(o.StoreTrace)
	}
	for i := 0; i < o.NumAccounts; i++ {
		c.Accs = append(c.Accs, DetAccount("acc", i))
	}
	for i := 0; i < o.NumValidators; i++ {
		vp := ed25519.GenPrivKeyFromSecret([]byte(fmt.Sprintf("verif-val-%d", i)))
		owner := DetAccount("valowner", i)
		c.Vals = append(c.Vals, Validator{Priv: vp, OpAddr: sdk.ValAddress(owner.Addr), ConsAdr: sdk.ConsAddress(vp.PubKey().Address()), Owner: owner})
	}
	c.Denoms = append([]string{Bond}, o.Denoms...)

	var stateBytes []byte
	initialHeight := int64(1)
	if o.AppState != nil {
		stateBytes = o.AppState
		initialHeight = o.InitialHeight
	} else {
		gs := c.buildGenesis(o)
		if o.GenesisMutator != nil {
			o.GenesisMutator(a, gs)
		}
		var err error
		stateBytes, err = json.Marshal(gs)
		if err != nil {
			panic(err)
		}
	}
	cp := sims.DefaultConsensusParams
	_, err := a.InitChain(&abci.RequestInitChain{
		Time: o.GenesisTime, ChainId: ChainID, ConsensusParams: cp, Validators: []abci.ValidatorUpdate{},
		AppStateBytes: stateBytes, InitialHeight: initialHeight,
	})
	if err != nil {
		panic(fmt.Sprintf("InitChain: %v", err))
	}
	c.Height = initialHeight
	c.Time = o.GenesisTime
	c.newCtx()
	// InitChain's writes live in the finalize-block branch until the first Commit: run the first block so
	// that the uncached context sees the genesis state.
	if !o.NoFirstBlock {
		c.NextBlock(time.Second)
	}
	return c
}

func (c *Chain) Close() {
	if c.ownHome {
		os.RemoveAll(c.home)
	}
}

func (c *Chain) header() cmtproto.Header {
	h := cmtproto.Header{Height: c.Height, Time: c.Time, ChainID: ChainID}
	if len(c.Vals) > 0 {
		h.ProposerAddress = c.Vals[0].ConsAdr
	}
	return h
}

// ResetCtx rebuilds the uncached context after Height/Time were set by hand.
func (c *Chain) ResetCtx() { c.newCtx() }

func (c *Chain) newCtx() {
	// messages executed between blocks run as they do inside FinalizeBlock: code that behaves differently in that
	// execution mode (process-local caches filled only while finalizing) takes its block-execution path
	c.Ctx = c.App.BaseApp.NewUncachedContext(false, c.header()).WithExecMode(sdk.ExecModeFinalize)
}

func (c *Chain) buildGenesis(o Options) app.GenesisState {
	a := c.App
	cdc := a.AppCodec()
	gs := app.NewDefaultGenesisState()

	// ---- auth + bank
	var genAccs []authtypes.GenesisAccount
	var balances []banktypes.Balance
	total := sdk.NewCoins()
	fund := sdk.NewCoins()
	for _, d := range c.Denoms {
		fund = fund.Add(sdk.NewCoin(d, o.Fund))
	}
	accNum := uint64(0)
	add := func(acc Account, coins sdk.Coins) {
		ba := authtypes.NewBaseAccount(acc.Addr, acc.Priv.PubKey(), accNum, 0)
		accNum++
		genAccs = append(genAccs, ba)
		balances = append(balances, banktypes.Balance{Address: acc.Addr.String(), Coins: coins})
		total = total.Add(coins...)
	}
	for _, acc := range c.Accs {
		add(acc, fund)
	}
	bondAmt := sdk.DefaultPowerReduction.MulRaw(1000)
	var validators []stakingtypes.Validator
	var delegations []stakingtypes.Delegation
	var signing []slashingtypes.SigningInfo
	bonded := sdkmath.ZeroInt()
	for _, v := range c.Vals {
		add(v.Owner, sdk.NewCoins(sdk.NewCoin(Bond, o.Fund)))
		pkAny, err := codectypes.NewAnyWithValue(v.Priv.PubKey())
		if err != nil {
			panic(err)
		}
		validators = append(validators, stakingtypes.Validator{
			OperatorAddress: v.OpAddr.String(), ConsensusPubkey: pkAny, Status: stakingtypes.Bonded, Tokens: bondAmt,
			DelegatorShares: sdkmath.LegacyNewDecFromInt(bondAmt), UnbondingTime: time.Unix(0, 0).UTC(),
			Commission:      stakingtypes.NewCommission(osmomath.ZeroDec(), osmomath.OneDec(), osmomath.OneDec()), MinSelfDelegation: sdkmath.ZeroInt(),
		})
		delegations = append(delegations, stakingtypes.NewDelegation(v.Owner.Addr.String(), v.OpAddr.String(), sdkmath.LegacyNewDecFromInt(bondAmt)))
		signing = append(signing, slashingtypes.SigningInfo{Address: v.ConsAdr.String(), ValidatorSigningInfo: slashingtypes.NewValidatorSigningInfo(v.ConsAdr, 0, time.Unix(0, 0), false, 0)})
		bonded = bonded.Add(bondAmt)
	}
	balances = append(balances, banktypes.Balance{Address: authtypes.NewModuleAddress(stakingtypes.BondedPoolName).String(), Coins: sdk.NewCoins(sdk.NewCoin(Bond, bonded))})
	total = total.Add(sdk.NewCoin(Bond, bonded))

	gs[authtypes.ModuleName] = cdc.MustMarshalJSON(authtypes.NewGenesisState(authtypes.DefaultParams(), genAccs))

	stParams := stakingtypes.DefaultParams()
	stParams.BondDenom = Bond
	stParams.UnbondingTime = 14 * 24 * time.Hour
	gs[stakingtypes.ModuleName] = cdc.MustMarshalJSON(stakingtypes.NewGenesisState(stParams, validators, delegations))

	var sl slashingtypes.GenesisState
	cdc.MustUnmarshalJSON(gs[slashingtypes.ModuleName], &sl)
	sl.SigningInfos = signing
	gs[slashingtypes.ModuleName] = cdc.MustMarshalJSON(&sl)

	// ---- mint: developer vesting account balance is minted in InitGenesis
	var mg minttypes.GenesisState
	cdc.MustUnmarshalJSON(gs[minttypes.ModuleName], &mg)
	mg.Params.MintDenom = Bond
	gs[minttypes.ModuleName] = cdc.MustMarshalJSON(&mg)

	// ---- txfees
	var tf txfeestypes.GenesisState
	cdc.MustUnmarshalJSON(gs[txfeestypes.ModuleName], &tf)
	tf.Basedenom = Bond
	gs[txfeestypes.ModuleName] = cdc.MustMarshalJSON(&tf)

	// ---- incentives
	var ig incentivestypes.GenesisState
	cdc.MustUnmarshalJSON(gs[incentivestypes.ModuleName], &ig)
	ig.Params.MinValueForDistribution = sdk.NewCoin(Bond, sdkmath.NewInt(1))
	ig.LockableDurations = append(ig.LockableDurations, stParams.UnbondingTime)
	sort.Slice(ig.LockableDurations, func(i, j int) bool { return ig.LockableDurations[i] < ig.LockableDurations[j] })
	ig.LockableDurations = dedupDur(ig.LockableDurations)
	gs[incentivestypes.ModuleName] = cdc.MustMarshalJSON(&ig)

	// ---- concentrated liquidity
	var cg clgenesis.GenesisState
	cdc.MustUnmarshalJSON(gs[cltypes.ModuleName], &cg)
	cg.Params.IsPermissionlessPoolCreationEnabled = true
	cg.Params.AuthorizedUptimes = cltypes.SupportedUptimes
	gs[cltypes.ModuleName] = cdc.MustMarshalJSON(&cg)

	// ---- poolmanager: authorised quote denoms, no pool creation fee
	var pg poolmanagertypes.GenesisState
	cdc.MustUnmarshalJSON(gs[poolmanagertypes.ModuleName], &pg)
	pg.Params.PoolCreationFee = sdk.NewCoins()
	pg.Params.AuthorizedQuoteDenoms = append([]string{Bond}, o.Denoms...)
	gs[poolmanagertypes.ModuleName] = cdc.MustMarshalJSON(&pg)

	var gg gammtypes.GenesisState
	cdc.MustUnmarshalJSON(gs[gammtypes.ModuleName], &gg)
	gg.Params.PoolCreationFee = sdk.NewCoins()
	gs[gammtypes.ModuleName] = cdc.MustMarshalJSON(&gg)

	var tg tokenfactorytypes.GenesisState
	cdc.MustUnmarshalJSON(gs[tokenfactorytypes.ModuleName], &tg)
	tg.Params.DenomCreationFee = nil
	tg.Params.DenomCreationGasConsume = 1000
	gs[tokenfactorytypes.ModuleName] = cdc.MustMarshalJSON(&tg)

	// ---- epochs
	var eg epochstypes.GenesisState
	cdc.MustUnmarshalJSON(gs[epochstypes.ModuleName], &eg)
	for i := range eg.Epochs {
		eg.Epochs[i].StartTime = o.GenesisTime
		if d, ok := o.Epochs[eg.Epochs[i].Identifier]; ok {
			eg.Epochs[i].Duration = d
		}
	}
	gs[epochstypes.ModuleName] = cdc.MustMarshalJSON(&eg)

	gs[banktypes.ModuleName] = cdc.MustMarshalJSON(banktypes.NewGenesisState(banktypes.DefaultGenesisState().Params, balances, total, []banktypes.Metadata{}, []banktypes.SendEnabled{}))
	return gs
}

func dedupDur(d []time.Duration) []time.Duration {
	var o []time.Duration
	for i, x := range d {
		if i == 0 || x != d[i-1] {
			o = append(o, x)
		}
	}
	return o
}

// ---------------------------------------------------------------- blocks

// NextBlock closes the block being assembled (real FinalizeBlock + Commit at c.Height, c.Time,
// with the given transactions) and opens the next one dt later.
func (c *Chain) NextBlock(dt time.Duration, txs ...[]byte) *abci.ResponseFinalizeBlock {
	votes := make([]abci.VoteInfo, 0, len(c.Vals))
	for _, v := range c.Vals {
		votes = append(votes, abci.VoteInfo{Validator: abci.Validator{Address: v.ConsAdr, Power: 1000}, BlockIdFlag: cmtproto.BlockIDFlagCommit})
	}
	req := &abci.RequestFinalizeBlock{Height: c.Height, Time: c.Time, Txs: txs, DecidedLastCommit: abci.CommitInfo{Votes: votes}}
	if len(c.Vals) > 0 {
		req.ProposerAddress = c.Vals[0].ConsAdr
	}
	res, err := c.App.FinalizeBlock(req)
	if err != nil {
		panic(fmt.Sprintf("FinalizeBlock(h=%d): %v", c.Height, err))
	}
	if c.BeforeCommit != nil {
		c.BeforeCommit()
	}
	if _, err := c.App.Commit(); err != nil {
		panic(fmt.Sprintf("Commit(h=%d): %v", c.Height, err))
	}
	c.LastBlock = res
	c.LastAppHash = res.AppHash
	c.Height++
	c.Time = c.Time.Add(dt)
	c.newCtx()
	return res
}

// ---------------------------------------------------------------- messages (D1)

type ExecResult struct {
	Res      *sdk.Result
	Err      error
	Panicked bool
	PanicVal any
	Events   []Event
	GasUsed  uint64
}

// Event is one event emitted by a message (from the handler's result).
type Event struct {
	Type  string
	Attrs [][2]string
}

func (e Event) Attr(key string) string {
	for _, a := range e.Attrs {
		if a[0] == key {
			return a[1]
		}
	}
	return ""
}

func (r ExecResult) OK() bool { return r.Err == nil && !r.Panicked }
func (r ExecResult) ErrString() string {
	if r.Panicked {
		return fmt.Sprintf("panic: %v", r.PanicVal)
	}
	if r.Err != nil {
		return r.Err.Error()
	}
	return ""
}

// ExecOn runs msg with transaction semantics on a branch of ctx: ValidateBasic, handler inside
// a cache context with recover(); the branch is written only on success.
func (c *Chain) ExecOn(ctx sdk.Context, msg sdk.Msg) (out ExecResult) {
	if v, ok := msg.(sdk.HasValidateBasic); ok {
		if err := v.ValidateBasic(); err != nil {
			out.Err = err
			return
		}
	}
	h := c.App.MsgServiceRouter().Handler(msg)
	if h == nil {
		out.Err = fmt.Errorf("no handler for %T", msg)
		return
	}
	cctx, write := ctx.CacheContext()
	cctx = cctx.WithEventManager(sdk.NewEventManager())
	func() {
		defer func() {
			if r := recover(); r != nil {
				out.Panicked = true
				out.PanicVal = r
			}
		}()
		out.Res, out.Err = h(cctx, msg)
	}()
	if out.OK() {
		write()
		if out.Res != nil {
			for _, ev := range out.Res.Events {
				e := Event{Type: ev.Type}
				for _, a := range ev.Attributes {
					e.Attrs = append(e.Attrs, [2]string{a.Key, a.Value})
				}
				out.Events = append(out.Events, e)
			}
		}
	}
	return
}

func (c *Chain) Exec(msg sdk.Msg) ExecResult { return c.ExecOn(c.Ctx, msg) }

// Fork returns a branch of the current context that is never written back.
func (c *Chain) Fork() sdk.Context {
	f, _ := c.Ctx.CacheContext()
	return f.WithEventManager(sdk.NewEventManager())
}

// ---------------------------------------------------------------- helpers

func (c *Chain) Bal(addr sdk.AccAddress, denom string) sdkmath.Int {
	return c.App.BankKeeper.GetBalance(c.Ctx, addr, denom).Amount
}
func (c *Chain) BalOn(ctx sdk.Context, addr sdk.AccAddress, denom string) sdkmath.Int {
	return c.App.BankKeeper.GetBalance(ctx, addr, denom).Amount
}
func (c *Chain) AllBal(ctx sdk.Context, addr sdk.AccAddress) sdk.Coins {
	return c.App.BankKeeper.GetAllBalances(ctx, addr)
}

// Digest is a SHA-256 over the sorted (store, key, value) pairs of the named module stores as
// seen through ctx (O-digest).
func (c *Chain) Digest(ctx sdk.Context, stores ...string) [32]byte {
	if len(stores) == 0 {
		for n := range c.App.AppKeepers.GetKVStoreKey() {
			stores = append(stores, n)
		}
	}
	sort.Strings(stores)
	h := sha256.New()
	var l [8]byte
	for _, n := range stores {
		k := c.App.AppKeepers.GetKey(n)
		if k == nil {
			panic("no store key " + n)
		}
		h.Write([]byte(n))
		it := ctx.MultiStore().GetKVStore(k).Iterator(nil, nil)
		for ; it.Valid(); it.Next() {
			kb, vb := it.Key(), it.Value()
			binary.BigEndian.PutUint64(l[:], uint64(len(kb)))
			h.Write(l[:])
			h.Write(kb)
			binary.BigEndian.PutUint64(l[:], uint64(len(vb)))
			h.Write(l[:])
			h.Write(vb)
		}
		it.Close()
	}
	var out [32]byte
	copy(out[:], h.Sum(nil))
	return out
}

// DumpKV returns every store's raw key/value pairs (hex) as seen by ctx.
func (c *Chain) DumpKV(ctx sdk.Context) map[string][][2]string {
	out := map[string][][2]string{}
	for n, k := range c.App.AppKeepers.GetKVStoreKey() {
		it := ctx.MultiStore().GetKVStore(k).Iterator(nil, nil)
		for ; it.Valid(); it.Next() {
			out[n] = append(out[n], [2]string{hex.EncodeToString(it.Key()), hex.EncodeToString(it.Value())})
		}
		it.Close()
	}
	return out
}
