//go:build verif

package main

// C17 (keeper level) — epoch timers tick once per elapsed period on the arithmetic
// grid, signals are ordered and exactly-once, and subscriber failures stay contained
// while out-of-gas propagates. Real x/epochs keeper + real MultiEpochHooks +
// osmoutils.ApplyFuncIfNoError, scripted mock subscribers.

import (
	"math"
	"errors"
	"fmt"
	"sort"
	"time"

	storetypes "cosmossdk.io/store/types"
	sdk "github.com/cosmos/cosmos-sdk/types"

	epochskeeper "github.com/osmosis-labs/osmosis/x/epochs/keeper"
	epochstypes "github.com/osmosis-labs/osmosis/x/epochs/types"
	"github.com/osmosis-labs/osmosis/v31/zzverif/vk"
)

type c17Call struct {
	Sub   int
	Kind  string // "after" | "before"
	ID    string
	Epoch int64
}

type c17Sub struct {
	idx    int
	key    *storetypes.KVStoreKey
	trace  *[]c17Call
	script func(call c17Call) (writes int, outcome int) // outcome: 0 ok 1 error 2 panic(string) 3 panic(error) 4 runtime panic 5 out-of-gas
	height *int64
	// keys written by invocations that ended successfully, reported to the monitor
	okWrites *[]c17Write
}

type c17Write struct {
	Sub  int
	Keys []string
}

func (s c17Sub) GetModuleName() string { return fmt.Sprintf("sub%d", s.idx) }
func (s c17Sub) run(ctx sdk.Context, kind, id string, n int64) error {
	call := c17Call{s.idx, kind, id, n}
	*s.trace = append(*s.trace, call)
	writes, outcome := s.script(call)
	st := ctx.KVStore(s.key)
	var keys []string
	for j := 0; j < writes; j++ {
		k := fmt.Sprintf("%s/%s/%d/%d", kind, id, n, j)
		st.Set([]byte(k), []byte(fmt.Sprintf("h%d", *s.height)))
		keys = append(keys, k)
	}
	if outcome == 0 {
		*s.okWrites = append(*s.okWrites, c17Write{s.idx, keys})
	}
	switch outcome {
	case 1:
		return errors.New("scripted error")
	case 2:
		panic("scripted string panic")
	case 3:
		panic(errors.New("scripted error panic"))
	case 4:
		var m map[string]int
		m["x"] = 1 // runtime error: assignment to entry in nil map
	case 5:
		if writes%2 == 1 {
			// out of gas on a nested, tighter meter (a subscriber metering a sub-call, e.g. a contract):
			// the block's own meter is not exhausted, the condition must be propagated all the same
			inner := storetypes.NewGasMeter(1000)
			inner.ConsumeGas(1001, "scripted out of gas on a nested meter")
		}
		if writes%3 == 2 || ctx.GasMeter().Limit() == math.MaxUint64 {
			// the gas counter itself overflows (the only way the unlimited meter of a real begin-block can run out)
			ctx.GasMeter().ConsumeGas(1, "scripted gas")
			ctx.GasMeter().ConsumeGas(math.MaxUint64, "scripted gas counter overflow")
		}
		ctx.GasMeter().ConsumeGas(ctx.GasMeter().Limit()+1, "scripted out of gas")
	}
	return nil
}
func (s c17Sub) AfterEpochEnd(ctx sdk.Context, id string, n int64) error    { return s.run(ctx, "after", id, n) }
func (s c17Sub) BeforeEpochStart(ctx sdk.Context, id string, n int64) error { return s.run(ctx, "before", id, n) }

type c17Timer struct {
	id       string
	start    time.Time
	dur      time.Duration
	started  bool
	cur      int64
	curStart time.Time
	startH   int64
}

func runC17(c *vk.Ctx) {
	c.R.Rule = "cases = block-time sequences (regular, jittered, multi-epoch gaps, equal times, times before the start time) over 1-6 timers with durations 1s..1 week and 1-4 scripted subscribers whose outcome at each signal (success / error / string, error or runtime panic / out-of-gas on the block's meter, on a nested tighter meter or by overflowing the gas counter, each after 0-3 partial writes) is drawn from the seed; timers are also registered on the running chain (AddEpochInfo after begin-blockers have run, as upgrade handlers do); a quarter of the sequences also export the module and re-import it through InitGenesis at arbitrary (late) blocks; after every block the epoch infos, the hook call trace and each subscriber's key space are compared with the model. distinct_nontrivial counts distinct (#timers ticking in the block, initial-start?, multiset of subscriber outcomes in the block, block result) tuples."
	nSeq := c.N(2000, 40000)
	nBlocks := c.N(200, 400)
	c.Cases("sequence", nSeq, func(i int, r *vk.Rng) {
		nSubs := 1 + r.Intn(4)
		names := []string{"epochs"}
		for s := 0; s < nSubs; s++ {
			names = append(names, fmt.Sprintf("sub%d", s))
		}
		mem, ctx := vk.NewMemCtx(names...)
		k := epochskeeper.NewKeeper(mem.Keys["epochs"])
		var trace []c17Call
		var height int64 = 1
		var okWrites []c17Write
		// outcome script for the current block: filled per block from the rng
		oogProb := 0
		if r.Intn(3) == 0 {
			oogProb = 3
		}
		failProb := []int{0, 10, 30, 60}[r.Intn(4)]
		unlimitedMeter := r.Intn(3) == 0
		lateTimers := 0
		var blockRng *vk.Rng
		outcomesSeen := map[int]int{}
		script := func(call c17Call) (int, int) {
			w := blockRng.Intn(4)
			o := 0
			x := blockRng.Intn(100)
			switch {
			case x < oogProb:
				o = 5
			case x < oogProb+failProb:
				o = 1 + blockRng.Intn(4)
			}
			outcomesSeen[o]++
			return w, o
		}
		var hooks []epochstypes.EpochHooks
		for s := 0; s < nSubs; s++ {
			hooks = append(hooks, c17Sub{idx: s, key: mem.Keys[fmt.Sprintf("sub%d", s)], trace: &trace, script: script, height: &height, okWrites: &okWrites})
		}
		k.SetHooks(epochstypes.NewMultiEpochHooks(hooks...))

		t0 := time.Unix(1700000000, 0).UTC()
		now := t0
		ctx = ctx.WithBlockTime(now).WithBlockHeight(height)
		nT := 1 + r.Intn(6)
		durs := []time.Duration{time.Second, 5 * time.Second, time.Minute, time.Hour, 24 * time.Hour, 7 * 24 * time.Hour, 1500 * time.Millisecond, 1}
		timers := map[string]*c17Timer{}
		var ids []string
		for t := 0; t < nT; t++ {
			id := fmt.Sprintf("t%d", t)
			d := durs[r.Intn(len(durs))]
			var st time.Time
			switch r.Intn(4) {
			case 0: // zero start => block time at registration
			case 1:
				st = t0.Add(-time.Duration(r.I64n(int64(10 * d))))
			default:
				st = t0.Add(time.Duration(r.I64n(int64(5*d) + 1)))
			}
			info := epochstypes.EpochInfo{Identifier: id, StartTime: st, Duration: d}
			if err := k.AddEpochInfo(ctx, info); err != nil {
				c.Violate("C17.setup", nil, "AddEpochInfo: %v", err)
				return
			}
			if st.IsZero() {
				st = now
			}
			timers[id] = &c17Timer{id: id, start: st, dur: d, startH: height}
			ids = append(ids, id)
		}
		sort.Strings(ids)
		subModel := make([]map[string]bool, nSubs)
		for s := range subModel {
			subModel[s] = map[string]bool{}
		}
		// pacing of block times
		base := durs[r.Intn(len(durs))]
		mode := r.Intn(4)
		sig := func() map[string]any { return map[string]any{"subs": nSubs} }

		for b := 0; b < nBlocks; b++ {
			// advance time (non-decreasing)
			var dt time.Duration
			switch mode {
			case 0:
				dt = base / 3
			case 1:
				dt = time.Duration(r.I64n(int64(base) + 1))
			case 2:
				dt = time.Duration(r.I64n(int64(base)*2 + 1))
				if r.Intn(12) == 0 {
					dt = base * time.Duration(1+r.Intn(50)) // downtime: many epochs at once
				}
			default:
				if r.Intn(3) == 0 {
					dt = 0
				} else {
					dt = time.Duration(r.I64n(int64(base)/2 + 1))
				}
			}
			if r.Intn(10) == 0 { // land exactly on some timer's epoch end (the boundary is exclusive)
				tm := timers[ids[r.Intn(len(ids))]]
				if tm.started {
					end := tm.curStart.Add(tm.dur)
					if !end.Before(now) {
						dt = end.Sub(now) + time.Duration(r.Intn(2))
					}
				}
			}
			now = now.Add(dt)
			height++
			c.Eval(1)
			if i%4 == 3 && r.Intn(25) == 0 {
				// export / import of the module at this (possibly much later) block: the timers are deleted and
				// re-created through InitGenesis from what ExportGenesis reported. Nothing about them may change:
				// the grid, the counters and the recorded start heights are part of the state.
				gs := k.ExportGenesis(ctx)
				for _, e := range gs.Epochs {
					k.DeleteEpochInfo(ctx, e.Identifier)
				}
				ictx := ctx.WithBlockTime(now).WithBlockHeight(height)
				if rec, stack := vk.Guard(func() { k.InitGenesis(ictx, *gs) }); rec != nil {
					c.Violate("C17.import", sig(), "InitGenesis of the exported timers panicked: %v\n%s", rec, firstLines(stack, 10))
					return
				}
				c.Logf("re-imported %d timers at h=%d t=+%s", len(gs.Epochs), height, now.Sub(t0))
				c.Count("reimports", 1)
			}
			if b > 2 && lateTimers < 2 && r.Intn(50) == 0 {
				// a timer registered on the running chain (the way an upgrade handler does it), after begin-blockers have
				// already run in this process; identifiers sort before or after the existing ones
				lateTimers++
				id := fmt.Sprintf("%s%d", []string{"a", "u"}[r.Intn(2)], lateTimers)
				d := durs[r.Intn(len(durs))]
				var st time.Time
				switch r.Intn(3) {
				case 0: // zero start => block time at registration
				case 1:
					st = now.Add(-time.Duration(r.I64n(int64(3 * d))))
				default:
					st = now.Add(time.Duration(r.I64n(int64(3*d) + 1)))
				}
				actx := ctx.WithBlockTime(now).WithBlockHeight(height)
				if err := k.AddEpochInfo(actx, epochstypes.EpochInfo{Identifier: id, StartTime: st, Duration: d}); err != nil {
					c.Violate("C17.setup", nil, "AddEpochInfo on the running chain: %v", err)
					return
				}
				if st.IsZero() {
					st = now
				}
				timers[id] = &c17Timer{id: id, start: st, dur: d, startH: height}
				ids = append(ids, id)
				sort.Strings(ids)
				c.Logf("timer %s registered at h=%d (start %+d ns, duration %s)", id, height, st.Sub(now), d)
				c.Count("late_timers", 1)
			}
			bctx := ctx.WithBlockTime(now).WithBlockHeight(height).WithGasMeter(storetypes.NewGasMeter(1_000_000_000))
			if unlimitedMeter {
				// as in a real begin-block; a saturated finite meter would re-raise a swallowed overflow at the next store access
				bctx = bctx.WithGasMeter(storetypes.NewInfiniteGasMeter())
			}
			cctx, write := bctx.CacheContext()
			trace = trace[:0]
			okWrites = okWrites[:0]
			blockRng = r.Fork(uint64(b))
			for o := range outcomesSeen {
				delete(outcomesSeen, o)
			}
			c.Logf("block h=%d t=+%s", height, now.Sub(t0))
			rec, stack := vk.Guard(func() { k.BeginBlocker(cctx) })

			// ---- model: expected trace
			type tick struct {
				tm      *c17Timer
				initial bool
			}
			var ticks []tick
			for _, id := range ids {
				tm := timers[id]
				if now.Before(tm.start) {
					continue
				}
				if !tm.started {
					ticks = append(ticks, tick{tm, true})
				} else if now.After(tm.curStart.Add(tm.dur)) {
					ticks = append(ticks, tick{tm, false})
				}
			}
			var want []c17Call
			for _, tk := range ticks {
				if !tk.initial {
					for s := 0; s < nSubs; s++ {
						want = append(want, c17Call{s, "after", tk.tm.id, tk.tm.cur})
					}
				}
				nx := tk.tm.cur + 1
				if tk.initial {
					nx = 1
				}
				for s := 0; s < nSubs; s++ {
					want = append(want, c17Call{s, "before", tk.tm.id, nx})
				}
			}
			oog := outcomesSeen[5] > 0
			result := "completed"
			if rec != nil {
				isOOG, _ := rec.(storetypes.ErrorOutOfGas)
				_ = isOOG
				_, isOverflow := rec.(storetypes.ErrorGasOverflow)
				if _, ok := rec.(storetypes.ErrorOutOfGas); (ok || isOverflow) && oog {
					result = "oog-propagated"
				} else {
					c.Violate("C17.block_not_completed", sig(), "BeginBlocker panicked with %v (scripted out-of-gas in this block: %v)\n%s", rec, oog, firstLines(stack, 12))
					return
				}
			} else if oog {
				c.Violate("C17.out_of_gas_swallowed", sig(), "a subscriber ran out of gas in block h=%d but BeginBlocker returned normally", height)
				return
			}
			if result == "oog-propagated" {
				// the trace must be a prefix of the expected trace ending at the out-of-gas call
				if len(trace) > len(want) {
					c.Violate("C17.signal_order", sig(), "block h=%d: %d hook calls, expected at most %d", height, len(trace), len(want))
					return
				}
				for j := range trace {
					if trace[j] != want[j] {
						c.Violate("C17.signal_order", sig(), "block h=%d: call %d is %+v, expected %+v", height, j, trace[j], want[j])
						return
					}
				}
				// block fails as a whole: branch dropped, model unchanged
				c.Class("ticks%d|oog", len(ticks))
				continue
			}
			write()
			if len(trace) != len(want) {
				c.Violate("C17.signal_exactly_once", sig(), "block h=%d t=%s: %d hook calls %v, expected %d %v", height, now, len(trace), trace, len(want), want)
				return
			}
			for j := range want {
				if trace[j] != want[j] {
					c.Violate("C17.signal_order", sig(), "block h=%d: call %d is %+v, expected %+v", height, j, trace[j], want[j])
					return
				}
			}
			// advance the model
			for _, tk := range ticks {
				tm := tk.tm
				if tk.initial {
					tm.started, tm.cur, tm.curStart = true, 1, tm.start
				} else {
					tm.cur++
					tm.curStart = tm.curStart.Add(tm.dur)
				}
				tm.startH = height
			}
			// epoch infos
			for _, id := range ids {
				tm := timers[id]
				info := k.GetEpochInfo(ctx.WithBlockTime(now).WithBlockHeight(height), id)
				if info.CurrentEpoch != tm.cur || info.EpochCountingStarted != tm.started ||
					(tm.started && !info.CurrentEpochStartTime.Equal(tm.curStart)) || info.CurrentEpochStartHeight != tm.startH ||
					info.Duration != tm.dur || !info.StartTime.Equal(tm.start) {
					c.Violate("C17.timer_state", sig(), "block h=%d t=%s: timer %s is epoch=%d started=%v start=%s height=%d; model epoch=%d started=%v start=%s height=%d",
						height, now, id, info.CurrentEpoch, info.EpochCountingStarted, info.CurrentEpochStartTime, info.CurrentEpochStartHeight, tm.cur, tm.started, tm.curStart, tm.startH)
					return
				}
				if tm.started { // grid
					off := info.CurrentEpochStartTime.Sub(tm.start)
					if off%tm.dur != 0 || int64(off/tm.dur) != tm.cur-1 {
						c.Violate("C17.grid", sig(), "timer %s epoch %d starts at %s: not start + (n-1)·duration", id, tm.cur, info.CurrentEpochStartTime)
						return
					}
				}
			}
			nOK, nFail := outcomesSeen[0], outcomesSeen[1]+outcomesSeen[2]+outcomesSeen[3]+outcomesSeen[4]
			c.Class("ticks%d|init%v|ok%d|fail%d|completed", len(ticks), len(ticks) > 0 && ticks[0].initial, min(nOK, 3), min(nFail, 3))
			if msg := c17CheckStores(mem, subModel, okWrites, nSubs); msg != "" {
				c.Violate("C17.containment", sig(), "block h=%d: %s", height, msg)
				return
			}
		}
		if i < 2 {
			c.Sample(map[string]any{"timers": nT, "subscribers": nSubs, "blocks": nBlocks, "fail_prob_pct": failProb, "oog_prob_pct": oogProb, "final_epochs": func() map[string]int64 {
				o := map[string]int64{}
				for id, t := range timers {
					o[id] = t.cur
				}
				return o
			}()})
		}
	})
}

// c17CheckStores: the keys visible in each subscriber's store must be exactly the union of
// the writes of its successful invocations.
func c17CheckStores(mem *vk.MemCtx, model []map[string]bool, ok []c17Write, nSubs int) string {
	for _, w := range ok {
		for _, k := range w.Keys {
			model[w.Sub][k] = true
		}
	}
	for s := 0; s < nSubs; s++ {
		st := mem.Stores[fmt.Sprintf("sub%d", s)]
		seen := map[string]bool{}
		var extra string
		// read through the root (cache) store so that pending writes are included
		it := mem.Root.GetKVStore(mem.Keys[fmt.Sprintf("sub%d", s)]).Iterator(nil, nil)
		for ; it.Valid(); it.Next() {
			k := string(it.Key())
			seen[k] = true
			if !model[s][k] && extra == "" {
				extra = k
			}
		}
		it.Close()
		_ = st
		if extra != "" {
			return fmt.Sprintf("subscriber %d's store holds %q, written by an invocation that failed", s, extra)
		}
		for k := range model[s] {
			if !seen[k] {
				return fmt.Sprintf("subscriber %d's successful write %q is missing", s, k)
			}
		}
	}
	return ""
}
