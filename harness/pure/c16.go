//go:build verif

package main

// C16 — the store-backed sum-tree answers like a sorted map.
// Oracle: a plain sorted map (reference model) + a structural walk of the raw store.

import (
	"bytes"
	"encoding/binary"
	"fmt"
	"math/big"
	"sort"
	"strings"

	"github.com/cosmos/gogoproto/proto"

	"github.com/osmosis-labs/osmosis/osmomath"
	"github.com/osmosis-labs/osmosis/osmoutils/sumtree"
	"github.com/osmosis-labs/osmosis/v31/zzverif/vk"
)

type c16Model struct {
	m map[string]*big.Int
}

func (m *c16Model) keys() []string {
	ks := make([]string, 0, len(m.m))
	for k := range m.m {
		ks = append(ks, k)
	}
	sort.Strings(ks)
	return ks
}
func (m *c16Model) split(key string) (l, e, r *big.Int) {
	l, e, r = new(big.Int), new(big.Int), new(big.Int)
	for k, v := range m.m {
		switch strings.Compare(k, key) {
		case -1:
			l.Add(l, v)
		case 0:
			e.Add(e, v)
		default:
			r.Add(r, v)
		}
	}
	return
}
func (m *c16Model) rangeSum(lo, hi *string) *big.Int {
	s := new(big.Int)
	for k, v := range m.m {
		if lo != nil && k < *lo {
			continue
		}
		if hi != nil && k > *hi {
			continue
		}
		s.Add(s, v)
	}
	return s
}

func c16Key(r *vk.Rng, alpha int, maxLen int) []byte {
	n := r.Intn(maxLen + 1)
	if r.Intn(12) == 0 {
		n = 0
	}
	b := make([]byte, n)
	for i := range b {
		b[i] = byte('a' + r.Intn(alpha))
	}
	return b
}

// walkTree checks the tree's internal aggregates against its leaves by reading the raw store.
func c16Walk(st *vk.SliceStore, mdl *c16Model) string {
	type nodeRec struct {
		key  string
		node sumtree.Node
	}
	levels := map[uint16][]nodeRec{}
	leaves := map[string]*big.Int{}
	var bad string
	st.Each(func(k, v []byte) {
		if bad != "" || !bytes.HasPrefix(k, []byte("node/")) {
			return
		}
		lvl := binary.BigEndian.Uint16(k[5:7])
		key := string(k[7:])
		if lvl == 0 {
			var lf sumtree.Leaf
			if err := proto.Unmarshal(v, &lf); err != nil || lf.Leaf == nil {
				bad = fmt.Sprintf("leaf %q does not decode: %v", key, err)
				return
			}
			if string(lf.Leaf.Index) != key {
				bad = fmt.Sprintf("leaf stored under %q carries index %q", key, lf.Leaf.Index)
				return
			}
			leaves[key] = lf.Leaf.Accumulation.BigInt()
			return
		}
		var n sumtree.Node
		if err := proto.Unmarshal(v, &n); err != nil {
			bad = fmt.Sprintf("node %d/%q does not decode: %v", lvl, key, err)
			return
		}
		levels[lvl] = append(levels[lvl], nodeRec{key, n})
	})
	if bad != "" {
		return bad
	}
	// leaves == model
	if len(leaves) != len(mdl.m) {
		return fmt.Sprintf("store holds %d leaves, model %d keys", len(leaves), len(mdl.m))
	}
	for k, v := range mdl.m {
		if lv, ok := leaves[k]; !ok || lv.Cmp(v) != 0 {
			return fmt.Sprintf("leaf %q = %v, model %v", k, lv, v)
		}
	}
	maxLvl := uint16(0)
	for l := range levels {
		if l > maxLvl {
			maxLvl = l
		}
	}
	for l := uint16(1); l <= maxLvl; l++ {
		nodes := levels[l]
		if len(nodes) == 0 {
			return fmt.Sprintf("level %d is empty below level %d", l, maxLvl)
		}
		// expected children = all nodes of level l-1 (or leaves), each exactly once, in order
		var below []string
		sumBelow := map[string]*big.Int{}
		if l == 1 {
			for k, v := range leaves {
				below = append(below, k)
				sumBelow[k] = v
			}
		} else {
			for _, nr := range levels[l-1] {
				below = append(below, nr.key)
				s := new(big.Int)
				for _, ch := range nr.node.Children {
					s.Add(s, ch.Accumulation.BigInt())
				}
				sumBelow[nr.key] = s
			}
		}
		sort.Strings(below)
		var listed []string
		for _, nr := range nodes {
			if len(nr.node.Children) == 0 {
				return fmt.Sprintf("node %d/%q has no children", l, nr.key)
			}
			for i, ch := range nr.node.Children {
				ck := string(ch.Index)
				if i > 0 && string(nr.node.Children[i-1].Index) >= ck {
					return fmt.Sprintf("node %d/%q children out of order at %d", l, nr.key, i)
				}
				want, ok := sumBelow[ck]
				if !ok {
					return fmt.Sprintf("node %d/%q lists child %q that does not exist on level %d", l, nr.key, ck, l-1)
				}
				if want.Cmp(ch.Accumulation.BigInt()) != 0 {
					return fmt.Sprintf("node %d/%q records %s for child %q whose subtree sums to %s", l, nr.key, ch.Accumulation, ck, want)
				}
				listed = append(listed, ck)
			}
		}
		if len(listed) != len(below) {
			return fmt.Sprintf("level %d lists %d children, level %d holds %d nodes", l, len(listed), l-1, len(below))
		}
		sort.Strings(listed)
		for i := range listed {
			if listed[i] != below[i] {
				return fmt.Sprintf("level %d children %q vs level %d node %q", l, listed[i], l-1, below[i])
			}
		}
	}
	if maxLvl > 0 && len(levels[maxLvl]) != 1 {
		return fmt.Sprintf("top level %d holds %d nodes", maxLvl, len(levels[maxLvl]))
	}
	return ""
}

func runC16(c *vk.Ctx) {
	c.R.Rule = "cases = operation histories (Set / Increase / Decrease / re-Set to zero, and in class B also Remove) over keys from a 2-4 letter alphabet (shared prefixes, empty key, re-insertion) at fan-out m ∈ {3..12, 32, 255}; after every operation a seed-chosen subset of Get / PrefixSum / SubsetAccumulation / SplitAcc / TotalAccumulatedValue / forward+reverse iteration is compared with a sorted map, and every 8 operations the raw store is walked (stored child sums vs actual subtree sums, children = nodes of the level below). distinct_nontrivial counts distinct (class, fan-out, tree height, op kind, query kind) tuples observed."
	fanouts := []uint8{3, 4, 5, 6, 7, 8, 9, 10, 11, 12, 32, 255, 10, 10}
	nHist := c.N(6000, 80000)
	opsPer := c.N(300, 600)
	c.Cases("history", nHist, func(i int, r *vk.Rng) {
		classB := i%10 == 9
		m := fanouts[r.Intn(len(fanouts))]
		alpha := 2 + r.Intn(3)
		maxLen := 2 + r.Intn(5)
		st := vk.NewSliceStore()
		var tree sumtree.Tree
		mdl := &c16Model{m: map[string]*big.Int{"": new(big.Int)}}
		effRemove := false
		cls := "A"
		if classB {
			cls = "B"
		}
		sig := func() map[string]any {
			return map[string]any{"class": cls, "history_has_effective_remove": effRemove}
		}
		rec, stack := vk.Guard(func() { tree = sumtree.NewTree(st, m) })
		if rec != nil {
			c.Violate("C16.panic", sig(), "NewTree panicked: %v\n%s", rec, stack)
			return
		}
		height := func() int {
			h := 0
			st.Each(func(k, v []byte) {
				if l := int(binary.BigEndian.Uint16(k[5:7])); l > h {
					h = l
				}
			})
			return h
		}
		nops := opsPer/2 + r.Intn(opsPer)
		if m >= 32 {
			// wide nodes only split once they hold more than m children: needs that many distinct keys
			alpha, maxLen = 4, 6
			nops = 3*int(m) + r.Intn(200)
		}
		for step := 0; step < nops; step++ {
			key := c16Key(r, alpha, maxLen)
			ks := string(key)
			amt := r.Range(0, 1000)
			if r.Intn(10) == 0 {
				amt = int64(r.U64() >> 2)
			}
			opk := r.Intn(100)
			var opName string
			c.Eval(1)
			rec, stack := vk.Guard(func() {
				switch {
				case classB && opk < 18:
					opName = "Remove"
					c.Logf("Remove(%q)", ks)
					if _, ok := mdl.m[ks]; ok {
						effRemove = true
					}
					tree.Remove(key)
					delete(mdl.m, ks)
				case opk < 55:
					opName = "Set"
					c.Logf("Set(%q,%d)", ks, amt)
					tree.Set(key, osmomath.NewInt(amt))
					mdl.m[ks] = big.NewInt(amt)
				case opk < 60:
					opName = "SetZero"
					c.Logf("Set(%q,0)", ks)
					tree.Set(key, osmomath.ZeroInt())
					mdl.m[ks] = new(big.Int)
				case opk < 82:
					opName = "Increase"
					c.Logf("Increase(%q,%d)", ks, amt)
					tree.Increase(key, osmomath.NewInt(amt))
					if _, ok := mdl.m[ks]; !ok {
						mdl.m[ks] = new(big.Int)
					}
					mdl.m[ks].Add(mdl.m[ks], big.NewInt(amt))
				default:
					opName = "Decrease"
					// sums may go negative in a plain sorted map as well; lockup never does, keep mostly non-negative
					if cur, ok := mdl.m[ks]; ok && cur.IsInt64() && cur.Int64() > 0 && r.Intn(4) != 0 {
						amt = r.Range(0, cur.Int64())
					}
					c.Logf("Decrease(%q,%d)", ks, amt)
					tree.Decrease(key, osmomath.NewInt(amt))
					if _, ok := mdl.m[ks]; !ok {
						mdl.m[ks] = new(big.Int)
					}
					mdl.m[ks].Sub(mdl.m[ks], big.NewInt(amt))
				}
			})
			if rec != nil {
				c.Violate("C16.panic", sig(), "%s(%q) panicked at step %d (m=%d): %v\n%s", opName, ks, step, m, rec, firstLines(stack, 14))
				return
			}
			// queries
			h := height()
			nq := 1 + r.Intn(3)
			for q := 0; q < nq; q++ {
				qk := c16Key(r, alpha, maxLen)
				if r.Intn(3) == 0 {
					qk = key
				}
				qs := string(qk)
				qkind := r.Intn(7)
				var fail string
				rec, stack := vk.Guard(func() {
					switch qkind {
					case 0:
						got := tree.Get(qk).BigInt()
						want, ok := mdl.m[qs]
						if !ok {
							want = new(big.Int)
						}
						if got.Cmp(want) != 0 {
							fail = fmt.Sprintf("Get(%q) = %s, map %s", qs, got, want)
						}
					case 1:
						got := tree.PrefixSum(qk).BigInt()
						want := mdl.rangeSum(nil, &qs)
						if got.Cmp(want) != 0 {
							fail = fmt.Sprintf("PrefixSum(%q) = %s, map %s", qs, got, want)
						}
					case 2:
						q2 := string(c16Key(r, alpha, maxLen))
						lo, hi := qs, q2
						if lo > hi {
							lo, hi = hi, lo
						}
						// nil means "open end" in this API: an empty key must be passed as a non-nil slice
						got := tree.SubsetAccumulation(nonNil(lo), nonNil(hi)).BigInt()
						want := mdl.rangeSum(&lo, &hi)
						if got.Cmp(want) != 0 {
							fail = fmt.Sprintf("SubsetAccumulation(%q,%q) = %s, map %s", lo, hi, got, want)
						}
					case 3:
						got := tree.SubsetAccumulation(nonNil(qs), nil).BigInt()
						want := mdl.rangeSum(&qs, nil)
						if got.Cmp(want) != 0 {
							fail = fmt.Sprintf("SubsetAccumulation(%q,nil) = %s, map %s", qs, got, want)
						}
					case 4:
						l, e, rr := tree.SplitAcc(qk)
						wl, we, wr := mdl.split(qs)
						if l.BigInt().Cmp(wl) != 0 || e.BigInt().Cmp(we) != 0 || rr.BigInt().Cmp(wr) != 0 {
							fail = fmt.Sprintf("SplitAcc(%q) = (%s,%s,%s), map (%s,%s,%s)", qs, l, e, rr, wl, we, wr)
						}
					case 5:
						got := tree.TotalAccumulatedValue().BigInt()
						want := mdl.rangeSum(nil, nil)
						if got.Cmp(want) != 0 {
							fail = fmt.Sprintf("TotalAccumulatedValue() = %s, map %s", got, want)
						}
					case 6:
						fail = c16Iter(tree, mdl, r, alpha, maxLen)
					}
				})
				c.Eval(1)
				qn := []string{"Get", "PrefixSum", "Subset", "SubsetFrom", "SplitAcc", "Total", "Iterate"}[qkind]
				if rec != nil {
					c.Violate("C16.panic", sig(), "query %s(%q) panicked at step %d (m=%d): %v\n%s", qn, qs, step, m, rec, firstLines(stack, 14))
					return
				}
				if fail != "" {
					s := sig()
					s["query"] = qn
					c.Violate("C16.query", s, "after %d ops (m=%d): %s", step+1, m, fail)
					return
				}
				c.Class("%s|m%d|h%d|%s|%s", cls, m, h, opName, qn)
			}
			if step%8 == 7 || step == nops-1 {
				if msg := c16Walk(st, mdl); msg != "" {
					c.Violate("C16.aggregates", sig(), "after %d ops (m=%d): %s", step+1, m, msg)
					return
				}
				c.Count("store_walks", 1)
			}
		}
		if i < 2 {
			c.Sample(map[string]any{"class": cls, "fanout": m, "ops": nops, "final_keys": len(mdl.m), "height": height()})
		}
	})
}

func nonNil(s string) []byte {
	b := []byte(s)
	if b == nil {
		b = []byte{}
	}
	return b
}

func firstLines(s string, n int) string {
	ls := strings.Split(s, "\n")
	if len(ls) > n {
		ls = ls[:n]
	}
	return strings.Join(ls, "\n")
}

func c16Iter(tree sumtree.Tree, mdl *c16Model, r *vk.Rng, alpha, maxLen int) string {
	keys := mdl.keys()
	rev := r.Bool()
	var lo, hi []byte
	if r.Intn(2) == 0 {
		lo = c16Key(r, alpha, maxLen)
	}
	if r.Intn(2) == 0 {
		hi = c16Key(r, alpha, maxLen)
	}
	var want []string
	for _, k := range keys {
		if lo != nil && k < string(lo) {
			continue
		}
		if hi != nil && k >= string(hi) {
			continue
		}
		want = append(want, k)
	}
	if rev {
		for a, b := 0, len(want)-1; a < b; a, b = a+1, b-1 {
			want[a], want[b] = want[b], want[a]
		}
	}
	var it interface {
		Valid() bool
		Next()
		Key() []byte
		Value() []byte
		Close() error
	}
	if rev {
		it = tree.ReverseIterator(lo, hi)
	} else {
		it = tree.Iterator(lo, hi)
	}
	defer it.Close()
	idx := 0
	for ; it.Valid(); it.Next() {
		k := it.Key()
		if len(k) < 7 {
			return fmt.Sprintf("iterator key %q too short", k)
		}
		got := string(k[7:])
		if idx >= len(want) {
			return fmt.Sprintf("iterator(%q,%q,rev=%v) yields extra key %q", lo, hi, rev, got)
		}
		if got != want[idx] {
			return fmt.Sprintf("iterator(%q,%q,rev=%v) position %d: %q, map %q", lo, hi, rev, idx, got, want[idx])
		}
		var lf sumtree.Leaf
		if err := proto.Unmarshal(it.Value(), &lf); err != nil || lf.Leaf == nil || lf.Leaf.Accumulation.BigInt().Cmp(mdl.m[got]) != 0 {
			return fmt.Sprintf("iterator value at %q does not match the map (%v)", got, err)
		}
		idx++
	}
	if idx != len(want) {
		return fmt.Sprintf("iterator(%q,%q,rev=%v) yields %d keys, map %d", lo, hi, rev, idx, len(want))
	}
	return ""
}
