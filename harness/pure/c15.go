//go:build verif

package main

// C15 — the reward accumulator pays each position growth × shares held.
// Oracle: ledger of (growth, shares) per position in big.Rat.

import (
	"fmt"
	"math/big"
	"sort"

	sdkmath "cosmossdk.io/math"
	sdk "github.com/cosmos/cosmos-sdk/types"

	"github.com/osmosis-labs/osmosis/osmomath"
	"github.com/osmosis-labs/osmosis/osmoutils/accum"
	"github.com/osmosis-labs/osmosis/v31/zzverif/vk"
)

type c15Pos struct {
	shares *big.Int            // scaled 1e18
	snap   map[string]*big.Int // scaled 1e18
	unc    map[string]*big.Rat // exact unclaimed (token units)
	events int64               // number of rounded products folded into the stored unclaimed total
}

type c15Model struct {
	denoms []string
	value  map[string]*big.Int // scaled 1e18
	pos    map[string]*c15Pos
}

var ratE18 = new(big.Rat).SetInt(e18)

func (m *c15Model) pending(p *c15Pos, d string) *big.Rat {
	// (V - snap) * shares, exact, in token units: both scaled 1e18
	dv := new(big.Int).Sub(m.val(d), p.snapOf(d))
	n := new(big.Int).Mul(dv, p.shares)
	return new(big.Rat).SetFrac(n, e36)
}
func (m *c15Model) val(d string) *big.Int {
	if v, ok := m.value[d]; ok {
		return v
	}
	return new(big.Int)
}
func (p *c15Pos) snapOf(d string) *big.Int {
	if v, ok := p.snap[d]; ok {
		return v
	}
	return new(big.Int)
}
func (p *c15Pos) uncOf(d string) *big.Rat {
	if v, ok := p.unc[d]; ok {
		return v
	}
	return new(big.Rat)
}
func (m *c15Model) rollUp(p *c15Pos) {
	for _, d := range m.denoms {
		pd := m.pending(p, d)
		if pd.Sign() != 0 {
			p.unc[d] = new(big.Rat).Add(p.uncOf(d), pd)
		}
	}
	p.events++
}
func (m *c15Model) totalShares() *big.Int {
	s := new(big.Int)
	for _, p := range m.pos {
		s.Add(s, p.shares)
	}
	return s
}

func decCoinsOf(m map[string]*big.Int, denoms []string) sdk.DecCoins {
	var cs []sdk.DecCoin
	for _, d := range denoms {
		if v, ok := m[d]; ok && v.Sign() > 0 {
			cs = append(cs, sdk.NewDecCoinFromDec(d, sdkmath.LegacyNewDecFromBigIntWithPrec(v, 18)))
		}
	}
	return sdk.NewDecCoins(cs...)
}

func c15Shares(r *vk.Rng) *big.Int {
	switch r.Intn(8) {
	case 0:
		return big.NewInt(1 + r.I64n(5)) // ulps
	case 1:
		return new(big.Int).Mul(big.NewInt(1+r.I64n(1000)), e18)
	case 2:
		return r.BigMag(18, 48)
	case 3:
		return new(big.Int).Add(new(big.Int).Mul(big.NewInt(r.I64n(100)), e18), big.NewInt(333333333333333333))
	default:
		return r.BigMag(10, 40)
	}
}

func runC15(c *vk.Ctx) {
	c.R.Rule = "cases = operation sequences on one accumulator over 2-5 names and 1-3 reward denoms: AddToAccumulator, NewPosition(+interval form), AddTo/RemoveFrom/UpdatePosition(+interval forms), SetPositionIntervalAccumulation, AddToUnclaimedRewards, ClaimRewards, DeletePosition, and invalid calls (unknown name, zero / negative / excessive share change); a third of the sequences use a fresh GetAccumulator handle per operation, a third one persistent handle, a third two long-lived handles alternately (one of them stale in its total-share field whenever the other changed shares; both refreshed before value changes and before operations that write the cached total back). After every operation total shares, every position record and every position's claimable amount are compared with an exact big.Rat ledger; failing calls must leave the store digest unchanged. distinct_nontrivial counts distinct (handle mode, operation, outcome, #denoms with non-zero claim, claim-near-integer?) tuples."
	nSeq := c.N(40000, 600000)
	opsPer := c.N(60, 120)
	c.Cases("sequence", nSeq, func(i int, r *vk.Rng) {
		st := vk.NewSliceStore()
		nDen := 1 + r.Intn(3)
		denoms := []string{"aaa", "bbb", "ccc"}[:nDen]
		names := []string{"p1", "p2", "p3", "p4", "p5"}[:2+r.Intn(4)]
		persistent := r.Bool()
		mode := "fresh"
		if persistent {
			mode = "persistent"
		}
		// every third sequence: two long-lived handles used alternately. The share-changing position
		// operations re-read the total from the store, so a handle whose total-share field is stale
		// (the other handle changed it) is legitimate for them; value changes and the operations that
		// write the cached total back refresh both handles first.
		two := i%3 == 2
		if two {
			persistent, mode = true, "two-handles"
		}
		var hs [2]*accum.AccumulatorObject
		valueDirty := false
		m := &c15Model{denoms: denoms, value: map[string]*big.Int{}, pos: map[string]*c15Pos{}}
		if err := accum.MakeAccumulator(st, "acc"); err != nil {
			c.Violate("C15.setup", nil, "MakeAccumulator: %v", err)
			return
		}
		var handle *accum.AccumulatorObject
		get := func(staleSafe bool) *accum.AccumulatorObject {
			if two {
				idx := r.Intn(2)
				if !staleSafe || valueDirty || hs[idx] == nil {
					for j := range hs {
						h, err := accum.GetAccumulator(st, "acc")
						if err != nil {
							panic(err)
						}
						hs[j] = h
					}
					valueDirty = false
				}
				handle = hs[idx]
				return handle
			}
			if persistent && handle != nil {
				return handle
			}
			h, err := accum.GetAccumulator(st, "acc")
			if err != nil {
				panic(err)
			}
			handle = h
			return h
		}
		sig := func(op string) map[string]any { return map[string]any{"op": op, "handle": mode} }
		posDigest := func(skip string) map[string]string {
			out := map[string]string{}
			for _, n := range names {
				if n == skip {
					continue
				}
				out[n] = string(st.Get(accum.FormatPositionPrefixKey("acc", n)))
			}
			return out
		}

		for step := 0; step < opsPer; step++ {
			name := names[r.Intn(len(names))]
			_, exists := m.pos[name]
			k := r.Intn(100)
			c.Eval(1)
			var opName, outcome string
			failed := false
			before := st.Digest()
			others := posDigest(name)
			expectFail := false
			var err error
			rec, stack := vk.Guard(func() {
				staleSafe := k >= 22 && ((k < 36 && !exists) || (k < 50 && exists) || (k < 62 && exists && m.pos[name].shares.Sign() > 0))
				a := get(staleSafe)
				switch {
				case k < 22:
					opName = "AddToAccumulator"
					valueDirty = true
					amt := map[string]*big.Int{}
					for _, d := range denoms {
						if r.Intn(3) != 0 {
							x := r.BigMag(0, 30)
							if r.Intn(4) == 0 {
								x = big.NewInt(1 + r.I64n(9))
							}
							amt[d] = x
						}
					}
					c.Logf("AddToAccumulator(%v)", amt)
					a.AddToAccumulator(decCoinsOf(amt, denoms))
					for d, x := range amt {
						m.value[d] = new(big.Int).Add(m.val(d), x)
					}
				case k < 36 && !exists:
					sh := c15Shares(r)
					if r.Intn(15) == 0 {
						sh = new(big.Int)
					}
					if r.Bool() {
						opName = "NewPosition"
						c.Logf("NewPosition(%s,%s)", name, sh)
						err = a.NewPosition(name, sdkmath.LegacyNewDecFromBigIntWithPrec(sh, 18), nil)
						m.pos[name] = &c15Pos{shares: sh, snap: copyMap(m.value), unc: map[string]*big.Rat{}}
					} else {
						opName = "NewPositionInterval"
						x := c15Below(r, m)
						c.Logf("NewPositionIntervalAccumulation(%s,%s,%v)", name, sh, x)
						err = a.NewPositionIntervalAccumulation(name, sdkmath.LegacyNewDecFromBigIntWithPrec(sh, 18), decCoinsOf(x, denoms), nil)
						m.pos[name] = &c15Pos{shares: sh, snap: x, unc: map[string]*big.Rat{}}
					}
				case k < 50 && exists:
					p := m.pos[name]
					sh := c15Shares(r)
					form := r.Intn(4)
					m.rollUp(p)
					switch form {
					case 0:
						opName = "AddToPosition"
						c.Logf("AddToPosition(%s,%s)", name, sh)
						err = a.AddToPosition(name, sdkmath.LegacyNewDecFromBigIntWithPrec(sh, 18))
						p.snap = copyMap(m.value)
					case 1:
						opName = "UpdatePosition+"
						c.Logf("UpdatePosition(%s,+%s)", name, sh)
						err = a.UpdatePosition(name, sdkmath.LegacyNewDecFromBigIntWithPrec(sh, 18))
						p.snap = copyMap(m.value)
					case 2:
						opName = "AddToPositionInterval"
						x := c15Below(r, m)
						c.Logf("AddToPositionIntervalAccumulation(%s,%s,%v)", name, sh, x)
						err = a.AddToPositionIntervalAccumulation(name, sdkmath.LegacyNewDecFromBigIntWithPrec(sh, 18), decCoinsOf(x, denoms))
						p.snap = x
					default:
						opName = "UpdatePositionInterval+"
						x := c15Below(r, m)
						c.Logf("UpdatePositionIntervalAccumulation(%s,+%s,%v)", name, sh, x)
						err = a.UpdatePositionIntervalAccumulation(name, sdkmath.LegacyNewDecFromBigIntWithPrec(sh, 18), decCoinsOf(x, denoms))
						p.snap = x
					}
					p.shares = new(big.Int).Add(p.shares, sh)
				case k < 62 && exists && m.pos[name].shares.Sign() > 0:
					p := m.pos[name]
					sh := r.BigBelow(p.shares)
					sh.Add(sh, bigOne)
					if r.Intn(4) == 0 {
						sh = new(big.Int).Set(p.shares) // remove everything
					}
					form := r.Intn(4)
					m.rollUp(p)
					dec := sdkmath.LegacyNewDecFromBigIntWithPrec(sh, 18)
					switch form {
					case 0:
						opName = "RemoveFromPosition"
						c.Logf("RemoveFromPosition(%s,%s)", name, sh)
						err = a.RemoveFromPosition(name, dec)
						p.snap = copyMap(m.value)
					case 1:
						opName = "UpdatePosition-"
						c.Logf("UpdatePosition(%s,-%s)", name, sh)
						err = a.UpdatePosition(name, dec.Neg())
						p.snap = copyMap(m.value)
					case 2:
						opName = "RemoveFromPositionInterval"
						x := c15Below(r, m)
						c.Logf("RemoveFromPositionIntervalAccumulation(%s,%s,%v)", name, sh, x)
						err = a.RemoveFromPositionIntervalAccumulation(name, dec, decCoinsOf(x, denoms))
						p.snap = x
					default:
						opName = "UpdatePositionInterval-"
						x := c15Below(r, m)
						c.Logf("UpdatePositionIntervalAccumulation(%s,-%s,%v)", name, sh, x)
						err = a.UpdatePositionIntervalAccumulation(name, dec.Neg(), decCoinsOf(x, denoms))
						p.snap = x
					}
					p.shares = new(big.Int).Sub(p.shares, sh)
				case k < 67 && exists:
					p := m.pos[name]
					opName = "SetPositionIntervalAccumulation"
					x := c15Below(r, m)
					c.Logf("SetPositionIntervalAccumulation(%s,%v)", name, x)
					err = a.SetPositionIntervalAccumulation(name, decCoinsOf(x, denoms))
					p.snap = x // stored unclaimed untouched, pending is re-based on the new snapshot
				case k < 72 && exists:
					p := m.pos[name]
					opName = "AddToUnclaimedRewards"
					amt := map[string]*big.Int{}
					for _, d := range denoms {
						if r.Bool() {
							amt[d] = r.BigMag(0, 36)
						}
					}
					c.Logf("AddToUnclaimedRewards(%s,%v)", name, amt)
					err = a.AddToUnclaimedRewards(name, decCoinsOf(amt, denoms))
					for d, x := range amt {
						p.unc[d] = new(big.Rat).Add(p.uncOf(d), new(big.Rat).SetFrac(x, e18))
					}
				case k < 84 && exists:
					p := m.pos[name]
					opName = "ClaimRewards"
					c.Logf("ClaimRewards(%s)", name)
					var coins sdk.Coins
					var dust sdk.DecCoins
					coins, dust, err = a.ClaimRewards(name)
					if err == nil {
						outcome = c15CheckClaim(c, m, p, name, coins, dust, sig(opName))
						if p.shares.Sign() == 0 {
							delete(m.pos, name)
							outcome += "|gone"
						} else {
							p.snap, p.unc, p.events = copyMap(m.value), map[string]*big.Rat{}, 0
						}
					}
				case k < 90 && exists:
					p := m.pos[name]
					opName = "DeletePosition"
					c.Logf("DeletePosition(%s)", name)
					var rem sdk.DecCoins
					rem, err = a.DeletePosition(name)
					if err == nil {
						outcome = c15CheckTotal(c, m, p, name, rem, sig(opName))
						delete(m.pos, name)
					}
				default: // invalid calls: must fail without effect
					expectFail = true
					bad := name
					if exists || r.Intn(3) == 0 {
						bad = "nobody"
					}
					_, badExists := m.pos[bad]
					z := sdkmath.LegacyZeroDec()
					neg := sdkmath.LegacyNewDecFromBigIntWithPrec(new(big.Int).Neg(c15Shares(r)), 18)
					one := sdkmath.LegacyOneDec()
					switch r.Intn(9) {
					case 0:
						opName = "AddToPosition(unknown)"
						err = a.AddToPosition(bad, one)
						expectFail = !badExists
					case 1:
						opName = "AddToPosition(zero)"
						err = a.AddToPosition(name, z)
					case 2:
						opName = "AddToPosition(negative)"
						err = a.AddToPosition(name, neg)
					case 3:
						opName = "RemoveFromPosition(zero)"
						err = a.RemoveFromPosition(name, z)
					case 4:
						opName = "RemoveFromPosition(negative)"
						err = a.RemoveFromPosition(name, neg)
					case 5:
						opName = "RemoveFromPosition(too many)"
						if exists {
							err = a.RemoveFromPosition(name, sdkmath.LegacyNewDecFromBigIntWithPrec(new(big.Int).Add(m.pos[name].shares, bigOne), 18))
						} else {
							err = a.RemoveFromPosition(name, one)
						}
					case 6:
						opName = "UpdatePosition(zero)"
						err = a.UpdatePosition(name, z)
					case 7:
						opName = "ClaimRewards(unknown)"
						_, _, err = a.ClaimRewards(bad)
						expectFail = !badExists
					default:
						opName = "DeletePosition(unknown)"
						_, err = a.DeletePosition(bad)
						expectFail = !badExists
					}
					c.Logf("%s on %s", opName, name)
					if !expectFail { // the random "bad" name happened to exist: skip this step's verdicts, resync
						panic("c15-resync")
					}
				}
				if opName == "" {
					opName = "skip"
				}
			})
			if rec != nil {
				if fmt.Sprint(rec) == "c15-resync" {
					return // never happens: "nobody" is not a generated name
				}
				c.Violate("C15.panic", sig(opName), "%s panicked at step %d: %v\n%s", opName, step, rec, firstLines(stack, 12))
				return
			}
			if opName == "skip" {
				continue
			}
			failed = err != nil
			if expectFail {
				outcome = "rejected"
				if !failed {
					c.Violate("C15.invalid_call_succeeded", sig(opName), "%s succeeded at step %d", opName, step)
					return
				}
				if st.Digest() != before {
					c.Violate("C15.failed_call_had_effect", sig(opName), "%s returned %v but changed the store", opName, err)
					return
				}
				if persistent && !two { // a failing call must not corrupt the handle either
					h2, _ := accum.GetAccumulator(st, "acc")
					if !h2.GetTotalShares().Equal(handle.GetTotalShares()) || !h2.GetValue().Equal(handle.GetValue()) {
						c.Violate("C15.failed_call_had_effect", sig(opName), "%s left the handle out of sync with the store", opName)
						return
					}
				}
			} else if failed {
				c.Violate("C15.valid_call_failed", sig(opName), "%s failed at step %d: %v", opName, step, err)
				return
			}
			// ---- invariants after every operation
			fresh, ferr := accum.GetAccumulator(st, "acc")
			if ferr != nil {
				c.Violate("C15.accumulator_lost", sig(opName), "GetAccumulator after %s: %v", opName, ferr)
				return
			}
			if ts := fresh.GetTotalShares().BigInt(); ts.Cmp(m.totalShares()) != 0 {
				c.Violate("C15.total_shares", sig(opName), "after %s: TotalShares %s, Σ position shares %s", opName, ts, m.totalShares())
				return
			}
			if persistent && !handle.GetTotalShares().Equal(fresh.GetTotalShares()) {
				c.Violate("C15.total_shares", sig(opName), "after %s: persistent handle reports %s, store %s", opName, handle.GetTotalShares(), fresh.GetTotalShares())
				return
			}
			for _, d := range denoms {
				if got := fresh.GetValue().AmountOf(d).BigInt(); got.Cmp(m.val(d)) != 0 {
					c.Violate("C15.value", sig(opName), "after %s: accumulator value[%s] %s, model %s", opName, d, got, m.val(d))
					return
				}
			}
			// other positions untouched by a single-position operation
			if opName != "AddToAccumulator" {
				now := posDigest(name)
				for n, b := range others {
					if now[n] != b {
						c.Violate("C15.foreign_record_changed", sig(opName), "%s on %s changed the record of %s", opName, name, n)
						return
					}
				}
			}
			nz := 0
			near := false
			for _, n := range names {
				p, ok := m.pos[n]
				has := fresh.HasPosition(n)
				if has != ok {
					c.Violate("C15.position_presence", sig(opName), "after %s: HasPosition(%s)=%v, model %v", opName, n, has, ok)
					return
				}
				if !ok {
					continue
				}
				recd, gerr := fresh.GetPosition(n)
				if gerr != nil || recd.NumShares.BigInt().Cmp(p.shares) != 0 {
					c.Violate("C15.position_shares", sig(opName), "after %s: position %s shares %v (%v), model %s", opName, n, recd.NumShares, gerr, p.shares)
					return
				}
				tot := accum.GetTotalRewards(fresh, recd)
				a, b, msg := c15Compare(m, p, func(d string) *big.Int { return tot.AmountOf(d).BigInt() }, 1)
				nz += a
				near = near || b
				if msg != "" {
					c.Violate("C15.claimable", sig(opName), "after %s: position %s: %s", opName, n, msg)
					return
				}
			}
			if outcome == "" {
				outcome = "ok"
			}
			c.Class("%s|%s|%s|nz%d|near%v", mode, opName, outcome, nz, near)
		}
		if i < 2 {
			c.Sample(map[string]any{"handle": mode, "names": names, "denoms": denoms, "ops": opsPer, "final_total_shares_1e18": m.totalShares().String()})
		}
	})
}

func copyMap(m map[string]*big.Int) map[string]*big.Int {
	o := map[string]*big.Int{}
	for k, v := range m {
		o[k] = new(big.Int).Set(v)
	}
	return o
}

// c15Below returns an interval snapshot component-wise <= the current accumulator value.
func c15Below(r *vk.Rng, m *c15Model) map[string]*big.Int {
	x := map[string]*big.Int{}
	for _, d := range m.denoms {
		v := m.val(d)
		if v.Sign() == 0 {
			continue
		}
		switch r.Intn(4) {
		case 0:
			x[d] = new(big.Int).Set(v)
		case 1: // zero: omitted
		default:
			x[d] = r.BigBelow(new(big.Int).Add(v, bigOne))
		}
		if x[d] != nil && x[d].Sign() == 0 {
			delete(x, d)
		}
	}
	return x
}

// c15Compare checks impl total rewards (scaled 1e18 per denom) against the exact ledger.
// Allowance: (events + extra) ulps of 1e-18, one per rounded product folded in.
func c15Compare(m *c15Model, p *c15Pos, got func(d string) *big.Int, extra int64) (nz int, near bool, msg string) {
	ds := append([]string(nil), m.denoms...)
	sort.Strings(ds)
	for _, d := range ds {
		exact := new(big.Rat).Add(p.uncOf(d), m.pending(p, d))
		g := new(big.Rat).SetFrac(got(d), e18)
		diff := new(big.Rat).Sub(g, exact)
		diff.Abs(diff)
		tol := new(big.Rat).SetFrac(big.NewInt(p.events+extra), e18)
		if diff.Cmp(tol) > 0 {
			return nz, near, fmt.Sprintf("claimable[%s] = %s, ledger Σ growth×shares = %s (|diff| %s > allowance %s for %d rounded products)", d, g.FloatString(18), exact.FloatString(24), diff.FloatString(24), tol.FloatString(18), p.events+extra)
		}
		if exact.Sign() > 0 {
			nz++
		}
		// near an integer?
		fl := new(big.Int).Quo(exact.Num(), exact.Denom())
		fr := new(big.Rat).Sub(exact, new(big.Rat).SetInt(fl))
		if fr.Cmp(tol) < 0 || new(big.Rat).Sub(big.NewRat(1, 1), fr).Cmp(tol) < 0 {
			near = true
		}
	}
	return
}

func c15CheckClaim(c *vk.Ctx, m *c15Model, p *c15Pos, name string, coins sdk.Coins, dust sdk.DecCoins, sig map[string]any) string {
	// integer claim must be floor of a value within the allowance of the exact ledger value
	for _, d := range m.denoms {
		exact := new(big.Rat).Add(p.uncOf(d), m.pending(p, d))
		tol := new(big.Rat).SetFrac(big.NewInt(p.events+1), e18)
		lo := ratFloor(new(big.Rat).Sub(exact, tol))
		hi := ratFloor(new(big.Rat).Add(exact, tol))
		got := coins.AmountOf(d).BigInt()
		if got.Cmp(lo) < 0 || got.Cmp(hi) > 0 {
			c.Violate("C15.claim_amount", sig, "ClaimRewards(%s)[%s] = %s, ledger Σ growth×shares = %s (floor range [%s,%s])", name, d, got, exact.FloatString(24), lo, hi)
			return "bad"
		}
		// dust + claim = total
		tot := new(big.Rat).Add(new(big.Rat).SetInt(got), new(big.Rat).SetFrac(dust.AmountOf(d).BigInt(), e18))
		diff := new(big.Rat).Sub(tot, exact)
		if diff.Abs(diff).Cmp(tol) > 0 {
			c.Violate("C15.claim_amount", sig, "ClaimRewards(%s)[%s]: claim+dust = %s, ledger %s", name, d, tot.FloatString(18), exact.FloatString(24))
			return "bad"
		}
		if dust.AmountOf(d).GTE(osmomath.OneDec()) || dust.AmountOf(d).IsNegative() {
			c.Violate("C15.claim_amount", sig, "ClaimRewards(%s)[%s]: dust %s is not a proper fraction", name, d, dust.AmountOf(d))
			return "bad"
		}
	}
	return "claimed"
}

func c15CheckTotal(c *vk.Ctx, m *c15Model, p *c15Pos, name string, rem sdk.DecCoins, sig map[string]any) string {
	_, _, msg := c15Compare(m, p, func(d string) *big.Int { return rem.AmountOf(d).BigInt() }, 1)
	if msg != "" {
		c.Violate("C15.claim_amount", sig, "DeletePosition(%s): %s", name, msg)
		return "bad"
	}
	return "deleted"
}

func ratFloor(x *big.Rat) *big.Int {
	return divFloor(x.Num(), x.Denom())
}
