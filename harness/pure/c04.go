//go:build verif

package main

// C04 — balancer / stableswap pool math never gives value away (pool-model level, D0).
// Oracle: exact constant-weighted-product formula in 700-bit floats, exact integer /
// rational comparisons for the proportional bounds and the stableswap invariant.

import (
	"fmt"
	"math/big"
	"strings"
	"time"

	sdkmath "cosmossdk.io/math"
	sdk "github.com/cosmos/cosmos-sdk/types"

	"github.com/osmosis-labs/osmosis/osmomath"
	"github.com/osmosis-labs/osmosis/v31/x/gamm/pool-models/balancer"
	"github.com/osmosis-labs/osmosis/v31/x/gamm/pool-models/stableswap"
	"github.com/osmosis-labs/osmosis/v31/zzverif/vk"
)

var c04Denoms = []string{"aaa", "bbb", "ccc", "ddd", "eee", "fff", "ggg", "hhh"}

func c04Fee(r *vk.Rng) osmomath.Dec {
	fees := []string{"0", "0.0001", "0.003", "0.01", "0.1", "0.5"}
	return osmomath.MustNewDecFromStr(fees[r.Intn(len(fees))])
}

func bfDec(d osmomath.Dec) *big.Float { return bfScaled(d.BigInt(), 18) }
func bfI(i sdkmath.Int) *big.Float    { return bfInt(i.BigInt()) }

// toleranceFor returns R·(pp·max(1,y^⌊e⌋) + (2e-18 + e·1e-18)·max(1,y^e))/feeDiv + 1
func c04Tol(R, y, e *big.Float, feeDiv *big.Float) *big.Float {
	pp := bfDec(osmomath.GetPowPrecision())
	ei, _ := e.Int(nil)
	yInt := bfPow(y, bfInt(ei))
	if e.Cmp(bf(0)) == 0 {
		yInt = bf(1)
	}
	yE := bfPow(y, e)
	m1 := yInt
	if m1.Cmp(bf(1)) < 0 {
		m1 = bf(1)
	}
	m2 := yE
	if m2.Cmp(bf(1)) < 0 {
		m2 = bf(1)
	}
	ulps := bfNew().Add(bfScaled(big.NewInt(2), 18), bfNew().Mul(e, bfScaled(bigOne, 18)))
	t := bfNew().Add(bfNew().Mul(pp, m1), bfNew().Mul(ulps, m2))
	t.Mul(t, R)
	if feeDiv != nil {
		t.Quo(t, feeDiv)
	}
	return t.Add(t, bf(1))
}

type c04Bal struct {
	pool    balancer.Pool
	fee     osmomath.Dec
	exitFee osmomath.Dec
	denoms  []string
	exact   bool // exact sub-family (weight ratios 1 or 2, reserves <= 1e16)
}

func (b *c04Bal) asset(d string) balancer.PoolAsset {
	a, err := b.pool.GetPoolAsset(d)
	if err != nil {
		panic(err)
	}
	return a
}

// invariant: Σ (w_i/W)·ln B_i − ln S
func (b *c04Bal) logValuePerShare() *big.Float {
	W := bfI(b.pool.GetTotalWeight())
	s := bfNew()
	for _, a := range b.pool.GetAllPoolAssets() {
		t := bfNew().Quo(bfI(a.Weight), W)
		s.Add(s, t.Mul(t, bfLn(bfI(a.Token.Amount))))
	}
	return s.Sub(s, bfLn(bfI(b.pool.GetTotalShares())))
}

func c04NewBalancer(r *vk.Rng, id uint64) (*c04Bal, error) {
	n := 2 + r.Intn(7)
	if r.Intn(3) == 0 {
		n = 2
	}
	exact := r.Intn(4) == 0
	var assets []balancer.PoolAsset
	for i := 0; i < n; i++ {
		var w int64
		var amt *big.Int
		if exact {
			w = []int64{1, 2, 2, 4}[r.Intn(4)]
			if r.Intn(3) == 0 {
				w = 1
			}
			amt = r.BigMag(0, 15)
		} else {
			switch r.Intn(4) {
			case 0:
				w = 1 + r.I64n(10)
			case 1:
				w = 1 + r.I64n(1<<20-1)
			default:
				w = 1 + r.I64n(1000)
			}
			amt = r.BigMag(0, 29)
			if r.Intn(4) == 0 {
				amt = r.BigMag(10, 20)
			}
		}
		assets = append(assets, balancer.PoolAsset{Weight: sdkmath.NewInt(w), Token: sdk.NewCoin(c04Denoms[i], sdkmath.NewIntFromBigInt(amt))})
	}
	fee := c04Fee(r)
	// legacy pools carry an exit fee (new ones must have none; the model accepts any value below one)
	exitFee := osmomath.ZeroDec()
	if r.Intn(5) == 0 {
		exitFee = osmomath.MustNewDecFromStr([]string{"0.001", "0.01", "0.1", "0.5"}[r.Intn(4)])
	}
	p, err := balancer.NewBalancerPool(id, balancer.NewPoolParams(fee, exitFee, nil), assets, "", time.Unix(1700000000, 0))
	if err != nil {
		return nil, err
	}
	return &c04Bal{pool: p, fee: fee, exitFee: exitFee, denoms: c04Denoms[:n], exact: exact}, nil
}

func c04Amount(r *vk.Rng, reserve sdkmath.Int) sdkmath.Int {
	rb := reserve.BigInt()
	var x *big.Int
	switch r.Intn(8) {
	case 0:
		x = big.NewInt(1 + r.I64n(10))
	case 1: // about half the reserve
		x = new(big.Int).Quo(rb, bigTwo)
		x.Add(x, big.NewInt(r.Range(-3, 3)))
	case 2: // near the whole reserve
		x = new(big.Int).Sub(rb, big.NewInt(r.I64n(5)))
	case 3: // larger than the reserve
		x = new(big.Int).Mul(rb, big.NewInt(1+r.I64n(20)))
	case 4:
		x = new(big.Int).Quo(rb, big.NewInt(1+r.I64n(1000000)))
	default:
		x = r.BigBelow(new(big.Int).Add(rb, bigOne))
	}
	if x.Sign() <= 0 {
		x = big.NewInt(1)
	}
	return sdkmath.NewIntFromBigInt(x)
}

func isDocumentedRejection(rec any, err error) bool {
	s := ""
	if rec != nil {
		s = fmt.Sprint(rec)
	} else if err != nil {
		s = err.Error()
	}
	for _, k := range []string{"base must be lesser than two", "base must be greater than 0", "failed to reach precision", "token amount must be positive",
		"Int overflow", "overflow", "must be positive", "too many shares out", "cannot exit all shares", "decimal out of range", "out of bound",
		"cannot input more than pool reserves", "invalid input", "invalid output", "hit maximum iterations", "k should never be zero", "negative coin amount",
		"pool liquidity is too", "scaled", "division by zero", "exceeds max", "too few shares", "insufficient", "is not positive", "not positive", "more coins joined", "exponent",
		// a swap whose rounded output would be the pool's whole balance of an asset is refused (repair of the C02 drain defect)
		"more tokens out of the pool than exist"} {
		if strings.Contains(s, k) {
			return true
		}
	}
	return false
}

func runC04(c *vk.Ctx) {
	c.R.Rule = "cases = short operation sequences (<= 6 ops) on one in-memory balancer pool (2..8 assets, weights 1..2^20, reserves 1..1e30 incl. strongly unbalanced, fees 0..0.5, one pool in five with a legacy exit fee 0.001..0.5; a quarter from the exact sub-family: weight ratios 1 or 2 and reserves <= 1e16) or stableswap pool (2..8 assets, scaling factors 1..1e6): swap exact-in/out, single-asset join, exact-shares join, proportional join/exit, single-asset exit. Each result is compared with the exact formula (two-sided, tolerance = reserve·power-precision as documented), the value-per-share invariant before/after, proportional bounds exactly, stableswap invariant exactly, and closed loops in the exact sub-family. Documented rejections are outcomes. distinct_nontrivial counts distinct (pool type, op, #assets bucket, fee, trade-size class, exact-family?, outcome) tuples."
	_, ctx := vk.NewMemCtx("gamm")
	c.Cases("balancer", c.N(30000, 1500000), func(i int, r *vk.Rng) {
		b, err := c04NewBalancer(r, uint64(1+i%1000))
		if err != nil {
			c.Class("bal|create-rejected")
			return
		}
		nops := 1 + r.Intn(6)
		for step := 0; step < nops; step++ {
			c.Eval(1)
			di := r.Intn(len(b.denoms))
			dj := (di + 1 + r.Intn(len(b.denoms)-1)) % len(b.denoms)
			ain, aout := b.asset(b.denoms[di]), b.asset(b.denoms[dj])
			S := b.pool.GetTotalShares()
			W := b.pool.GetTotalWeight()
			before := b.logValuePerShare()
			op := r.Intn(9)
			opName := []string{"swap-in", "swap-out", "join-single", "join-exact-shares", "join-all", "exit-all", "exit-single-out", "loop", "join-uneven"}[op]
			preAmts := map[string]sdkmath.Int{}
			for _, a := range b.pool.GetAllPoolAssets() {
				preAmts[a.Token.Denom] = a.Token.Amount
			}
			sig := map[string]any{"pool": "balancer", "op": opName, "exact_family": b.exact}
			sizeCls := "mid"
			var outcome string
			rec, stack := vk.Guard(func() {
				switch op {
				case 0: // swap exact in
					amt := c04Amount(r, ain.Token.Amount)
					sizeCls = c04Size(amt, ain.Token.Amount)
					c.Logf("SwapOutAmtGivenIn(%s%s -> %s) reserves in=%s out=%s w=%s/%s fee=%s", amt, ain.Token.Denom, aout.Token.Denom, ain.Token.Amount, aout.Token.Amount, ain.Weight, aout.Weight, b.fee)
					out, e := b.pool.SwapOutAmtGivenIn(ctx, sdk.NewCoins(sdk.NewCoin(ain.Token.Denom, amt)), aout.Token.Denom, b.fee)
					if e != nil {
						err = e
						return
					}
					inAfter := bfNew().Mul(bfI(amt), bfNew().Sub(bf(1), bfDec(b.fee)))
					y := bfNew().Quo(bfI(ain.Token.Amount), bfNew().Add(bfI(ain.Token.Amount), inAfter))
					e1 := bfNew().Quo(bfI(ain.Weight), bfI(aout.Weight))
					exactOut := bfNew().Mul(bfI(aout.Token.Amount), bfNew().Sub(bf(1), bfPow(y, e1)))
					sig["pow_base_below_half"] = y.Cmp(bf(0.5)) < 0
					outcome = c04Compare(c, sig, "out", bfI(out.Amount), exactOut, c04Tol(bfI(aout.Token.Amount), y, e1, nil), false, b.exact && c04IntRatio(ain.Weight, aout.Weight), bfNew().Mul(bfI(aout.Token.Amount), bf(2e-17)))
				case 1: // swap exact out
					amt := c04Amount(r, aout.Token.Amount)
					if amt.GTE(aout.Token.Amount) {
						amt = aout.Token.Amount.SubRaw(1)
					}
					if !amt.IsPositive() {
						outcome = "skip"
						return
					}
					sizeCls = c04Size(amt, aout.Token.Amount)
					c.Logf("SwapInAmtGivenOut(%s%s <- %s) reserves in=%s out=%s w=%s/%s fee=%s", amt, aout.Token.Denom, ain.Token.Denom, ain.Token.Amount, aout.Token.Amount, ain.Weight, aout.Weight, b.fee)
					in, e := b.pool.SwapInAmtGivenOut(ctx, sdk.NewCoins(sdk.NewCoin(aout.Token.Denom, amt)), ain.Token.Denom, b.fee)
					if e != nil {
						err = e
						return
					}
					y := bfNew().Quo(bfI(aout.Token.Amount), bfNew().Sub(bfI(aout.Token.Amount), bfI(amt)))
					e1 := bfNew().Quo(bfI(aout.Weight), bfI(ain.Weight))
					oneMinusFee := bfNew().Sub(bf(1), bfDec(b.fee))
					exactIn := bfNew().Mul(bfI(ain.Token.Amount), bfNew().Sub(bfPow(y, e1), bf(1)))
					exactIn.Quo(exactIn, oneMinusFee)
					sig["pow_base_below_half"] = false
					outcome = c04Compare(c, sig, "in", bfI(in.Amount), exactIn, c04Tol(bfI(ain.Token.Amount), y, e1, oneMinusFee), true, b.exact && c04IntRatio(aout.Weight, ain.Weight), bfNew().Quo(bfNew().Mul(bfI(ain.Token.Amount), bf(2e-17)), oneMinusFee))
				case 2: // single asset join
					amt := c04Amount(r, ain.Token.Amount)
					sizeCls = c04Size(amt, ain.Token.Amount)
					c.Logf("JoinPool(single %s%s) reserve=%s w=%s/%s S=%s fee=%s", amt, ain.Token.Denom, ain.Token.Amount, ain.Weight, W, S, b.fee)
					sh, e := b.pool.JoinPool(ctx, sdk.NewCoins(sdk.NewCoin(ain.Token.Denom, amt)), b.fee)
					if e != nil {
						err = e
						return
					}
					nw := bfNew().Quo(bfI(ain.Weight), bfI(W))
					feeRatio := bfNew().Sub(bf(1), bfNew().Mul(bfNew().Sub(bf(1), nw), bfDec(b.fee)))
					inAfter := bfNew().Mul(bfI(amt), feeRatio)
					y := bfNew().Quo(bfNew().Add(bfI(ain.Token.Amount), inAfter), bfI(ain.Token.Amount))
					exactShares := bfNew().Mul(bfI(S), bfNew().Sub(bfPow(y, nw), bf(1)))
					sig["pow_base_below_half"] = false
					outcome = c04Compare(c, sig, "shares", bfI(sh), exactShares, c04Tol(bfI(S), y, nw, nil), false, false, nil)
				case 3: // exact shares out, single asset in
					sh := c04Amount(r, S)
					sizeCls = c04Size(sh, S)
					c.Logf("CalcTokenInShareAmountOut(%s shares, %s) reserve=%s w=%s/%s S=%s", sh, ain.Token.Denom, ain.Token.Amount, ain.Weight, W, S)
					in, e := b.pool.CalcTokenInShareAmountOut(ctx, ain.Token.Denom, sh, b.fee)
					if e != nil {
						err = e
						return
					}
					nw := bfNew().Quo(bfI(ain.Weight), bfI(W))
					inv := bfNew().Quo(bf(1), nw)
					feeRatio := bfNew().Sub(bf(1), bfNew().Mul(bfNew().Sub(bf(1), nw), bfDec(b.fee)))
					y := bfNew().Quo(bfNew().Add(bfI(S), bfI(sh)), bfI(S))
					exactIn := bfNew().Mul(bfI(ain.Token.Amount), bfNew().Sub(bfPow(y, inv), bf(1)))
					exactIn.Quo(exactIn, feeRatio)
					sig["pow_base_below_half"] = false
					// normalised weight is itself an 18-decimal quotient: its relative error 1e-18·W/w feeds the exponent
					tol := c04Tol(bfI(ain.Token.Amount), y, inv, feeRatio)
					expErr := bfNew().Mul(bfNew().Mul(inv, inv), bfScaled(bigOne, 18)) // |d(1/nw)| <= 1e-18/nw²
					extra := bfNew().Mul(bfNew().Mul(bfPow(y, inv), bfLn(y)), expErr)
					extra.Mul(extra, bfI(ain.Token.Amount))
					tol.Add(tol, bfNew().Quo(bfAbs(extra), feeRatio))
					outcome = c04Compare(c, sig, "in", bfI(in), exactIn, tol, true, false, nil)
					if outcome == "ok" { // apply it so the sequence continues from a consistent state
						b.pool.IncreaseLiquidity(sh, sdk.NewCoins(sdk.NewCoin(ain.Token.Denom, in)))
					}
				case 4: // proportional join
					frac := 1 + r.I64n(1000000)
					var coins sdk.Coins
					for _, a := range b.pool.GetAllPoolAssets() {
						x := a.Token.Amount.MulRaw(frac).QuoRaw(1000000).AddRaw(r.I64n(3))
						if !x.IsPositive() {
							x = sdkmath.OneInt()
						}
						coins = coins.Add(sdk.NewCoin(a.Token.Denom, x))
					}
					c.Logf("JoinPoolNoSwap(%s) S=%s", coins, S)
					liqBefore := b.pool.GetTotalPoolLiquidity(ctx)
					sh, e := b.pool.JoinPoolNoSwap(ctx, coins, b.fee)
					if e != nil {
						err = e
						return
					}
					// shares <= S·min_i(in_i/B_i), exact rational
					var mn *big.Rat
					for _, cn := range coins {
						q := new(big.Rat).SetFrac(cn.Amount.BigInt(), liqBefore.AmountOf(cn.Denom).BigInt())
						if mn == nil || q.Cmp(mn) < 0 {
							mn = q
						}
					}
					lim := new(big.Rat).Mul(mn, new(big.Rat).SetInt(S.BigInt()))
					if new(big.Rat).SetInt(sh.BigInt()).Cmp(lim) > 0 {
						c.Violate("C04.proportional_join", sig, "proportional join minted %s shares > S·min(in/B) = %s", sh, lim.FloatString(6))
						outcome = "bad"
						return
					}
					// and the pool must not have taken less than the proportional amount for those shares
					liqAfter := b.pool.GetTotalPoolLiquidity(ctx)
					for _, cn := range liqBefore {
						added := liqAfter.AmountOf(cn.Denom).Sub(cn.Amount)
						need := new(big.Rat).Mul(new(big.Rat).SetFrac(sh.BigInt(), S.BigInt()), new(big.Rat).SetInt(cn.Amount.BigInt()))
						if new(big.Rat).SetInt(added.BigInt()).Cmp(need) < 0 {
							c.Violate("C04.proportional_join", sig, "proportional join of %s shares added only %s%s, proportional amount is %s", sh, added, cn.Denom, need.FloatString(6))
							outcome = "bad"
							return
						}
					}
					outcome = "ok"
				case 5: // proportional exit
					sh := c04Amount(r, S)
					if sh.GTE(S) {
						sh = S.SubRaw(1)
					}
					sizeCls = c04Size(sh, S)
					c.Logf("ExitPool(%s of %s)", sh, S)
					liqBefore := b.pool.GetTotalPoolLiquidity(ctx)
					coins, e := b.pool.ExitPool(ctx, sh, b.exitFee)
					if e != nil {
						err = e
						return
					}
					keep := new(big.Rat).Sub(big.NewRat(1, 1), new(big.Rat).SetFrac(b.exitFee.BigInt(), big.NewInt(1e18)))
					for _, cn := range liqBefore {
						lim := new(big.Rat).Mul(new(big.Rat).SetFrac(sh.BigInt(), S.BigInt()), new(big.Rat).SetInt(cn.Amount.BigInt()))
						lim.Mul(lim, keep)
						got := new(big.Rat).SetInt(coins.AmountOf(cn.Denom).BigInt())
						if got.Cmp(lim) > 0 {
							c.Violate("C04.proportional_exit", sig, "exit of %s/%s shares (exit fee %s) paid %s%s > B·s·(1−exit fee)/S = %s", sh, S, b.exitFee, coins.AmountOf(cn.Denom), cn.Denom, lim.FloatString(6))
							outcome = "bad"
							return
						}
					}
					outcome = "ok"
				case 6: // single asset out, shares in
					amt := c04Amount(r, aout.Token.Amount)
					if amt.GTE(aout.Token.Amount) {
						amt = aout.Token.Amount.QuoRaw(2)
					}
					if !amt.IsPositive() {
						outcome = "skip"
						return
					}
					sizeCls = c04Size(amt, aout.Token.Amount)
					c.Logf("ExitSwapExactAmountOut(%s%s) reserve=%s w=%s/%s S=%s fee=%s", amt, aout.Token.Denom, aout.Token.Amount, aout.Weight, W, S, b.fee)
					sh, e := b.pool.ExitSwapExactAmountOut(ctx, sdk.NewCoin(aout.Token.Denom, amt), S)
					nw := bfNew().Quo(bfI(aout.Weight), bfI(W))
					feeRatio := bfNew().Sub(bf(1), bfNew().Mul(bfNew().Sub(bf(1), nw), bfDec(b.fee)))
					outFee := bfNew().Quo(bfI(amt), feeRatio)
					y := bfNew().Quo(bfNew().Sub(bfI(aout.Token.Amount), outFee), bfI(aout.Token.Amount))
					if e != nil {
						// with an exit fee the shares needed can exceed all shares there are: refused, as documented
						if y.Sign() > 0 && !b.exitFee.IsZero() && strings.Contains(e.Error(), "larger than the max amount") {
							need := bfNew().Mul(bfI(S), bfNew().Sub(bf(1), bfPow(y, nw)))
							need.Quo(need, bfNew().Sub(bf(1), bfDec(b.exitFee)))
							if need.Cmp(bfNew().Sub(bfI(S), c04Tol(bfI(S), y, nw, nil))) >= 0 {
								outcome = "rejected-needs-all-shares"
								return
							}
						}
						err = e
						return
					}
					if y.Sign() <= 0 {
						outcome = "skip"
						return
					}
					exactSh := bfNew().Mul(bfI(S), bfNew().Sub(bf(1), bfPow(y, nw)))
					// the exit fee is charged on the share side: shares in = shares for the tokens / (1 − exit fee)
					keepF := bfNew().Sub(bf(1), bfDec(b.exitFee))
					exactSh.Quo(exactSh, keepF)
					c.Logf("  -> shares burned %s, exact %s (exit fee %s)", sh, exactSh.Text('f', 6), b.exitFee)
					sig["pow_base_below_half"] = y.Cmp(bf(0.5)) < 0
					sig["exit_fee"] = !b.exitFee.IsZero()
					outcome = c04Compare(c, sig, "shares-in", bfI(sh), exactSh, c04Tol(bfI(S), y, nw, keepF), true, false, nil)
				case 8: // all assets in arbitrary (uneven) amounts: proportional part plus single-asset joins of the rest
					var coins sdk.Coins
					for _, a := range b.pool.GetAllPoolAssets() {
						x := c04Amount(r, a.Token.Amount)
						if !x.IsPositive() {
							x = sdkmath.OneInt()
						}
						coins = coins.Add(sdk.NewCoin(a.Token.Denom, x))
					}
					sizeCls = "multi"
					c.Logf("JoinPool(%s) S=%s fee=%s", coins, S, b.fee)
					sh, e := b.pool.JoinPool(ctx, coins, b.fee)
					if e != nil {
						err = e
						return
					}
					c.Logf("  -> %s shares", sh)
					// no closed form is asserted here: the value-per-share invariant below is the oracle
					outcome = "ok"
				case 7: // closed loop A -> B -> A in the exact sub-family
					if !(b.exact && c04IntRatio(ain.Weight, aout.Weight) && c04IntRatio(aout.Weight, ain.Weight)) {
						outcome = "skip"
						return
					}
					amt := c04Amount(r, ain.Token.Amount)
					sizeCls = c04Size(amt, ain.Token.Amount)
					c.Logf("loop %s%s -> %s -> back, reserves %s/%s fee=%s", amt, ain.Token.Denom, aout.Token.Denom, ain.Token.Amount, aout.Token.Amount, b.fee)
					out, e := b.pool.SwapOutAmtGivenIn(ctx, sdk.NewCoins(sdk.NewCoin(ain.Token.Denom, amt)), aout.Token.Denom, b.fee)
					if e != nil {
						err = e
						return
					}
					back, e := b.pool.SwapOutAmtGivenIn(ctx, sdk.NewCoins(out), ain.Token.Denom, b.fee)
					if e != nil {
						err = e
						return
					}
					if back.Amount.GT(amt) {
						c.Violate("C04.round_trip_profit", sig, "swapping %s%s to %s and straight back returned %s (> start)", amt, ain.Token.Denom, out, back)
						outcome = "bad"
						return
					}
					outcome = "ok"
				}
			})
			if rec != nil || err != nil {
				if isDocumentedRejection(rec, err) {
					c.Class("bal|%s|rejected|%s", opName, sizeCls)
					err = nil
					continue
				}
				c.Violate("C04.unexpected_failure", sig, "%s failed: %v %v\n%s", opName, rec, err, firstLines(stack, 10))
				return
			}
			if outcome == "skip" {
				continue
			}
			if outcome == "bad" {
				return
			}
			// invariant: weighted product of reserves per share must not fall beyond the precision
			if op != 3 || outcome == "ok" {
				after := b.logValuePerShare()
				drop := bfNew().Sub(before, after)
				// allowance: relative precision of the op measured against the reserve that shrank
				allow := c04InvariantAllowance(b, op, ain, aout, S, preAmts)
				c.Max("bal_invariant_drop_over_allowance", bfF64(bfNew().Quo(drop, allow)), opName)
				if drop.Cmp(allow) > 0 {
					sig2 := map[string]any{"pool": "balancer", "op": opName, "exact_family": b.exact}
					c.Violate("C04.invariant_fell", sig2, "%s: ln(Π B^w / S) fell by %.3e (> allowance %.3e)", opName, bfF64(drop), bfF64(allow))
					return
				}
			}
			c.Class("bal|%s|n%d|fee%s|%s|exact%v|%s", opName, len(b.denoms)/3, b.fee.String()[:6], sizeCls, b.exact, outcome)
			if i < 3 && step == 0 {
				c.Sample(map[string]any{"pool": "balancer", "assets": len(b.denoms), "fee": b.fee.String(), "op": opName, "outcome": outcome})
			}
		}
	})
	runC04Stable(c)
}

func c04Size(amt, reserve sdkmath.Int) string {
	switch {
	case amt.LTE(sdkmath.NewInt(10)):
		return "dust"
	case amt.MulRaw(1000).LT(reserve):
		return "small"
	case amt.MulRaw(2).LT(reserve):
		return "mid"
	case amt.LT(reserve):
		return "large"
	}
	return "over"
}

// weight ratio a/b is 1 or 2 (integer power, no series)
func c04IntRatio(a, b sdkmath.Int) bool {
	return a.Equal(b) || a.Equal(b.MulRaw(2))
}

// c04Compare decides one formula clause. roundUp: the result is charged to the user (must be >= exact);
// otherwise it is paid to the user (must be <= exact). General family: two-sided tolerance.
func c04Compare(c *vk.Ctx, sig map[string]any, what string, got, exact, tol *big.Float, roundUp bool, exactFamily bool, exactTol *big.Float) string {
	diff := bfNew().Sub(got, exact) // >0: result above the exact value
	userGain := bfNew().Set(diff)   // amount by which the user is better off than the formula
	if roundUp {
		userGain.Neg(userGain)
	}
	c.Max("bal_abs_err_over_tol|"+what, bfF64(bfNew().Quo(bfAbs(diff), tol)), fmt.Sprint(sig["op"]))
	if exactFamily {
		// integer weight ratio: the power is an exact integer power, so only the 18-decimal roundings
		// of the quotient y, of y² and of the fee division remain: at most exactTol = reserve·2e-17/(1-fee)
		// units either way before the final whole-unit rounding, which may cost the user up to one unit
		// more and never gains him anything.
		if userGain.Cmp(exactTol) > 0 {
			sig["direction"] = "user-favouring"
			c.Violate("C04.exact_family", sig, "%s = %s but the exact value is %s: the user gains %s units (> %.3e) in a pool where the formula is exactly computable", what, got.Text('f', 0), exact.Text('f', 6), userGain.Text('f', 6), bfF64(exactTol))
			return "bad"
		}
		if bfNew().Neg(userGain).Cmp(bfNew().Add(exactTol, bf(1))) > 0 {
			sig["direction"] = "pool-favouring"
			c.Violate("C04.exact_family", sig, "%s = %s, exact value %s: off by more than one unit + %.3e in an exactly computable pool", what, got.Text('f', 0), exact.Text('f', 6), bfF64(exactTol))
			return "bad"
		}
		return "ok"
	}
	if bfAbs(diff).Cmp(tol) > 0 {
		if userGain.Sign() > 0 {
			sig["direction"] = "user-favouring"
		} else {
			sig["direction"] = "pool-favouring"
		}
		c.Violate("C04.formula", sig, "%s = %s, exact formula %s, |diff| %.6e > tolerance %.6e", what, got.Text('f', 0), exact.Text('f', 6), bfF64(bfAbs(diff)), bfF64(tol))
		return "bad"
	}
	return "ok"
}

func c04InvariantAllowance(b *c04Bal, op int, ain, aout balancer.PoolAsset, S sdkmath.Int, preAmts map[string]sdkmath.Int) *big.Float {
	// every op's result is allowed reserve·(pp+…)+1 units of error; the resulting relative change of
	// one reserve (or of the share count) bounds the change of the log-invariant. Use the post-state
	// reserve as the denominator (an op that nearly drains a reserve amplifies the relative error).
	pp := bfDec(osmomath.GetPowPrecision())
	W := bfI(b.pool.GetTotalWeight())
	worst := bfNew()
	for _, a := range b.pool.GetAllPoolAssets() {
		pre := ain.Token.Amount
		if op == 8 {
			pre = preAmts[a.Token.Denom] // every asset moves in an uneven all-asset join
		} else if a.Token.Denom == aout.Token.Denom {
			pre = aout.Token.Amount
		} else if a.Token.Denom != ain.Token.Denom {
			continue
		}
		mx := bfI(pre)
		if bfI(a.Token.Amount).Cmp(mx) > 0 {
			mx = bfI(a.Token.Amount)
		}
		rel := bfNew().Quo(bfNew().Add(bfNew().Mul(mx, bfNew().Mul(pp, bf(4))), bf(3)), bfI(a.Token.Amount))
		rel.Mul(rel, bfNew().Quo(bfI(a.Weight), W))
		worst.Add(worst, rel)
	}
	sh := bfNew().Quo(bfNew().Add(bfNew().Mul(bfI(S), bfNew().Mul(pp, bf(4))), bf(3)), bfI(b.pool.GetTotalShares()))
	worst.Add(worst, sh)
	return worst
}

// ---------------------------------------------------------------- stableswap

func runC04Stable(c *vk.Ctx) {
	_, ctx := vk.NewMemCtx("gamm")
	c.Cases("stableswap", c.N(6000, 300000), func(i int, r *vk.Rng) {
		n := 2 + r.Intn(7)
		if r.Intn(2) == 0 {
			n = 2 + r.Intn(2)
		}
		var liq sdk.Coins
		var sf []uint64
		for k := 0; k < n; k++ {
			s := uint64(1)
			switch r.Intn(4) {
			case 0:
				s = uint64(1 + r.I64n(1000000))
			case 1:
				s = []uint64{10, 100, 1000, 1000000}[r.Intn(4)]
			}
			base := r.BigMag(3, 24)
			if r.Intn(3) == 0 { // roughly balanced pools
				base = r.BigMag(9, 12)
			}
			amt := new(big.Int).Mul(base, new(big.Int).SetUint64(s))
			liq = liq.Add(sdk.NewCoin(c04Denoms[k], sdkmath.NewIntFromBigInt(amt)))
			sf = append(sf, s)
		}
		fee := c04Fee(r)
		p, err := stableswap.NewStableswapPool(uint64(1+i%1000), stableswap.PoolParams{SwapFee: fee, ExitFee: osmomath.ZeroDec()}, liq, sf, "", "")
		if err != nil {
			c.Class("stable|create-rejected")
			return
		}
		sfOf := func(d string) *big.Int { return new(big.Int).SetUint64(p.GetScalingFactorByDenom(d)) }
		pairK := func(l sdk.Coins, dx, dy string) *big.Rat {
			sc := func(d string) *big.Rat { return new(big.Rat).SetFrac(l.AmountOf(d).BigInt(), sfOf(d)) }
			x, y := sc(dx), sc(dy)
			w := new(big.Rat)
			for _, cn := range l {
				if cn.Denom != dx && cn.Denom != dy {
					v := sc(cn.Denom)
					w.Add(w, new(big.Rat).Mul(v, v))
				}
			}
			t := new(big.Rat).Add(new(big.Rat).Mul(x, x), new(big.Rat).Mul(y, y))
			t.Add(t, w)
			return t.Mul(t, new(big.Rat).Mul(x, y))
		}
		nops := 1 + r.Intn(6)
		for step := 0; step < nops; step++ {
			c.Eval(1)
			l0 := p.GetTotalPoolLiquidity(ctx)
			S := p.GetTotalShares()
			di := r.Intn(n)
			dj := (di + 1 + r.Intn(n-1)) % n
			din, dout := c04Denoms[di], c04Denoms[dj]
			op := r.Intn(5)
			opName := []string{"swap-in", "swap-out", "join-all", "exit-all", "loop"}[op]
			sig := map[string]any{"pool": "stableswap", "op": opName}
			sizeCls := "mid"
			var outcome string
			var e error
			rec, stack := vk.Guard(func() {
				switch op {
				case 0:
					amt := c04Amount(r, l0.AmountOf(din))
					sizeCls = c04Size(amt, l0.AmountOf(din))
					c.Logf("stable SwapOutAmtGivenIn(%s%s -> %s) liq=%s sf=%v fee=%s", amt, din, dout, l0, p.GetScalingFactors(), fee)
					k0 := pairK(l0, din, dout)
					var out sdk.Coin
					out, e = p.SwapOutAmtGivenIn(ctx, sdk.NewCoins(sdk.NewCoin(din, amt)), dout, fee)
					if e != nil {
						return
					}
					k1 := pairK(p.GetTotalPoolLiquidity(ctx), din, dout)
					if k1.Cmp(k0) < 0 {
						c.Violate("C04.stableswap_invariant", sig, "swap %s%s -> %s lowered xy(x²+y²+w) from %s to %s", amt, din, out, k0.FloatString(4), k1.FloatString(4))
						outcome = "bad"
						return
					}
					outcome = "ok"
				case 1:
					amt := c04Amount(r, l0.AmountOf(dout))
					if amt.GTE(l0.AmountOf(dout)) {
						amt = l0.AmountOf(dout).QuoRaw(2)
					}
					if !amt.IsPositive() {
						outcome = "skip"
						return
					}
					sizeCls = c04Size(amt, l0.AmountOf(dout))
					c.Logf("stable SwapInAmtGivenOut(%s%s <- %s) liq=%s sf=%v fee=%s", amt, dout, din, l0, p.GetScalingFactors(), fee)
					k0 := pairK(l0, din, dout)
					var in sdk.Coin
					in, e = p.SwapInAmtGivenOut(ctx, sdk.NewCoins(sdk.NewCoin(dout, amt)), din, fee)
					if e != nil {
						return
					}
					k1 := pairK(p.GetTotalPoolLiquidity(ctx), din, dout)
					if k1.Cmp(k0) < 0 {
						c.Violate("C04.stableswap_invariant", sig, "swap %s <- %s%s lowered xy(x²+y²+w) from %s to %s", in, amt, dout, k0.FloatString(4), k1.FloatString(4))
						outcome = "bad"
						return
					}
					outcome = "ok"
				case 2:
					frac := 1 + r.I64n(1000000)
					var coins sdk.Coins
					for _, cn := range l0 {
						x := cn.Amount.MulRaw(frac).QuoRaw(1000000).AddRaw(r.I64n(3))
						if !x.IsPositive() {
							x = sdkmath.OneInt()
						}
						coins = coins.Add(sdk.NewCoin(cn.Denom, x))
					}
					c.Logf("stable JoinPoolNoSwap(%s)", coins)
					var sh sdkmath.Int
					sh, e = p.JoinPoolNoSwap(ctx, coins, fee)
					if e != nil {
						return
					}
					var mn *big.Rat
					for _, cn := range coins {
						q := new(big.Rat).SetFrac(cn.Amount.BigInt(), l0.AmountOf(cn.Denom).BigInt())
						if mn == nil || q.Cmp(mn) < 0 {
							mn = q
						}
					}
					lim := new(big.Rat).Mul(mn, new(big.Rat).SetInt(S.BigInt()))
					if new(big.Rat).SetInt(sh.BigInt()).Cmp(lim) > 0 {
						c.Violate("C04.proportional_join", sig, "proportional join minted %s shares > S·min(in/B) = %s", sh, lim.FloatString(6))
						outcome = "bad"
						return
					}
					l1 := p.GetTotalPoolLiquidity(ctx)
					for _, cn := range l0 {
						added := l1.AmountOf(cn.Denom).Sub(cn.Amount)
						need := new(big.Rat).Mul(new(big.Rat).SetFrac(sh.BigInt(), S.BigInt()), new(big.Rat).SetInt(cn.Amount.BigInt()))
						if new(big.Rat).SetInt(added.BigInt()).Cmp(need) < 0 {
							c.Violate("C04.proportional_join", sig, "proportional join of %s shares added only %s%s, proportional amount is %s", sh, added, cn.Denom, need.FloatString(6))
							outcome = "bad"
							return
						}
					}
					outcome = "ok"
				case 3:
					sh := c04Amount(r, S)
					if sh.GTE(S) {
						sh = S.SubRaw(1)
					}
					sizeCls = c04Size(sh, S)
					c.Logf("stable ExitPool(%s of %s)", sh, S)
					var coins sdk.Coins
					coins, e = p.ExitPool(ctx, sh, osmomath.ZeroDec())
					if e != nil {
						return
					}
					for _, cn := range l0 {
						lim := new(big.Rat).Mul(new(big.Rat).SetFrac(sh.BigInt(), S.BigInt()), new(big.Rat).SetInt(cn.Amount.BigInt()))
						if new(big.Rat).SetInt(coins.AmountOf(cn.Denom).BigInt()).Cmp(lim) > 0 {
							c.Violate("C04.proportional_exit", sig, "exit of %s/%s shares paid %s%s > B·s/S = %s", sh, S, coins.AmountOf(cn.Denom), cn.Denom, lim.FloatString(6))
							outcome = "bad"
							return
						}
					}
					outcome = "ok"
				case 4: // there and straight back never returns more than was put in
					amt := c04Amount(r, l0.AmountOf(din))
					sizeCls = c04Size(amt, l0.AmountOf(din))
					c.Logf("stable loop %s%s -> %s -> back liq=%s sf=%v fee=%s", amt, din, dout, l0, p.GetScalingFactors(), fee)
					var out, back sdk.Coin
					out, e = p.SwapOutAmtGivenIn(ctx, sdk.NewCoins(sdk.NewCoin(din, amt)), dout, fee)
					if e != nil {
						return
					}
					back, e = p.SwapOutAmtGivenIn(ctx, sdk.NewCoins(out), din, fee)
					if e != nil {
						return
					}
					if back.Amount.GT(amt) {
						c.Violate("C04.round_trip_profit", sig, "stableswap: %s%s -> %s -> %s returned more than was put in", amt, din, out, back)
						outcome = "bad"
						return
					}
					outcome = "ok"
				}
			})
			if rec != nil || e != nil {
				if isDocumentedRejection(rec, e) {
					c.Class("stable|%s|rejected|%s", opName, sizeCls)
					continue
				}
				c.Violate("C04.unexpected_failure", sig, "stableswap %s failed: %v %v\n%s", opName, rec, e, firstLines(stack, 10))
				return
			}
			if outcome == "bad" {
				return
			}
			if outcome == "skip" {
				continue
			}
			c.Class("stable|%s|n%d|fee%s|%s", opName, n/3, fee.String()[:6], sizeCls)
		}
	})
}
