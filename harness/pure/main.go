//go:build verif

package main

import (
	"fmt"

	"github.com/osmosis-labs/osmosis/osmomath"
	"github.com/osmosis-labs/osmosis/osmoutils/sumtree"
	clmath "github.com/osmosis-labs/osmosis/v31/x/concentrated-liquidity/math"
)

func main() {
	fmt.Println(osmomath.NewBigDec(3), clmath.TickToSqrtPrice, sumtree.NewTree)
}
