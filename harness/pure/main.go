//go:build verif

// Command pure hosts the monitors that need no application instance (D0 driver).
package main

import (
	"fmt"
	"os"

	"github.com/osmosis-labs/osmosis/v31/zzverif/vk"
)

var monitors = map[string]func(*vk.Ctx){
	"C04": runC04,
	"C12": runC12,
	"C13": runC13,
	"C14": runC14,
	"C15": runC15,
	"C16": runC16,
	"C17": runC17,
}

func main() {
	if len(os.Args) < 2 {
		fmt.Println("usage: pure <property>")
		os.Exit(2)
	}
	fn, ok := monitors[os.Args[1]]
	if !ok {
		fmt.Println("unknown property", os.Args[1])
		os.Exit(2)
	}
	c := vk.NewCtx(os.Args[1])
	fn(c)
	c.Finish()
}
