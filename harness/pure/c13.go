//go:build verif

package main

// C13 — approximate math functions meet their stated error bounds, are monotone
// where promised, and fail loudly outside their domain.

import (
	"fmt"
	"math/big"
	"strings"

	sdkmath "cosmossdk.io/math"

	"github.com/osmosis-labs/osmosis/osmomath"
	"github.com/osmosis-labs/osmosis/v31/zzverif/vk"
)

func c13PosBD(r *vk.Rng) *big.Int { // positive BigDec scaled value across magnitudes
	switch r.Intn(8) {
	case 0:
		return big.NewInt(1 + r.I64n(4)) // smallest values
	case 1:
		x := pow10(r.Intn(96))
		x.Add(x, big.NewInt(r.Range(-2, 2)))
		if x.Sign() <= 0 {
			x.SetInt64(1)
		}
		return x
	case 2: // around 1 and 2
		base := new(big.Int).Mul(big.NewInt(1+r.I64n(2)), e36)
		return base.Add(base, big.NewInt(r.Range(-3, 3)))
	case 3: // largest representable region
		x := new(big.Int).Lsh(bigOne, uint(1000+r.Intn(24)))
		return x.Sub(x, big.NewInt(1+r.I64n(5)))
	default:
		return r.BigMag(0, 96)
	}
}

func runC13(c *vk.Ctx) {
	c.R.Rule = "cases = inputs per function family (Exp2, LogBase2/Ln/TickLog/CustomBaseLog, Pow, MonotonicSqrt Dec and BigDec, SigFigRound, BinarySearch Int and BigDec) drawn from a seed-determined generator covering domain edges (0, 1 ulp, 1∓ulp, 2∓ulp, 2^9, largest values), powers of ten ± ulps, random mantissas at random magnitudes, adjacent pairs for monotonicity, and out-of-domain inputs; results compared with 700-bit references (own series) or exact integer tests. distinct_nontrivial counts distinct (function, input magnitude decade or edge class, outcome class) tuples."
	ulp36 := bfScaled(bigOne, 36)
	_ = ulp36
	tol18 := bfScaled(bigOne, 18)
	tol32 := bfScaled(bigOne, 32)

	// a result handed out earlier belongs to its caller: later calls into the library must not change it
	var keptExp2, keptLog osmomath.BigDec
	var keptExp2Str, keptLogStr, keptExp2Desc, keptLogDesc string
	// ---------------------------------------------------------------- Exp2
	c.Cases("exp2", c.N(40000, 2500000), func(i int, r *vk.Rng) {
		var xi *big.Int
		switch r.Intn(10) {
		case 0:
			xi = new(big.Int).Mul(big.NewInt(r.I64n(513)), e36) // integers 0..512
		case 1:
			xi = new(big.Int).Mul(big.NewInt(r.I64n(513)), e36)
			xi.Add(xi, big.NewInt(r.Range(-3, 3)))
		case 2:
			xi = big.NewInt(r.I64n(10)) // tiny
		case 3:
			xi = new(big.Int).Sub(new(big.Int).Mul(big.NewInt(512), e36), r.BigBits(1+r.Intn(120)))
		default:
			xi = r.BigBelow(new(big.Int).Mul(big.NewInt(512), e36))
			if r.Bool() {
				xi = r.BigBelow(new(big.Int).Mul(big.NewInt(1+r.I64n(40)), e36))
			}
		}
		if xi.Sign() < 0 {
			xi.SetInt64(0)
		}
		max := new(big.Int).Mul(big.NewInt(512), e36)
		if xi.Cmp(max) > 0 {
			xi.Set(max)
		}
		c.Eval(1)
		var got osmomath.BigDec
		xop := mkBD(xi)
		rec, _ := vk.Guard(func() { got = osmomath.Exp2(xop) })
		if rec != nil {
			c.Violate("C13.exp2_panic", nil, "Exp2(%s/1e36) panicked inside its domain: %v", xi, rec)
			return
		}
		if xop.BigInt().Cmp(xi) != 0 {
			c.Violate("C13.exp2_error", map[string]any{"operand_changed": true}, "Exp2 changed its operand from %s/1e36 to %s/1e36", xi, xop.BigInt())
			return
		}
		if keptExp2Str != "" && keptExp2.String() != keptExp2Str {
			c.Violate("C13.exp2_error", map[string]any{"earlier_result_changed": true}, "the value returned earlier by %s was %s; after the call Exp2(%s/1e36) it reads %s", keptExp2Desc, keptExp2Str, xi, keptExp2)
			return
		}
		keptExp2, keptExp2Str, keptExp2Desc = got, got.String(), fmt.Sprintf("Exp2(%s/1e36)", xi)
		want := bfExp2(bfScaled(xi, 36))
		g := bfScaled(got.BigInt(), 36)
		rel := bfAbs(bfNew().Sub(bfNew().Quo(g, want), bf(1)))
		c.Max("exp2_rel_err", bfF64(rel), fmt.Sprintf("x=%s/1e36", xi))
		if rel.Cmp(tol18) > 0 {
			c.Violate("C13.exp2_error", nil, "Exp2(%s/1e36) = %s, relative error %.3e > 1e-18", xi, got, bfF64(rel))
		}
		ip := new(big.Int).Quo(xi, e36).Int64()
		c.Class("exp2|int%d", ip/16)
		if i < 2 {
			c.Sample(map[string]any{"fn": "Exp2", "x_scaled_1e36": xi.String(), "result": got.String(), "rel_err": bfF64(rel)})
		}
	})
	c.Cases("exp2-domain", c.N(2000, 50000), func(i int, r *vk.Rng) {
		var xi *big.Int
		if r.Bool() {
			xi = new(big.Int).Neg(c13PosBD(r))
		} else {
			xi = new(big.Int).Add(new(big.Int).Mul(big.NewInt(512), e36), c13PosBD(r))
		}
		c.Eval(1)
		var got osmomath.BigDec
		rec, _ := vk.Guard(func() { got = osmomath.Exp2(mkBD(xi)) })
		if rec == nil {
			c.Violate("C13.exp2_domain", nil, "Exp2(%s/1e36) returned %s outside its domain [0,512]", xi, got)
		}
		c.Class("exp2|domain|%s", sgn(xi))
	})

	// ---------------------------------------------------------------- logarithms
	c.Cases("log", c.N(12000, 600000), func(i int, r *vk.Rng) {
		xi := c13PosBD(r)
		if xi.BitLen() > 1024 {
			xi.Rsh(xi, uint(xi.BitLen()-1024))
		}
		x := mkBD(xi)
		xf := bfScaled(xi, 36)
		c.Eval(1)
		mag := len(xi.String())
		kind := i % 4
		sig := map[string]any{"fn": []string{"LogBase2", "Ln", "TickLog", "CustomBaseLog"}[kind]}
		var got osmomath.BigDec
		var want, tol *big.Float
		var baseI *big.Int
		rec, _ := vk.Guard(func() {
			switch kind {
			case 0:
				got = x.LogBase2()
				want = bfLog2(xf)
				tol = tol32
			case 1:
				got = x.Ln()
				want = bfLn(xf)
				// ln x = log2 x / log2 e ; constant given to 36 decimals
				cst := bfScaled(osmomath.MustNewBigDecFromStr("1.442695040888963407359924681001892137").BigInt(), 36)
				tol = c13DerivedTol(tol32, want, cst)
			case 2:
				got = x.TickLog()
				cst := bfScaled(osmomath.MustNewBigDecFromStr("0.000144262291094554178391070900057480").BigInt(), 36)
				want = bfNew().Quo(bfLn(xf), bfLn(bfScaled(new(big.Int).Add(e36, pow10(32)), 36))) // log_{1.0001} x
				tol = c13DerivedTol(tol32, want, cst)
			case 3:
				baseI = c13PosBD(r)
				if baseI.BitLen() > 1024 {
					baseI.Rsh(baseI, uint(baseI.BitLen()-1024))
				}
				// bases within 1e-30 of 1 have a base-2 logarithm that is zero or a handful of ulps at 36
				// decimals: the call fails loudly (division by zero) or is dominated by that ulp; kept out
				if d := new(big.Int).Sub(baseI, e36); d.Abs(d).Cmp(pow10(6)) < 0 {
					baseI.Add(baseI, pow10(7))
				}
				got = x.CustomBaseLog(mkBD(baseI))
				lb := bfLog2(bfScaled(baseI, 36))
				want = bfNew().Quo(bfLog2(xf), lb)
				// both logs carry 1e-32: |Δy| <= (1e-32 + |y|·1e-32)/|log2 b| + quotient ulp
				t := bfNew().Add(tol32, bfNew().Mul(bfAbs(want), tol32))
				t.Quo(t, bfAbs(lb))
				tol = t.Add(t, bfScaled(big.NewInt(2), 36))
			}
		})
		if rec != nil {
			c.Violate("C13.log_panic", sig, "%s(%s/1e36, base %v) panicked inside its domain: %v", sig["fn"], xi, baseI, rec)
			return
		}
		if x.BigInt().Cmp(xi) != 0 {
			// a caller that uses its value again gets the logarithm of something else
			c.Violate("C13.log_error", map[string]any{"fn": sig["fn"], "operand_changed": true}, "%s changed its operand from %s/1e36 to %s/1e36", sig["fn"], xi, x.BigInt())
			return
		}
		if keptLogStr != "" && keptLog.String() != keptLogStr {
			c.Violate("C13.log_error", map[string]any{"fn": sig["fn"], "earlier_result_changed": true}, "the value returned earlier by %s was %s; after a call of %s it reads %s", keptLogDesc, keptLogStr, sig["fn"], keptLog)
			return
		}
		keptLog, keptLogStr, keptLogDesc = got, got.String(), fmt.Sprintf("%s(%s/1e36)", sig["fn"], xi)
		if kind == 3 && r.Intn(2) == 0 {
			// the owner of the base goes on computing with it in place, then somebody asks for a logarithm to the base
			// it has become (with that object or with a fresh equal one)
			// (the object starts from a base no earlier call has used, so that it is this object the call sees first)
			b0 := new(big.Int).Add(baseI, new(big.Int).Mul(big.NewInt(1+r.I64n(1_000_000_000)), pow10(27)))
			bObj := mkBD(b0)
			var again osmomath.BigDec
			recB, _ := vk.Guard(func() { x.CustomBaseLog(bObj) })
			if d := new(big.Int).Sub(b0, e36); recB == nil && d.Abs(d).Cmp(pow10(6)) >= 0 {
				nb := new(big.Int).Add(new(big.Int).Mul(baseI, big.NewInt(2+r.I64n(7))), big.NewInt(r.I64n(1000)))
				if d := new(big.Int).Sub(nb, e36); d.Abs(d).Cmp(pow10(6)) >= 0 && nb.BitLen() <= 1024 {
					bObj.MulMut(mkBD(new(big.Int).Quo(new(big.Int).Mul(nb, e36), b0))) // roughly nb; whatever it is now is the base
					nbNow := bObj.BigInt()
					if d := new(big.Int).Sub(nbNow, e36); d.Abs(d).Cmp(pow10(6)) >= 0 {
						arg := bObj
						if r.Bool() {
							arg = mkBD(nbNow)
						}
						recC, _ := vk.Guard(func() { again = x.CustomBaseLog(arg) })
						if recC == nil {
							lb2 := bfLog2(bfScaled(nbNow, 36))
							want2 := bfNew().Quo(bfLog2(xf), lb2)
							t2 := bfNew().Add(tol32, bfNew().Mul(bfAbs(want2), tol32))
							t2.Quo(t2, bfAbs(lb2))
							t2.Add(t2, bfScaled(big.NewInt(2), 36))
							if d2 := bfAbs(bfNew().Sub(bfScaled(again.BigInt(), 36), want2)); d2.Cmp(t2) > 0 {
								c.Violate("C13.log_error", map[string]any{"fn": "CustomBaseLog", "base_object_reused": true}, "CustomBaseLog(%s/1e36, base %s/1e36) = %s after an earlier call with a base object that has since been changed in place (it was %s/1e36), reference %s", xi, nbNow, again, b0, want2.Text('f', 40))
								return
							}
							c.Class("log|CustomBaseLog|base-object-reused")
						}
					}
				}
			}
		}
		diff := bfAbs(bfNew().Sub(bfScaled(got.BigInt(), 36), want))
		ratio := bfF64(bfNew().Quo(diff, tol))
		c.Max("log_err_over_tol|"+sig["fn"].(string), ratio, fmt.Sprintf("x=%s/1e36 base=%v", xi, baseI))
		if kind == 0 {
			c.Max("log2_abs_err", bfF64(diff), fmt.Sprintf("x=%s/1e36", xi))
		}
		if diff.Cmp(tol) > 0 {
			c.Violate("C13.log_error", sig, "%s(%s/1e36, base %v) = %s, reference %s, |diff| %.3e > allowance %.3e", sig["fn"], xi, baseI, got, want.Text('f', 40), bfF64(diff), bfF64(tol))
		}
		c.Class("log|%s|mag%d", sig["fn"], mag/4)
	})
	c.Cases("log-domain", c.N(2000, 50000), func(i int, r *vk.Rng) {
		xi := new(big.Int).Neg(c13PosBD(r))
		if r.Intn(3) == 0 {
			xi.SetInt64(0)
		}
		c.Eval(1)
		fn := i % 5
		var got osmomath.BigDec
		rec, _ := vk.Guard(func() {
			switch fn {
			case 0:
				got = mkBD(xi).LogBase2()
			case 1:
				got = mkBD(xi).Ln()
			case 2:
				got = mkBD(xi).TickLog()
			case 3: // bad base
				got = mkBD(c13PosBD(r)).CustomBaseLog(mkBD(xi))
			case 4: // base one
				got = mkBD(c13PosBD(r)).CustomBaseLog(osmomath.OneBigDec())
			}
		})
		if rec == nil {
			c.Violate("C13.log_domain", map[string]any{"fn": fn}, "log function %d accepted a non-positive argument/base or base 1 (%s/1e36) and returned %s", fn, xi, got)
		}
		c.Class("log|domain|%d|%s", fn, sgn(xi))
	})

	// ---------------------------------------------------------------- Pow
	pp := bfScaled(osmomath.GetPowPrecision().BigInt(), 18)
	c.Cases("pow", c.N(20000, 1000000), func(i int, r *vk.Rng) {
		// base in (0,2), exponent in [0, ~3]
		var bi *big.Int
		switch r.Intn(8) {
		case 0:
			bi = new(big.Int).Sub(new(big.Int).Mul(bigTwo, e18), big.NewInt(1+r.I64n(1000))) // just below 2
		case 1:
			bi = new(big.Int).Add(e18, big.NewInt(r.Range(-1000, 1000))) // around 1
		case 2:
			bi = r.BigMag(0, 17) // small bases
		case 3:
			bi = new(big.Int).Add(new(big.Int).Quo(e18, bigTwo), big.NewInt(r.Range(-5, 5))) // around 1/2
		default:
			bi = r.BigBelow(new(big.Int).Mul(bigTwo, e18))
		}
		if bi.Sign() <= 0 {
			bi.SetInt64(1)
		}
		if bi.Cmp(new(big.Int).Mul(bigTwo, e18)) >= 0 {
			bi = new(big.Int).Sub(new(big.Int).Mul(bigTwo, e18), bigOne)
		}
		var ei *big.Int
		switch r.Intn(6) {
		case 0:
			ei = new(big.Int).Quo(e18, bigTwo) // 0.5: sqrt path
		case 1:
			ei = new(big.Int).Mul(big.NewInt(r.I64n(4)), e18) // integers
		case 2:
			ei = new(big.Int).Add(new(big.Int).Mul(big.NewInt(r.I64n(3)), e18), r.BigBelow(e18))
		default:
			ei = r.BigBelow(e18)
		}
		c.Eval(1)
		base, exp := mkDec(bi), mkDec(ei)
		xabs := new(big.Int).Sub(bi, e18)
		xabs.Abs(xabs) // |base-1| scaled 1e18
		frac := new(big.Int).Rem(ei, e18)
		var got osmomath.Dec
		rec, _ := vk.Guard(func() { got = osmomath.Pow(base, exp) })
		sig := map[string]any{"base_below_half": bi.Cmp(new(big.Int).Quo(e18, bigTwo)) < 0}
		if rec != nil {
			// the series has a documented hard iteration limit (150 000 terms); hitting it is a loud
			// failure, not a wrong number (happens for bases within ~1e-15 of 2 or of 0)
			if !strings.Contains(fmt.Sprint(rec), "failed to reach precision within") {
				c.Violate("C13.pow_panic", sig, "Pow(%s/1e18, %s/1e18) panicked: %v", bi, ei, rec)
			}
			c.Class("pow|iteration-limit")
			return
		}
		if r.Intn(3) == 0 {
			// the same operand objects used again: the answer for the same input may not change
			var again osmomath.Dec
			if rec2, _ := vk.Guard(func() { again = osmomath.Pow(base, exp) }); rec2 != nil || !again.Equal(got) || base.BigInt().Cmp(bi) != 0 || exp.BigInt().Cmp(ei) != 0 {
				c.Violate("C13.pow_precision", map[string]any{"repeat_call": true}, "Pow(%s/1e18, %s/1e18) = %s the first time and %v (panic %v) when called again with the same operands (operands now %s, %s)", bi, ei, got, again, rec2, base.BigInt(), exp.BigInt())
				return
			}
		}
		want := bfPow(bfScaled(bi, 18), bfScaled(ei, 18))
		g := bfScaled(got.BigInt(), 18)
		diff := bfAbs(bfNew().Sub(g, want))
		// allowance: dropped terms are each < powPrecision. For base>1 the series alternates
		// (error < one term); for base<1 the tail is a same-sign series bounded by
		// term·|x|/(1-|x|). The integer part multiplies the error by base^int.
		intPow := bfPow(bfScaled(bi, 18), bfScaled(new(big.Int).Sub(ei, frac), 18))
		tol := bfNew().Set(pp)
		if bi.Cmp(e18) < 0 {
			xf := bfScaled(xabs, 18)
			f := bfNew().Quo(xf, bfNew().Sub(bf(1), xf))
			if f.Cmp(bf(1)) > 0 {
				tol.Mul(tol, f)
			}
		}
		tol.Mul(tol, bfNew().Add(intPow, bf(1)))
		tol.Add(tol, bfScaled(big.NewInt(2000), 18)) // 18-decimal rounding of ≤ ~1000 series terms
		// documented precision read literally: the fractional power is within powPrecision, the integer
		// power multiplies that error (plus the 18-decimal roundings of the series terms and products)
		strict := bfNew().Mul(pp, intPow)
		strict.Add(strict, bfNew().Mul(bfNew().Add(want, bf(1)), bfScaled(big.NewInt(2000), 18)))
		c.Max("pow_abs_err", bfF64(diff), fmt.Sprintf("base=%s/1e18 exp=%s/1e18", bi, ei))
		if frac.Sign() != 0 && diff.Cmp(strict) > 0 {
			// beyond the documented precision read literally (absolute powPrecision)
			sig["beyond_series_bound"] = diff.Cmp(tol) > 0
			c.Violate("C13.pow_precision", sig, "Pow(%s/1e18, %s/1e18) = %s, reference %s, |diff| %.3e > documented precision %.1e (series-tail bound %.3e)", bi, ei, got, want.Text('f', 24), bfF64(diff), bfF64(strict), bfF64(tol))
		} else if frac.Sign() == 0 {
			// integer powers: repeated 18-decimal multiplication, error ≤ few ulps · value
			t2 := bfNew().Mul(bfNew().Add(want, bf(1)), bfScaled(big.NewInt(64), 18))
			if diff.Cmp(t2) > 0 {
				c.Violate("C13.pow_integer", sig, "Pow(%s/1e18, %s/1e18) = %s, reference %s", bi, ei, got, want.Text('f', 24))
			}
		}
		reg := "lt.5"
		switch {
		case bi.Cmp(e18) >= 0:
			reg = "gt1"
		case bi.Cmp(new(big.Int).Quo(e18, bigTwo)) >= 0:
			reg = "ge.5"
		}
		c.Class("pow|%s|frac%v|int%d", reg, frac.Sign() != 0, new(big.Int).Quo(ei, e18).Int64())
	})
	c.Cases("pow-domain", c.N(2000, 50000), func(i int, r *vk.Rng) {
		var bi *big.Int
		if r.Bool() {
			bi = new(big.Int).Neg(r.BigMag(0, 30))
			if r.Intn(3) == 0 {
				bi.SetInt64(0)
			}
		} else {
			bi = new(big.Int).Add(new(big.Int).Mul(bigTwo, e18), r.BigMag(0, 30))
			if r.Intn(3) == 0 {
				bi = new(big.Int).Mul(bigTwo, e18)
			}
		}
		c.Eval(1)
		var got osmomath.Dec
		rec, _ := vk.Guard(func() { got = osmomath.Pow(mkDec(bi), mkDec(r.BigBelow(e18))) })
		if rec == nil {
			c.Violate("C13.pow_domain", nil, "Pow(%s/1e18, ·) returned %s for a base outside (0,2)", bi, got)
		}
		c.Class("pow|domain|%s", sgn(bi))
	})

	// ---------------------------------------------------------------- monotone square roots
	c.Cases("sqrt", c.N(40000, 3000000), func(i int, r *vk.Rng) {
		c.Eval(2)
		if i%2 == 0 { // 18-decimal
			xi := r.BigMag(0, 70)
			if r.Intn(6) == 0 {
				xi = big.NewInt(r.I64n(5))
			}
			if r.Intn(6) == 0 { // perfect squares ± 1
				q := r.BigMag(0, 30)
				xi = new(big.Int).Quo(new(big.Int).Mul(q, q), e18)
				xi.Add(xi, big.NewInt(r.Range(-1, 1)))
				if xi.Sign() < 0 {
					xi.SetInt64(0)
				}
			}
			if r.Intn(8) == 0 { // r0·(r0+j) for round r0: products just above a perfect square that r0 itself divides
				r0 := new(big.Int).Mul(big.NewInt(1+r.I64n(999)), new(big.Int).Exp(big.NewInt(10), big.NewInt(9+r.I64n(19)), nil))
				j := big.NewInt(1 + r.I64n(4))
				prod := new(big.Int).Mul(r0, new(big.Int).Add(r0, j))
				if new(big.Int).Rem(prod, e18).Sign() == 0 {
					xi = prod.Quo(prod, e18)
				}
			}
			x := mkDec(xi)
			got, err := osmomath.MonotonicSqrt(x)
			if err != nil {
				c.Violate("C13.sqrt_error", nil, "MonotonicSqrt(%s/1e18) failed: %v", xi, err)
				return
			}
			if x.BigInt().Cmp(xi) != 0 {
				c.Violate("C13.sqrt_mutated", nil, "MonotonicSqrt changed its operand")
			}
			if msg := c13LeastRoot(got.BigInt(), xi, e18); msg != "" {
				c.Violate("C13.sqrt_value", map[string]any{"prec": 18}, "MonotonicSqrt(%s/1e18) = %s/1e18: %s", xi, got.BigInt(), msg)
			}
			y2 := new(big.Int).Add(xi, big.NewInt(1+r.I64n(3)))
			g2, _ := osmomath.MonotonicSqrt(mkDec(y2))
			if g2.BigInt().Cmp(got.BigInt()) < 0 {
				c.Violate("C13.sqrt_monotone", map[string]any{"prec": 18}, "MonotonicSqrt decreases from %s to %s", xi, y2)
			}
			c.Class("sqrt18|mag%d", len(xi.String())/4)
		} else {
			xi := r.BigMag(0, 120)
			if r.Intn(6) == 0 {
				xi = big.NewInt(r.I64n(5))
			}
			if r.Intn(6) == 0 {
				q := r.BigMag(0, 60)
				xi = new(big.Int).Quo(new(big.Int).Mul(q, q), e36)
				xi.Add(xi, big.NewInt(r.Range(-1, 1)))
				if xi.Sign() < 0 {
					xi.SetInt64(0)
				}
			}
			x := mkBD(xi)
			got, err := osmomath.MonotonicSqrtBigDec(x)
			if err != nil {
				c.Violate("C13.sqrt_error", nil, "MonotonicSqrtBigDec(%s/1e36) failed: %v", xi, err)
				return
			}
			if x.BigInt().Cmp(xi) != 0 {
				c.Violate("C13.sqrt_mutated", nil, "MonotonicSqrtBigDec changed its operand")
			}
			if msg := c13LeastRoot(got.BigInt(), xi, e36); msg != "" {
				c.Violate("C13.sqrt_value", map[string]any{"prec": 36}, "MonotonicSqrtBigDec(%s/1e36) = %s/1e36: %s", xi, got.BigInt(), msg)
			}
			y2 := new(big.Int).Add(xi, big.NewInt(1+r.I64n(3)))
			g2, _ := osmomath.MonotonicSqrtBigDec(mkBD(y2))
			if g2.BigInt().Cmp(got.BigInt()) < 0 {
				c.Violate("C13.sqrt_monotone", map[string]any{"prec": 36}, "MonotonicSqrtBigDec decreases from %s to %s", xi, y2)
			}
			c.Class("sqrt36|mag%d", len(xi.String())/4)
		}
		if i%50 == 0 { // negative input must fail
			n := new(big.Int).Neg(r.BigMag(0, 40))
			_, e1 := osmomath.MonotonicSqrt(mkDec(n))
			_, e2 := osmomath.MonotonicSqrtBigDec(mkBD(n))
			if e1 == nil || e2 == nil {
				c.Violate("C13.sqrt_domain", nil, "square root of %s accepted (%v, %v)", n, e1, e2)
			}
			c.Class("sqrt|domain")
		}
	})

	// ---------------------------------------------------------------- SigFigRound
	c.Cases("sigfig", c.N(20000, 1000000), func(i int, r *vk.Rng) {
		di := r.BigMag(0, 60)
		if r.Intn(5) == 0 {
			di = big.NewInt(1 + r.I64n(1000))
		}
		s := 1 + r.Intn(18)
		if r.Intn(3) == 0 {
			s = 8
		}
		c.Eval(1)
		var got osmomath.Dec
		rec, _ := vk.Guard(func() { got = osmomath.SigFigRound(mkDec(di), sdkmath.NewIntFromBigInt(pow10(s))) })
		if rec != nil {
			c.Violate("C13.sigfig_panic", nil, "SigFigRound(%s/1e18, 10^%d) panicked: %v", di, s, rec)
			return
		}
		// k = least k>=0 with d·10^k >= 0.1 ; unit of the last kept digit = 10^-(s+k)
		k := 0
		t := new(big.Int).Set(di)
		p1 := pow10(17)
		for t.Cmp(p1) < 0 {
			t.Mul(t, big.NewInt(10))
			k++
		}
		// |got - d| <= unit/2 (+ 1e-18 for the final 18-decimal truncating division)
		diff := new(big.Int).Sub(got.BigInt(), di)
		diff.Abs(diff)
		lim := new(big.Rat).SetFrac(e18, new(big.Int).Mul(bigTwo, pow10(s+k))) // scaled 1e18
		lim.Add(lim, big.NewRat(1, 1))
		if new(big.Rat).SetInt(diff).Cmp(lim) > 0 {
			c.Violate("C13.sigfig_error", nil, "SigFigRound(%s/1e18, 10^%d) = %s/1e18 moved the value by %s/1e18 > half a unit of the last kept digit (10^-%d)", di, s, got.BigInt(), diff, s+k)
		}
		c.Class("sigfig|s%d|k%d", s, k)
	})

	runC13Search(c)
	runC13Concurrent(c)
}

// c13DerivedTol: y = L/c with |ΔL| <= base tolerance and c given to 36 decimals (|Δc| <= 1e-36).
func c13DerivedTol(base, y, cst *big.Float) *big.Float {
	t := bfNew().Add(base, bfNew().Mul(bfAbs(y), bfScaled(bigOne, 36)))
	t.Quo(t, bfAbs(cst))
	return t.Add(t, bfScaled(big.NewInt(2), 36))
}

// c13LeastRoot: r (scaled by s) must be the least value with r² >= x, i.e. r² >= x·s and (r-1)² < x·s.
func c13LeastRoot(r, x, s *big.Int) string {
	n := new(big.Int).Mul(x, s)
	if new(big.Int).Mul(r, r).Cmp(n) < 0 {
		return "r² < x"
	}
	if r.Sign() > 0 {
		rm := new(big.Int).Sub(r, bigOne)
		if new(big.Int).Mul(rm, rm).Cmp(n) >= 0 {
			return "(r - 1ulp)² >= x: not the least root"
		}
	}
	return ""
}

// ---------------------------------------------------------------- binary searches

type c13Tol struct {
	add, mul *big.Rat // nil = ignored
	dir      osmomath.RoundingDirection
}

// within re-implements the documented ErrTolerance predicate in exact arithmetic.
func (t c13Tol) within(expected, actual *big.Rat) bool {
	if t.dir == osmomath.RoundDown && expected.Cmp(actual) < 0 {
		return false
	}
	if t.dir == osmomath.RoundUp && expected.Cmp(actual) > 0 {
		return false
	}
	diff := new(big.Rat).Sub(expected, actual)
	diff.Abs(diff)
	if diff.Sign() == 0 { // an exact hit meets every tolerance
		return true
	}
	if t.add != nil && diff.Cmp(t.add) > 0 {
		return false
	}
	if t.mul != nil && t.mul.Sign() != 0 {
		ea, aa := new(big.Rat).Abs(expected), new(big.Rat).Abs(actual)
		mn := ea
		if aa.Cmp(ea) < 0 {
			mn = aa
		}
		if mn.Sign() == 0 {
			return false
		}
		if new(big.Rat).Quo(diff, mn).Cmp(t.mul) > 0 {
			return false
		}
	}
	return true
}

func runC13Search(c *vk.Ctx) {
	c.Cases("binary-search", c.N(12000, 500000), func(i int, r *vk.Rng) {
		c.Eval(1)
		// monotone increasing f: linear, cubic, piecewise
		a := 1 + r.I64n(1000)
		b := r.I64n(100000)
		kind := r.Intn(3)
		fInt := func(x *big.Int) *big.Int {
			switch kind {
			case 0:
				return new(big.Int).Add(new(big.Int).Mul(big.NewInt(a), x), big.NewInt(b))
			case 1:
				x3 := new(big.Int).Mul(x, new(big.Int).Mul(x, x))
				return x3.Add(x3, big.NewInt(b))
			default: // piecewise: flat steps of width a
				q := new(big.Int).Quo(x, big.NewInt(a))
				return q.Mul(q, big.NewInt(a))
			}
		}
		tol := c13Tol{dir: []osmomath.RoundingDirection{osmomath.RoundUnconstrained, osmomath.RoundUp, osmomath.RoundDown}[r.Intn(3)]}
		et := osmomath.ErrTolerance{RoundingDir: tol.dir}
		if r.Intn(4) != 0 {
			ad := r.I64n(1 << uint(r.Intn(20)))
			tol.add = new(big.Rat).SetInt64(ad)
			et.AdditiveTolerance = sdkmath.LegacyNewDec(ad)
			if r.Intn(3) == 0 {
				// a tolerance that is not a whole number (0.7, 1.5, 2.6 ...): |diff| is an integer for the Int variant,
				// so 2 is outside 1.5 and 1 is inside
				tenths := r.I64n(60)
				tol.add = big.NewRat(tenths, 10)
				et.AdditiveTolerance = sdkmath.LegacyNewDecWithPrec(tenths, 1)
			}
		}
		if r.Intn(3) == 0 {
			mu := r.I64n(1000) // in 1e-4
			tol.mul = big.NewRat(mu, 10000)
			et.MultiplicativeTolerance = sdkmath.LegacyNewDecWithPrec(mu, 4)
		}
		hi := int64(1) << uint(10+r.Intn(30))
		target := fInt(big.NewInt(r.I64n(hi)))
		if r.Intn(5) == 0 {
			target.Add(target, big.NewInt(r.Range(-50, 50)))
		}
		iters := 1 + r.Intn(60)
		fineFrac := new(big.Int)
		if i%2 == 1 && r.Intn(4) == 0 {
			// BigDec search driven down to the last decimals: a tolerance of a few 1e-18 (or none) and enough
			// iterations to get there
			ulps := r.I64n(50)
			tol.add = big.NewRat(ulps, 1_000_000_000_000_000_000)
			et.AdditiveTolerance = sdkmath.LegacyNewDecWithPrec(ulps, 18)
			tol.mul, et.MultiplicativeTolerance = nil, sdkmath.LegacyDec{}
			hi = int64(1) << uint(4+r.Intn(9))
			target = fInt(big.NewInt(r.I64n(hi)))
			iters = 100 + r.Intn(100)
			fineFrac = r.BigBelow(e36) // a target off the dyadic grid, so that the search really has to close in
		}
		if i%2 == 0 {
			// the comparison predicate itself, on pairs around the tolerance
			for k := 0; k < 4; k++ {
				ex := new(big.Int).Set(target)
				ac := new(big.Int).Add(target, big.NewInt(r.Range(-4, 4)))
				if k == 3 {
					ac = new(big.Int).Add(target, big.NewInt(r.Range(-2000000, 2000000)))
				}
				want := tol.within(new(big.Rat).SetInt(ex), new(big.Rat).SetInt(ac))
				gotCmp := et.Compare(sdkmath.NewIntFromBigInt(ex), sdkmath.NewIntFromBigInt(ac))
				// one-sided: accepting a pair outside the tolerance makes the search return a wrong input; refusing a
				// pair inside it only makes the search report non-convergence, which the statement allows
				// (e.g. Compare(0, 0) with a multiplicative tolerance answers -1)
				if gotCmp == 0 && !want {
					c.Violate("C13.binary_search", map[string]any{"kind": "Int-compare", "dir": int(tol.dir)}, "ErrTolerance{add=%v mul=%v dir=%d}.Compare(%s, %s) = %d, the documented predicate is %v", tol.add, tol.mul, tol.dir, ex, ac, gotCmp, want)
					break
				}
				if gotCmp != 0 && ex.Cmp(ac) != 0 && (gotCmp > 0) != (ex.Cmp(ac) > 0) {
					c.Violate("C13.binary_search", map[string]any{"kind": "Int-compare-sign"}, "Compare(%s, %s) = %d has the wrong sign", ex, ac, gotCmp)
					break
				}
			}
			calls := 0
			got, err := osmomath.BinarySearch(func(x osmomath.Int) (osmomath.Int, error) {
				calls++
				return sdkmath.NewIntFromBigInt(fInt(x.BigInt())), nil
			}, sdkmath.ZeroInt(), sdkmath.NewInt(hi), sdkmath.NewIntFromBigInt(target), et, iters)
			if err == nil {
				img := fInt(got.BigInt())
				if !tol.within(new(big.Rat).SetInt(target), new(big.Rat).SetInt(img)) {
					c.Violate("C13.binary_search", map[string]any{"kind": "Int", "dir": int(tol.dir)}, "BinarySearch returned %s with f = %s for target %s outside tolerance add=%v mul=%v dir=%d", got, img, target, tol.add, tol.mul, tol.dir)
				}
				if got.IsNegative() || got.GT(sdkmath.NewInt(hi)) {
					c.Violate("C13.binary_search", map[string]any{"kind": "Int-range"}, "BinarySearch returned %s outside [0,%d]", got, hi)
				}
				c.Class("bsearch|Int|f%d|dir%d|converged", kind, tol.dir)
			} else {
				if calls > iters {
					c.Violate("C13.binary_search", map[string]any{"kind": "Int-iters"}, "BinarySearch evaluated f %d times with maxIterations %d", calls, iters)
				}
				c.Class("bsearch|Int|f%d|dir%d|nonconv", kind, tol.dir)
			}
		} else {
			fBD := func(x osmomath.BigDec) osmomath.BigDec {
				switch kind {
				case 0:
					return x.MulInt64(a).Add(osmomath.NewBigDec(b))
				case 1:
					return x.Mul(x).Mul(x).Add(osmomath.NewBigDec(b))
				default:
					return x.MulInt64(a).TruncateDec()
				}
			}
			tbd := osmomath.NewBigDecFromBigIntWithPrec(new(big.Int).Add(new(big.Int).Mul(target, e36), fineFrac), 36)
			got, err := osmomath.BinarySearchBigDec(fBD, osmomath.ZeroBigDec(), osmomath.NewBigDec(hi), tbd, et, iters)
			if err == nil {
				img := fBD(got)
				if !tol.within(new(big.Rat).SetFrac(tbd.BigInt(), e36), new(big.Rat).SetFrac(img.BigInt(), e36)) {
					c.Violate("C13.binary_search", map[string]any{"kind": "BigDec", "dir": int(tol.dir)}, "BinarySearchBigDec returned %s with f = %s for target %s outside tolerance add=%v mul=%v dir=%d", got, img, tbd, tol.add, tol.mul, tol.dir)
				}
				if got.IsNegative() || got.GT(osmomath.NewBigDec(hi)) {
					c.Violate("C13.binary_search", map[string]any{"kind": "BigDec-range"}, "BinarySearchBigDec returned %s outside [0,%d]", got, hi)
				}
				c.Class("bsearch|BigDec|f%d|dir%d|converged", kind, tol.dir)
			} else {
				c.Class("bsearch|BigDec|f%d|dir%d|nonconv", kind, tol.dir)
			}
		}
	})
}

// ---------------------------------------------------------------- concurrent callers

// The math functions are called from query goroutines while blocks execute, so each must be safe for concurrent
// callers that do not share operands. Every batch is first evaluated sequentially (the reference), then the same
// calls run from several goroutines at once; every concurrent answer must equal the sequential one (which the
// other parts of this monitor compare with the high-precision references).
type c13Call struct {
	name string
	fn   func() string
}

func c13ConcurrentBatch(r *vk.Rng, n int) []c13Call {
	calls := make([]c13Call, 0, n)
	for k := 0; k < n; k++ {
		switch r.Intn(7) {
		case 0:
			xi := r.BigMag(0, 60)
			calls = append(calls, c13Call{"MonotonicSqrt", func() string {
				v, err := osmomath.MonotonicSqrt(mkDec(new(big.Int).Set(xi)))
				return fmt.Sprint(v, err)
			}})
		case 1:
			xi := r.BigMag(0, 100)
			calls = append(calls, c13Call{"MonotonicSqrtBigDec", func() string {
				v, err := osmomath.MonotonicSqrtBigDec(mkBD(new(big.Int).Set(xi)))
				return fmt.Sprint(v, err)
			}})
		case 2:
			xi := r.BigBelow(new(big.Int).Mul(big.NewInt(512), e36))
			calls = append(calls, c13Call{"Exp2", func() string { return osmomath.Exp2(mkBD(new(big.Int).Set(xi))).String() }})
		case 3:
			xi := c13PosBD(r)
			calls = append(calls, c13Call{"LogBase2", func() string { return mkBD(new(big.Int).Set(xi)).LogBase2().String() }})
		case 4:
			bi := new(big.Int).Add(r.BigBelow(new(big.Int).Mul(big.NewInt(19), new(big.Int).Quo(e18, big.NewInt(10)))), new(big.Int).Quo(e18, big.NewInt(20)))
			ei := r.BigBelow(e18)
			calls = append(calls, c13Call{"Pow", func() string {
				return osmomath.Pow(mkDec(new(big.Int).Set(bi)), mkDec(new(big.Int).Set(ei))).String()
			}})
		case 5:
			xi := c13PosBD(r)
			calls = append(calls, c13Call{"TickLog", func() string { return mkBD(new(big.Int).Set(xi)).TickLog().String() }})
		default:
			xi := r.BigMag(0, 40)
			tp := int64(1 + r.Intn(17))
			calls = append(calls, c13Call{"SigFigRound", func() string {
				return osmomath.SigFigRound(mkDec(new(big.Int).Set(xi)), sdkmath.NewIntWithDecimal(1, int(tp))).String()
			}})
		}
	}
	return calls
}

func runC13Concurrent(c *vk.Ctx) {
	const goroutines = 8
	c.Cases("concurrent-callers", c.N(24, 960), func(i int, r *vk.Rng) {
		batch := c13ConcurrentBatch(r, 600)
		calls := make([]vk.Call, len(batch))
		for k, b := range batch {
			calls[k] = vk.Call{Name: b.name, Fn: b.fn}
		}
		c.Eval(int64(len(calls)) * 4)
		if k, alone, together := vk.ConcurrentSame(calls, goroutines, 3); k >= 0 {
			c.Violate("C13.concurrent_callers", map[string]any{"fn": calls[k].Name}, "%s returned %s when called alone and %s when %d goroutines were inside the math library at once (no operand is shared between the calls)", calls[k].Name, alone, together, goroutines)
			return
		}
		c.Class("concurrent|batch-of-600|%d-goroutines", goroutines)
	})
}
