//go:build verif

package main

// C12 — fixed-point arithmetic is exactly rounded in the documented direction.
// Oracle: exact integer arithmetic in math/big on the scaled representations; the
// implementation is never used to compute its own expectation.

import (
	"encoding/json"
	"fmt"
	"math/big"

	sdkmath "cosmossdk.io/math"

	"github.com/osmosis-labs/osmosis/osmomath"
	"github.com/osmosis-labs/osmosis/v31/zzverif/vk"
)

var (
	e18      = new(big.Int).Exp(big.NewInt(10), big.NewInt(18), nil)
	e36      = new(big.Int).Exp(big.NewInt(10), big.NewInt(36), nil)
	e72      = new(big.Int).Exp(big.NewInt(10), big.NewInt(72), nil)
	bigOne   = big.NewInt(1)
	bigTwo   = big.NewInt(2)
	bdMaxBit = 1024 + 120 // maxDecBitLen
	biMaxBit = 1024
)

func pow10(k int) *big.Int { return new(big.Int).Exp(big.NewInt(10), big.NewInt(int64(k)), nil) }

// ---- exact rounding helpers on num/den (den != 0) -----------------------------

func divTrunc(n, d *big.Int) *big.Int { return new(big.Int).Quo(n, d) } // toward zero
func divFloor(n, d *big.Int) *big.Int {
	q, m := new(big.Int).QuoRem(n, d, new(big.Int))
	if m.Sign() != 0 && (m.Sign() < 0) != (d.Sign() < 0) {
		q.Sub(q, bigOne)
	}
	return q
}
func divCeil(n, d *big.Int) *big.Int {
	q, m := new(big.Int).QuoRem(n, d, new(big.Int))
	if m.Sign() != 0 && (m.Sign() < 0) == (d.Sign() < 0) {
		q.Add(q, bigOne)
	}
	return q
}

// divHalfEven rounds n/d to nearest, ties to even.
func divHalfEven(n, d *big.Int) *big.Int {
	fl := divFloor(n, d)
	// rem = n - fl*d, 0 <= rem/d < 1 ; compare 2*rem with d (sign-normalised)
	rem := new(big.Int).Sub(n, new(big.Int).Mul(fl, d))
	two := new(big.Int).Mul(rem, bigTwo)
	dd := new(big.Int).Set(d)
	if dd.Sign() < 0 {
		dd.Neg(dd)
		two.Neg(two)
	}
	switch two.Cmp(dd) {
	case -1:
		return fl
	case 1:
		return fl.Add(fl, bigOne)
	}
	if fl.Bit(0) == 0 {
		return fl
	}
	return fl.Add(fl, bigOne)
}

func roundClass(n, d, got *big.Int) string {
	// classify how the exact n/d relates to the representable result
	if new(big.Int).Rem(n, d).Sign() == 0 {
		return "exact"
	}
	fl := divFloor(n, d)
	rem := new(big.Int).Sub(n, new(big.Int).Mul(fl, d))
	two := new(big.Int).Mul(rem, bigTwo)
	dd := new(big.Int).Abs(d)
	if d.Sign() < 0 {
		two.Neg(two)
	}
	tie := two.Cmp(dd) == 0
	up := got.Cmp(fl) > 0
	s := "dn"
	if up {
		s = "up"
	}
	if tie {
		return "tie-" + s
	}
	return s
}

// ---- operand generation --------------------------------------------------------

func signs(a, b *big.Int) string {
	if a.Sign()*b.Sign() < 0 {
		return "mixed"
	}
	if a.Sign() < 0 && b.Sign() < 0 {
		return "both-negative"
	}
	return "non-negative"
}

func sgn(x *big.Int) string {
	switch x.Sign() {
	case -1:
		return "-"
	case 1:
		return "+"
	}
	return "0"
}

// genScaled returns a scaled integer for a decimal with `prec` decimals, covering
// zero, ulps, powers of ten and their neighbours, random mantissas at random
// magnitudes up to maxBits bits, and values next to the bit-length bound.
func genScaled(r *vk.Rng, prec int, maxBits int) *big.Int {
	var x *big.Int
	switch r.Intn(16) {
	case 0:
		x = new(big.Int)
	case 1:
		x = big.NewInt(1 + int64(r.Intn(3)))
	case 2: // 10^k
		x = pow10(r.Intn(maxBits * 3 / 10))
	case 3: // 10^k ± small
		x = pow10(r.Intn(maxBits * 3 / 10))
		x.Add(x, big.NewInt(r.Range(-3, 3)))
	case 4: // whole numbers
		x = r.BigBits(1 + r.Intn(200))
		x.Mul(x, pow10(prec))
	case 5: // near the bound
		x = new(big.Int).Lsh(bigOne, uint(maxBits-r.Intn(3)))
		x.Sub(x, big.NewInt(1+int64(r.Intn(3))))
	case 6: // half-ish values: k * 0.5
		x = r.BigBits(1 + r.Intn(80))
		x.Mul(x, new(big.Int).Quo(pow10(prec), bigTwo))
	case 7: // 18-decimal values inside a 36-decimal type
		x = r.BigBits(1 + r.Intn(160))
		if prec == 36 {
			x.Mul(x, e18)
		}
	case 8, 9: // log-uniform in bit length, full range
		x = r.BigBits(1 + r.Intn(maxBits))
	case 10: // small fractional
		x = r.BigBits(1 + r.Intn(prec*3))
	default: // typical magnitudes
		x = r.BigBits(1 + r.Intn(260))
	}
	if x.BitLen() > maxBits {
		x.Rsh(x, uint(x.BitLen()-maxBits))
	}
	if r.Intn(100) < 45 {
		x.Neg(x)
	}
	return x
}

// tie pairs: operands whose product / quotient lands exactly on a rounding tie.
func genTiePair(r *vk.Rng, kind string) (*big.Int, *big.Int) {
	m := r.BigBits(1 + r.Intn(90))
	n := r.BigBits(1 + r.Intn(40))
	odd := new(big.Int).Add(new(big.Int).Mul(n, bigTwo), bigOne) // 2n+1
	var a, b *big.Int
	switch kind {
	case "mul36": // a*b/1e36 = m(2n+1)/2 ulp
		j := r.Intn(36)
		a = new(big.Int).Mul(m, pow10(j))
		b = new(big.Int).Mul(odd, new(big.Int).Mul(big.NewInt(5), pow10(35-j)))
	case "mul18": // BigDec * Dec : a*d/1e18
		j := r.Intn(18)
		a = new(big.Int).Mul(m, pow10(j))
		b = new(big.Int).Mul(odd, new(big.Int).Mul(big.NewInt(5), pow10(17-j)))
	case "quo36": // a/b = m/2 ulp : b = 2
		a = m
		b = new(big.Int).Mul(bigTwo, e36)
	case "quo36trunc": // exact quotient just above a tie, truncated-at-72 value is the tie
		a = new(big.Int).Add(new(big.Int).Mul(new(big.Int).Add(new(big.Int).Mul(m, bigTwo), bigOne), new(big.Int).Mul(big.NewInt(5), pow10(39))), bigOne)
		b = pow10(76)
	case "quo36deep": // exact quotient a hair above / below a tie, the difference showing anywhere in decimals 38..72
		k := 2 + r.Intn(35)
		u := new(big.Int).Mul(big.NewInt(1+r.I64n(999)), pow10(r.Intn(k-1)))
		if u.Cmp(pow10(k-1)) >= 0 {
			u = big.NewInt(1)
		}
		a = new(big.Int).Mul(new(big.Int).Add(new(big.Int).Mul(m, bigTwo), bigOne), new(big.Int).Mul(big.NewInt(5), pow10(k-1)))
		if r.Bool() {
			a.Add(a, u)
		} else {
			a.Sub(a, u)
		}
		b = pow10(36 + k)
	default:
		a, b = m, odd
	}
	if r.Bool() {
		a.Neg(a)
	}
	if r.Bool() {
		b.Neg(b)
	}
	return a, b
}

func mkBD(i *big.Int) osmomath.BigDec { return osmomath.NewBigDecFromBigIntWithPrec(i, 36) }
func mkDec(i *big.Int) osmomath.Dec   { return sdkmath.LegacyNewDecFromBigIntWithPrec(i, 18) }
func bdI(d osmomath.BigDec) *big.Int  { return d.BigInt() }

// ---- op table ------------------------------------------------------------------

type bdBinOp struct {
	name string
	mut  bool // receiver is mutated and must equal the result afterwards
	// second operand kind: "bd", "dec", "int", "i64"
	kind string
	f    func(a osmomath.BigDec, b any) osmomath.BigDec
	// exact: returns expected scaled result, or nil if the call must panic (division by zero)
	exact func(a, b *big.Int) (*big.Int, *big.Int, *big.Int) // expected, num, den (num/den exact for classification)
	// checked: result is subject to the bit-length bound
	checked bool
}

func bdOps() []bdBinOp {
	BD := func(b any) osmomath.BigDec { return b.(osmomath.BigDec) }
	DC := func(b any) osmomath.Dec { return b.(osmomath.Dec) }
	mulN := func(a, b *big.Int) *big.Int { return new(big.Int).Mul(a, b) }
	ops := []bdBinOp{
		{"Add", false, "bd", func(a osmomath.BigDec, b any) osmomath.BigDec { return a.Add(BD(b)) },
			func(a, b *big.Int) (*big.Int, *big.Int, *big.Int) { return new(big.Int).Add(a, b), nil, nil }, true},
		{"AddMut", true, "bd", func(a osmomath.BigDec, b any) osmomath.BigDec { return a.AddMut(BD(b)) },
			func(a, b *big.Int) (*big.Int, *big.Int, *big.Int) { return new(big.Int).Add(a, b), nil, nil }, true},
		{"Sub", false, "bd", func(a osmomath.BigDec, b any) osmomath.BigDec { return a.Sub(BD(b)) },
			func(a, b *big.Int) (*big.Int, *big.Int, *big.Int) { return new(big.Int).Sub(a, b), nil, nil }, true},
		{"SubMut", true, "bd", func(a osmomath.BigDec, b any) osmomath.BigDec { return a.SubMut(BD(b)) },
			func(a, b *big.Int) (*big.Int, *big.Int, *big.Int) { return new(big.Int).Sub(a, b), nil, nil }, true},
		{"Mul", false, "bd", func(a osmomath.BigDec, b any) osmomath.BigDec { return a.Mul(BD(b)) },
			func(a, b *big.Int) (*big.Int, *big.Int, *big.Int) { n := mulN(a, b); return divHalfEven(n, e36), n, e36 }, true},
		{"MulMut", true, "bd", func(a osmomath.BigDec, b any) osmomath.BigDec { return a.MulMut(BD(b)) },
			func(a, b *big.Int) (*big.Int, *big.Int, *big.Int) { n := mulN(a, b); return divHalfEven(n, e36), n, e36 }, true},
		{"MulTruncate", false, "bd", func(a osmomath.BigDec, b any) osmomath.BigDec { return a.MulTruncate(BD(b)) },
			func(a, b *big.Int) (*big.Int, *big.Int, *big.Int) { n := mulN(a, b); return divTrunc(n, e36), n, e36 }, true},
		{"MulRoundUp", false, "bd", func(a osmomath.BigDec, b any) osmomath.BigDec { return a.MulRoundUp(BD(b)) },
			func(a, b *big.Int) (*big.Int, *big.Int, *big.Int) { n := mulN(a, b); return divCeil(n, e36), n, e36 }, true},
		{"MulDec", false, "dec", func(a osmomath.BigDec, b any) osmomath.BigDec { return a.MulDec(DC(b)) },
			func(a, b *big.Int) (*big.Int, *big.Int, *big.Int) { n := mulN(a, b); return divHalfEven(n, e18), n, e18 }, true},
		{"MulDecMut", true, "dec", func(a osmomath.BigDec, b any) osmomath.BigDec { return a.MulDecMut(DC(b)) },
			func(a, b *big.Int) (*big.Int, *big.Int, *big.Int) { n := mulN(a, b); return divHalfEven(n, e18), n, e18 }, true},
		{"MulTruncateDec", false, "dec", func(a osmomath.BigDec, b any) osmomath.BigDec { return a.MulTruncateDec(DC(b)) },
			func(a, b *big.Int) (*big.Int, *big.Int, *big.Int) { n := mulN(a, b); return divTrunc(n, e18), n, e18 }, true},
		{"MulRoundUpDec", false, "dec", func(a osmomath.BigDec, b any) osmomath.BigDec { return a.MulRoundUpDec(DC(b)) },
			func(a, b *big.Int) (*big.Int, *big.Int, *big.Int) { n := mulN(a, b); return divCeil(n, e18), n, e18 }, true},
		{"MulInt", false, "int", func(a osmomath.BigDec, b any) osmomath.BigDec { return a.MulInt(b.(osmomath.BigInt)) },
			func(a, b *big.Int) (*big.Int, *big.Int, *big.Int) { return mulN(a, b), nil, nil }, true},
		{"MulInt64", false, "i64", func(a osmomath.BigDec, b any) osmomath.BigDec { return a.MulInt64(b.(int64)) },
			func(a, b *big.Int) (*big.Int, *big.Int, *big.Int) { return mulN(a, b), nil, nil }, true},
		// half-even division, taken from the quotient truncated at 72 decimals
		{"Quo", false, "bd", func(a osmomath.BigDec, b any) osmomath.BigDec { return a.Quo(BD(b)) },
			func(a, b *big.Int) (*big.Int, *big.Int, *big.Int) {
				if b.Sign() == 0 {
					return nil, nil, nil
				}
				t := divTrunc(mulN(a, e72), b)
				return divHalfEven(t, e36), t, e36
			}, true},
		{"QuoMut", true, "bd", func(a osmomath.BigDec, b any) osmomath.BigDec { return a.QuoMut(BD(b)) },
			func(a, b *big.Int) (*big.Int, *big.Int, *big.Int) {
				if b.Sign() == 0 {
					return nil, nil, nil
				}
				t := divTrunc(mulN(a, e72), b)
				return divHalfEven(t, e36), t, e36
			}, true},
		{"QuoRaw", false, "i64", func(a osmomath.BigDec, b any) osmomath.BigDec { return a.QuoRaw(b.(int64)) },
			func(a, b *big.Int) (*big.Int, *big.Int, *big.Int) {
				if b.Sign() == 0 {
					return nil, nil, nil
				}
				t := divTrunc(mulN(a, e36), b)
				return divHalfEven(t, e36), t, e36
			}, true},
		{"QuoTruncate", false, "bd", func(a osmomath.BigDec, b any) osmomath.BigDec { return a.QuoTruncate(BD(b)) },
			func(a, b *big.Int) (*big.Int, *big.Int, *big.Int) {
				if b.Sign() == 0 {
					return nil, nil, nil
				}
				n := mulN(a, e36)
				return divTrunc(n, b), n, b
			}, true},
		{"QuoTruncateMut", true, "bd", func(a osmomath.BigDec, b any) osmomath.BigDec { return a.QuoTruncateMut(BD(b)) },
			func(a, b *big.Int) (*big.Int, *big.Int, *big.Int) {
				if b.Sign() == 0 {
					return nil, nil, nil
				}
				n := mulN(a, e36)
				return divTrunc(n, b), n, b
			}, true},
		{"QuoTruncateDec", false, "dec", func(a osmomath.BigDec, b any) osmomath.BigDec { return a.QuoTruncateDec(DC(b)) },
			func(a, b *big.Int) (*big.Int, *big.Int, *big.Int) {
				if b.Sign() == 0 {
					return nil, nil, nil
				}
				n := mulN(a, e18)
				return divTrunc(n, b), n, b
			}, true},
		{"QuoTruncateDecMut", true, "dec", func(a osmomath.BigDec, b any) osmomath.BigDec { return a.QuoTruncateDecMut(DC(b)) },
			func(a, b *big.Int) (*big.Int, *big.Int, *big.Int) {
				if b.Sign() == 0 {
					return nil, nil, nil
				}
				n := mulN(a, e18)
				return divTrunc(n, b), n, b
			}, true},
		{"QuoRoundUp", false, "bd", func(a osmomath.BigDec, b any) osmomath.BigDec { return a.QuoRoundUp(BD(b)) },
			func(a, b *big.Int) (*big.Int, *big.Int, *big.Int) {
				if b.Sign() == 0 {
					return nil, nil, nil
				}
				n := mulN(a, e36)
				return divCeil(n, b), n, b
			}, true},
		{"QuoRoundUpMut", true, "bd", func(a osmomath.BigDec, b any) osmomath.BigDec { return a.QuoRoundUpMut(BD(b)) },
			func(a, b *big.Int) (*big.Int, *big.Int, *big.Int) {
				if b.Sign() == 0 {
					return nil, nil, nil
				}
				n := mulN(a, e36)
				return divCeil(n, b), n, b
			}, true},
		{"QuoByDecRoundUp", false, "dec", func(a osmomath.BigDec, b any) osmomath.BigDec { return a.QuoByDecRoundUp(DC(b)) },
			func(a, b *big.Int) (*big.Int, *big.Int, *big.Int) {
				if b.Sign() == 0 {
					return nil, nil, nil
				}
				n := mulN(a, e18)
				return divCeil(n, b), n, b
			}, true},
		// ceil(a/b) as a whole number
		{"QuoRoundUpNextIntMut", true, "bd", func(a osmomath.BigDec, b any) osmomath.BigDec { return a.QuoRoundUpNextIntMut(BD(b)) },
			func(a, b *big.Int) (*big.Int, *big.Int, *big.Int) {
				if b.Sign() == 0 {
					return nil, nil, nil
				}
				return mulN(divCeil(a, b), e36), a, b
			}, true},
		{"QuoInt", false, "int", func(a osmomath.BigDec, b any) osmomath.BigDec { return a.QuoInt(b.(osmomath.BigInt)) },
			func(a, b *big.Int) (*big.Int, *big.Int, *big.Int) {
				if b.Sign() == 0 {
					return nil, nil, nil
				}
				return divTrunc(a, b), a, b
			}, false},
		{"QuoInt64", false, "i64", func(a osmomath.BigDec, b any) osmomath.BigDec { return a.QuoInt64(b.(int64)) },
			func(a, b *big.Int) (*big.Int, *big.Int, *big.Int) {
				if b.Sign() == 0 {
					return nil, nil, nil
				}
				return divTrunc(a, b), a, b
			}, false},
	}
	return ops
}

type bdUnOp struct {
	name string
	mut  bool
	f    func(a osmomath.BigDec) *big.Int // returns result in the op's own scale
	// expected result, exact num/den for classification
	exact func(a *big.Int) (*big.Int, *big.Int, *big.Int)
}

func bdUnOps() []bdUnOp {
	return []bdUnOp{
		{"Neg", false, func(a osmomath.BigDec) *big.Int { return a.Neg().BigInt() }, func(a *big.Int) (*big.Int, *big.Int, *big.Int) { return new(big.Int).Neg(a), nil, nil }},
		{"NegMut", true, func(a osmomath.BigDec) *big.Int { return a.NegMut().BigInt() }, func(a *big.Int) (*big.Int, *big.Int, *big.Int) { return new(big.Int).Neg(a), nil, nil }},
		{"Abs", false, func(a osmomath.BigDec) *big.Int { return a.Abs().BigInt() }, func(a *big.Int) (*big.Int, *big.Int, *big.Int) { return new(big.Int).Abs(a), nil, nil }},
		{"AbsMut", true, func(a osmomath.BigDec) *big.Int { return a.AbsMut().BigInt() }, func(a *big.Int) (*big.Int, *big.Int, *big.Int) { return new(big.Int).Abs(a), nil, nil }},
		{"Clone", false, func(a osmomath.BigDec) *big.Int { return a.Clone().BigInt() }, func(a *big.Int) (*big.Int, *big.Int, *big.Int) { return new(big.Int).Set(a), nil, nil }},
		{"Ceil", false, func(a osmomath.BigDec) *big.Int { return a.Ceil().BigInt() }, func(a *big.Int) (*big.Int, *big.Int, *big.Int) {
			return new(big.Int).Mul(divCeil(a, e36), e36), a, e36
		}},
		{"CeilMut", true, func(a osmomath.BigDec) *big.Int { return a.CeilMut().BigInt() }, func(a *big.Int) (*big.Int, *big.Int, *big.Int) {
			return new(big.Int).Mul(divCeil(a, e36), e36), a, e36
		}},
		{"TruncateDec", false, func(a osmomath.BigDec) *big.Int { return a.TruncateDec().BigInt() }, func(a *big.Int) (*big.Int, *big.Int, *big.Int) {
			return new(big.Int).Mul(divTrunc(a, e36), e36), a, e36
		}},
		{"TruncateInt", false, func(a osmomath.BigDec) *big.Int { return a.TruncateInt().BigInt() }, func(a *big.Int) (*big.Int, *big.Int, *big.Int) {
			return divTrunc(a, e36), a, e36
		}},
		{"RoundInt", false, func(a osmomath.BigDec) *big.Int { return a.RoundInt().BigInt() }, func(a *big.Int) (*big.Int, *big.Int, *big.Int) {
			return divHalfEven(a, e36), a, e36
		}},
		{"Dec", false, func(a osmomath.BigDec) *big.Int { return a.Dec().BigInt() }, func(a *big.Int) (*big.Int, *big.Int, *big.Int) {
			return divTrunc(a, e18), a, e18
		}},
		{"DecRoundUp", false, func(a osmomath.BigDec) *big.Int { return a.DecRoundUp().BigInt() }, func(a *big.Int) (*big.Int, *big.Int, *big.Int) {
			return divCeil(a, e18), a, e18
		}},
	}
}

func callBD(f func() *big.Int) (res *big.Int, panicked bool, msg string) {
	defer func() {
		if r := recover(); r != nil {
			panicked = true
			msg = fmt.Sprint(r)
		}
	}()
	return f(), false, ""
}

func runC12(c *vk.Ctx) {
	c.R.Rule = "cases = (method, operand pair) drawn from a seed-determined generator mixing zero, ulps, powers of ten ±ulp, constructed rounding ties (both parities) and near-ties whose distance from the tie shows only somewhere in decimals 38..72, whole numbers, 18-in-36-decimal values, log-uniform bit lengths up to the 1144/1024-bit bounds and values adjacent to the bound, both signs; each result compared with exact big.Int arithmetic. distinct_nontrivial counts distinct (method, sign of operand A, sign of operand B, outcome class) where outcome class ∈ {exact, rounded up, rounded down, tie→up, tie→down, overflow-panic, div-by-zero-panic, encoding round trip}."
	ops := bdOps()
	uops := bdUnOps()
	nBin := c.N(300000, 6000000)
	c.Cases("bigdec-binary", nBin, func(i int, r *vk.Rng) {
		op := ops[i%len(ops)]
		var ai, bi *big.Int
		tie := r.Intn(5) == 0
		if tie {
			kinds := []string{"mul36", "mul18", "quo36", "quo36trunc", "quo36deep", "quo36deep"}
			ai, bi = genTiePair(r, kinds[r.Intn(len(kinds))])
		} else {
			ai = genScaled(r, 36, bdMaxBit)
			switch op.kind {
			case "bd":
				bi = genScaled(r, 36, bdMaxBit)
			case "dec":
				bi = genScaled(r, 18, 300)
			case "int":
				bi = genScaled(r, 0, biMaxBit)
			case "i64":
				bi = big.NewInt(int64(r.U64()) >> uint(r.Intn(63)))
				if r.Intn(20) == 0 {
					bi = big.NewInt(0)
				}
			}
		}
		if op.kind == "i64" && !bi.IsInt64() {
			bi = big.NewInt(bi.Int64())
		}
		if op.kind == "int" && bi.BitLen() > biMaxBit {
			bi.Rsh(bi, uint(bi.BitLen()-biMaxBit))
		}
		c.Eval(1)
		a := mkBD(ai)
		aSnap := new(big.Int).Set(ai)
		var b any
		switch op.kind {
		case "bd":
			b = mkBD(bi)
		case "dec":
			b = mkDec(bi)
		case "int":
			b = osmomath.NewBigIntFromBigInt(new(big.Int).Set(bi))
		case "i64":
			b = bi.Int64()
		}
		want, num, den := op.exact(ai, bi)
		got, panicked, msg := callBD(func() *big.Int { return op.f(a, b).BigInt() })
		cls := ""
		sig := map[string]any{"method": op.name, "signA": sgn(ai), "signB": sgn(bi), "signs": signs(ai, bi)}
		desc := func() string { return fmt.Sprintf("%s(a=%s/1e36, b=%s [%s])", op.name, ai, bi, op.kind) }
		switch {
		case want == nil:
			cls = "divzero"
			if !panicked {
				c.Violate("C12.div_by_zero_must_fail", sig, "%s returned %s instead of failing", desc(), got)
			}
		case op.checked && want.BitLen() > bdMaxBit:
			cls = "overflow"
			if !panicked {
				c.Violate("C12.overflow_must_fail", sig, "%s: exact result has %d bits (> %d) but call returned %s", desc(), want.BitLen(), bdMaxBit, got)
			}
		case panicked:
			cls = "panic"
			c.Violate("C12.unexpected_panic", sig, "%s panicked (%s), expected %s", desc(), msg, want)
		default:
			if num != nil {
				cls = roundClass(num, den, got)
			} else {
				cls = "exact"
			}
			if got.Cmp(want) != 0 {
				sig["class"] = cls
				c.Violate("C12.rounding", sig, "%s = %s, exact rounding gives %s", desc(), got, want)
			}
			if op.mut && bdI(a).Cmp(got) != 0 {
				c.Violate("C12.mut_receiver", sig, "%s: receiver is %s after the call, result %s", desc(), bdI(a), got)
			}
			if !op.mut && bdI(a).Cmp(aSnap) != 0 {
				c.Violate("C12.operand_mutated", sig, "%s changed its receiver to %s", desc(), bdI(a))
			}
			switch op.kind {
			case "bd":
				if bdI(b.(osmomath.BigDec)).Cmp(bi) != 0 {
					c.Violate("C12.operand_mutated", sig, "%s changed its argument", desc())
				}
			case "dec":
				if b.(osmomath.Dec).BigInt().Cmp(bi) != 0 {
					c.Violate("C12.operand_mutated", sig, "%s changed its argument", desc())
				}
			case "int":
				if b.(osmomath.BigInt).BigInt().Cmp(bi) != 0 {
					c.Violate("C12.operand_mutated", sig, "%s changed its argument", desc())
				}
			}
		}
		c.Class("%s|%s%s|%s", op.name, sgn(ai), sgn(bi), cls)
		if i < 3 {
			c.Sample(map[string]any{"method": op.name, "a_scaled_1e36": ai.String(), "b": bi.String(), "b_kind": op.kind, "result": fmt.Sprint(got), "class": cls})
		}
		// aliased non-mutating forms: x.Op(x) must equal Op on two equal copies and leave x alone
		if !op.mut && op.kind == "bd" && r.Intn(8) == 0 {
			x := mkBD(ai)
			w2, _, _ := op.exact(ai, ai)
			g2, p2, _ := callBD(func() *big.Int { return op.f(x, x).BigInt() })
			if w2 != nil && !(op.checked && w2.BitLen() > bdMaxBit) {
				c.Eval(1)
				if p2 || g2.Cmp(w2) != 0 {
					c.Violate("C12.aliased", sig, "x.%s(x) with x=%s/1e36 gave %v (panic=%v), expected %s", op.name, ai, g2, p2, w2)
				}
				if bdI(x).Cmp(ai) != 0 {
					c.Violate("C12.operand_mutated", sig, "x.%s(x) changed x", op.name)
				}
				c.Class("%s|alias", op.name)
			}
		}
	})

	c.Cases("bigdec-unary", c.N(120000, 2000000), func(i int, r *vk.Rng) {
		op := uops[i%len(uops)]
		ai := genScaled(r, 36, bdMaxBit)
		if r.Intn(4) == 0 { // exact halves for RoundInt ties
			ai = new(big.Int).Mul(new(big.Int).Add(new(big.Int).Mul(r.BigBits(1+r.Intn(60)), bigTwo), bigOne), new(big.Int).Quo(e36, bigTwo))
			if r.Bool() {
				ai.Neg(ai)
			}
		}
		a := mkBD(ai)
		c.Eval(1)
		want, num, den := op.exact(ai)
		got, panicked, msg := callBD(func() *big.Int { return op.f(a) })
		sig := map[string]any{"method": op.name, "signA": sgn(ai)}
		if (op.name == "TruncateInt" || op.name == "RoundInt") && want.BitLen() > biMaxBit {
			// the integer result exceeds the 1024-bit integer bound: must fail, not wrap
			if !panicked {
				c.Violate("C12.overflow_must_fail", sig, "%s(%s/1e36) has a %d-bit integer result but returned", op.name, ai, want.BitLen())
			}
			c.Class("%s|%s|overflow", op.name, sgn(ai))
			return
		}
		if panicked {
			c.Violate("C12.unexpected_panic", sig, "%s(%s/1e36) panicked: %s", op.name, ai, msg)
			return
		}
		cls := "exact"
		if num != nil {
			cls = roundClass(num, den, func() *big.Int {
				switch op.name {
				case "Ceil", "CeilMut", "TruncateDec":
					return new(big.Int).Quo(got, e36)
				}
				return got
			}())
		}
		if got.Cmp(want) != 0 {
			sig["class"] = cls
			c.Violate("C12.rounding", sig, "%s(%s/1e36) = %s, exact rounding gives %s", op.name, ai, got, want)
		}
		if !op.mut && bdI(a).Cmp(ai) != 0 {
			c.Violate("C12.operand_mutated", sig, "%s changed its receiver", op.name)
		}
		if op.mut && bdI(a).Cmp(got) != 0 {
			c.Violate("C12.mut_receiver", sig, "%s: receiver %s, result %s", op.name, bdI(a), got)
		}
		c.Class("%s|%s|%s", op.name, sgn(ai), cls)
	})

	// precision conversions with a precision argument, encodings, comparisons
	c.Cases("bigdec-conv", c.N(80000, 1500000), func(i int, r *vk.Rng) {
		ai := genScaled(r, 36, biMaxBit) // decode bound is 1024 bits
		a := mkBD(ai)
		c.Eval(1)
		sig := map[string]any{"signA": sgn(ai)}
		switch i % 6 {
		case 0: // ChopPrecision / ChopPrecisionMut
			p := uint64(r.Intn(37))
			f := pow10(36 - int(p))
			want := new(big.Int).Mul(divTrunc(ai, f), f)
			got := a.ChopPrecision(p).BigInt()
			if got.Cmp(want) != 0 || bdI(a).Cmp(ai) != 0 {
				sig["method"] = "ChopPrecision"
				c.Violate("C12.rounding", sig, "ChopPrecision(%d) of %s/1e36 = %s want %s (receiver now %s)", p, ai, got, want, bdI(a))
			}
			a2 := mkBD(ai)
			got2 := a2.ChopPrecisionMut(p).BigInt()
			if got2.Cmp(want) != 0 {
				sig["method"] = "ChopPrecisionMut"
				c.Violate("C12.rounding", sig, "ChopPrecisionMut(%d) of %s/1e36 = %s want %s", p, ai, got2, want)
			}
			c.Class("ChopPrecision|%s|p%d", sgn(ai), p/6)
		case 1: // DecWithPrecision
			p := uint64(r.Intn(19))
			f := pow10(36 - int(p))
			want := new(big.Int).Mul(divTrunc(ai, f), pow10(18-int(p)))
			got, pan, msg := callBD(func() *big.Int { return a.DecWithPrecision(p).BigInt() })
			if pan || got.Cmp(want) != 0 {
				sig["method"] = "DecWithPrecision"
				c.Violate("C12.rounding", sig, "DecWithPrecision(%d) of %s/1e36 = %v (%s) want %s", p, ai, got, msg, want)
			}
			_, pan2, _ := callBD(func() *big.Int { return a.DecWithPrecision(19 + uint64(r.Intn(30))).BigInt() })
			if !pan2 {
				sig["method"] = "DecWithPrecision"
				c.Violate("C12.domain", sig, "DecWithPrecision(>18) did not fail")
			}
			c.Class("DecWithPrecision|%s|p%d", sgn(ai), p/6)
		case 2: // string round trip
			s := a.String()
			back, err := osmomath.NewBigDecFromStr(s)
			if err != nil || bdI(back).Cmp(ai) != 0 {
				sig["method"] = "String"
				c.Violate("C12.encoding", sig, "String/NewBigDecFromStr: %s/1e36 -> %q -> %v (err %v)", ai, s, back, err)
			}
			// independent rendering of the same value
			if s != renderDec(ai, 36) {
				sig["method"] = "String"
				c.Violate("C12.encoding", sig, "String of %s/1e36 is %q, expected %q", ai, s, renderDec(ai, 36))
			}
			y, _ := a.MarshalYAML()
			if ys, ok := y.(string); !ok || ys != s {
				sig["method"] = "MarshalYAML"
				c.Violate("C12.encoding", sig, "MarshalYAML of %s/1e36 is %v", ai, y)
			}
			c.Class("String|%s", sgn(ai))
		case 3: // JSON
			bz, err := json.Marshal(a)
			var back osmomath.BigDec
			if err == nil {
				err = json.Unmarshal(bz, &back)
			}
			if err != nil || bdI(back).Cmp(ai) != 0 {
				sig["method"] = "JSON"
				c.Violate("C12.encoding", sig, "JSON round trip of %s/1e36 -> %s -> %v (err %v)", ai, bz, back, err)
			}
			c.Class("JSON|%s", sgn(ai))
		case 4: // binary (proto custom type + amino) incl. MarshalTo/Size
			bz, err := a.Marshal()
			var back osmomath.BigDec
			if err == nil {
				err = back.Unmarshal(bz)
			}
			if err != nil || bdI(back).Cmp(ai) != 0 {
				sig["method"] = "Marshal"
				c.Violate("C12.encoding", sig, "Marshal round trip of %s/1e36 -> %q -> %v (err %v)", ai, bz, back, err)
			}
			buf := make([]byte, a.Size())
			n, err := a.MarshalTo(buf)
			var back2 osmomath.BigDec
			if err == nil {
				err = back2.Unmarshal(buf[:n])
			}
			if err != nil || bdI(back2).Cmp(ai) != 0 {
				sig["method"] = "MarshalTo"
				c.Violate("C12.encoding", sig, "MarshalTo/Size round trip of %s/1e36 failed (n=%d size=%d err %v)", ai, n, len(buf), err)
			}
			abz, err := a.MarshalAmino()
			var back3 osmomath.BigDec
			if err == nil {
				err = back3.UnmarshalAmino(abz)
			}
			if err != nil || bdI(back3).Cmp(ai) != 0 {
				sig["method"] = "Amino"
				c.Violate("C12.encoding", sig, "Amino round trip of %s/1e36 failed (err %v)", ai, err)
			}
			c.Class("Binary|%s", sgn(ai))
		case 5: // constructors / precision bridges and comparisons
			di := genScaled(r, 18, 300)
			d := mkDec(di)
			if g := osmomath.BigDecFromDec(d).BigInt(); g.Cmp(new(big.Int).Mul(di, e18)) != 0 || d.BigInt().Cmp(di) != 0 {
				sig["method"] = "BigDecFromDec"
				c.Violate("C12.rounding", sig, "BigDecFromDec(%s/1e18) = %s/1e36", di, g)
			}
			d2i := genScaled(r, 18, 300)
			if g := osmomath.NewBigDecFromDecMulDec(d, mkDec(d2i)).BigInt(); g.Cmp(new(big.Int).Mul(di, d2i)) != 0 {
				sig["method"] = "NewBigDecFromDecMulDec"
				c.Violate("C12.rounding", sig, "NewBigDecFromDecMulDec(%s,%s) = %s", di, d2i, g)
			}
			bi := genScaled(r, 36, biMaxBit)
			if r.Intn(4) == 0 {
				bi = new(big.Int).Set(ai)
			}
			b := mkBD(bi)
			cmp := ai.Cmp(bi)
			if a.Equal(b) != (cmp == 0) || a.GT(b) != (cmp > 0) || a.GTE(b) != (cmp >= 0) || a.LT(b) != (cmp < 0) || a.LTE(b) != (cmp <= 0) ||
				a.IsZero() != (ai.Sign() == 0) || a.IsNegative() != (ai.Sign() < 0) || a.IsPositive() != (ai.Sign() > 0) ||
				a.IsInteger() != (new(big.Int).Rem(ai, e36).Sign() == 0) {
				sig["method"] = "compare"
				c.Violate("C12.compare", sig, "comparison predicates disagree for %s vs %s", ai, bi)
			}
			mn, mx := osmomath.MinBigDec(a, b).BigInt(), osmomath.MaxBigDec(a, b).BigInt()
			if (cmp <= 0 && (mn.Cmp(ai) != 0 || mx.Cmp(bi) != 0)) || (cmp > 0 && (mn.Cmp(bi) != 0 || mx.Cmp(ai) != 0)) {
				sig["method"] = "minmax"
				c.Violate("C12.compare", sig, "Min/Max wrong for %s vs %s", ai, bi)
			}
			c.Class("bridge|%s%s|cmp%d", sgn(ai), sgn(di), cmp)
		}
	})

	// DivIntByU64ToBigDec: the rounding-direction bridge used by stableswap scaling
	c.Cases("div-int-u64", c.N(40000, 600000), func(i int, r *vk.Rng) {
		n := r.BigBits(1 + r.Intn(250))
		if r.Intn(3) == 0 {
			n.Neg(n)
		}
		u := r.U64() >> uint(1+r.Intn(62)) // < 2^63 : documented domain of the int64 conversion inside
		if r.Intn(30) == 0 {
			u = 0
		}
		dirs := []osmomath.RoundingDirection{osmomath.RoundUp, osmomath.RoundDown, osmomath.RoundBankers, osmomath.RoundUnconstrained}
		dir := dirs[r.Intn(4)]
		c.Eval(1)
		var got osmomath.BigDec
		var err error
		rec, _ := vk.Guard(func() { got, err = osmomath.DivIntByU64ToBigDec(sdkmath.NewIntFromBigInt(n), u, dir) })
		sig := map[string]any{"method": "DivIntByU64ToBigDec", "dir": int(dir), "signA": sgn(n)}
		if u == 0 || dir == osmomath.RoundUnconstrained {
			if err == nil && rec == nil {
				c.Violate("C12.domain", sig, "DivIntByU64ToBigDec(%s,%d,%d) returned %s instead of failing", n, u, dir, got)
			}
			c.Class("DivIntByU64|fail|%d", dir)
			return
		}
		if rec != nil || err != nil {
			c.Violate("C12.unexpected_panic", sig, "DivIntByU64ToBigDec(%s,%d,%d) failed: %v %v", n, u, dir, rec, err)
			return
		}
		num := new(big.Int).Mul(n, e36)
		den := new(big.Int).SetUint64(u)
		var want *big.Int
		switch dir {
		case osmomath.RoundUp:
			want = divCeil(num, den)
		case osmomath.RoundDown:
			want = divTrunc(num, den)
		case osmomath.RoundBankers:
			want = divHalfEven(divTrunc(new(big.Int).Mul(num, e36), den), e36)
		}
		if got.BigInt().Cmp(want) != 0 {
			c.Violate("C12.rounding", sig, "DivIntByU64ToBigDec(%s,%d,dir=%d) = %s, exact %s", n, u, dir, got.BigInt(), want)
		}
		c.Class("DivIntByU64|%s|%d|%s", sgn(n), dir, roundClass(num, den, got.BigInt()))
	})

	runC12Int(c)
	runC12Dec(c)
	runC12Concurrent(c, ops, uops)
	runC12Ownership(c, ops)
}

func renderDec(i *big.Int, prec int) string {
	neg := i.Sign() < 0
	s := new(big.Int).Abs(i).String()
	for len(s) <= prec {
		s = "0" + s
	}
	s = s[:len(s)-prec] + "." + s[len(s)-prec:]
	if neg {
		s = "-" + s
	}
	return s
}

// ---- BigInt ---------------------------------------------------------------------

func runC12Int(c *vk.Ctx) {
	type iop struct {
		name  string
		f     func(a, b osmomath.BigInt) osmomath.BigInt
		exact func(a, b *big.Int) *big.Int // nil => must fail
		bound bool
	}
	ops := []iop{
		{"Int.Add", func(a, b osmomath.BigInt) osmomath.BigInt { return a.Add(b) }, func(a, b *big.Int) *big.Int { return new(big.Int).Add(a, b) }, true},
		{"Int.Sub", func(a, b osmomath.BigInt) osmomath.BigInt { return a.Sub(b) }, func(a, b *big.Int) *big.Int { return new(big.Int).Sub(a, b) }, true},
		{"Int.Mul", func(a, b osmomath.BigInt) osmomath.BigInt { return a.Mul(b) }, func(a, b *big.Int) *big.Int { return new(big.Int).Mul(a, b) }, true},
		{"Int.Quo", func(a, b osmomath.BigInt) osmomath.BigInt { return a.Quo(b) }, func(a, b *big.Int) *big.Int {
			if b.Sign() == 0 {
				return nil
			}
			return divTrunc(a, b)
		}, false},
		{"Int.Mod", func(a, b osmomath.BigInt) osmomath.BigInt { return a.Mod(b) }, func(a, b *big.Int) *big.Int {
			if b.Sign() == 0 {
				return nil
			}
			// Euclidean modulus (big.Int.Mod): result in [0,|b|)
			m := new(big.Int).Sub(a, new(big.Int).Mul(divFloor(a, new(big.Int).Abs(b)), new(big.Int).Abs(b)))
			return m
		}, false},
	}
	c.Cases("bigint", c.N(80000, 1500000), func(i int, r *vk.Rng) {
		op := ops[i%len(ops)]
		ai, bi := genScaled(r, 0, biMaxBit), genScaled(r, 0, biMaxBit)
		if r.Intn(3) == 0 {
			bi = genScaled(r, 0, 64)
		}
		a, b := osmomath.NewBigIntFromBigInt(new(big.Int).Set(ai)), osmomath.NewBigIntFromBigInt(new(big.Int).Set(bi))
		c.Eval(1)
		want := op.exact(ai, bi)
		got, pan, msg := callBD(func() *big.Int { return op.f(a, b).BigInt() })
		sig := map[string]any{"method": op.name, "signA": sgn(ai), "signB": sgn(bi)}
		cls := "ok"
		switch {
		case want == nil:
			cls = "divzero"
			if !pan {
				c.Violate("C12.div_by_zero_must_fail", sig, "%s(%s,%s) returned %s", op.name, ai, bi, got)
			}
		case op.bound && want.BitLen() > biMaxBit:
			cls = "overflow"
			if !pan {
				c.Violate("C12.overflow_must_fail", sig, "%s(%s,%s): exact result has %d bits but call returned", op.name, ai, bi, want.BitLen())
			}
		case pan:
			c.Violate("C12.unexpected_panic", sig, "%s(%s,%s) panicked: %s", op.name, ai, bi, msg)
		default:
			if got.Cmp(want) != 0 {
				c.Violate("C12.rounding", sig, "%s(%s,%s) = %s want %s", op.name, ai, bi, got, want)
			}
			if a.BigInt().Cmp(ai) != 0 || b.BigInt().Cmp(bi) != 0 {
				c.Violate("C12.operand_mutated", sig, "%s changed an operand", op.name)
			}
		}
		c.Class("%s|%s%s|%s", op.name, sgn(ai), sgn(bi), cls)
		if i%5 == 0 { // encodings + unary
			s := a.String()
			back, ok := osmomath.NewBigIntFromString(s)
			bz, err := a.Marshal()
			var b2 osmomath.BigInt
			if err == nil {
				err = b2.Unmarshal(bz)
			}
			jz, jerr := json.Marshal(a)
			var b3 osmomath.BigInt
			if jerr == nil {
				jerr = json.Unmarshal(jz, &b3)
			}
			if !ok || back.BigInt().Cmp(ai) != 0 || err != nil || b2.BigInt().Cmp(ai) != 0 || jerr != nil || b3.BigInt().Cmp(ai) != 0 || s != ai.String() {
				sig["method"] = "Int.encoding"
				c.Violate("C12.encoding", sig, "BigInt encodings do not round-trip %s (%v %v %v)", ai, ok, err, jerr)
			}
			if a.Neg().BigInt().Cmp(new(big.Int).Neg(ai)) != 0 || a.Abs().BigInt().Cmp(new(big.Int).Abs(ai)) != 0 || a.ToDec().BigInt().Cmp(new(big.Int).Mul(ai, e36)) != 0 {
				sig["method"] = "Int.unary"
				c.Violate("C12.rounding", sig, "BigInt Neg/Abs/ToDec wrong for %s", ai)
			}
			c.Class("Int.encoding|%s", sgn(ai))
		}
	})
}

// ---- 18-decimal Dec (sdk LegacyDec behind the osmomath alias) ------------------

func runC12Dec(c *vk.Ctx) {
	type dop struct {
		name  string
		f     func(a, b osmomath.Dec) osmomath.Dec
		exact func(a, b *big.Int) *big.Int
	}
	quo := func(round func(n, d *big.Int) *big.Int) func(a, b *big.Int) *big.Int {
		return func(a, b *big.Int) *big.Int {
			if b.Sign() == 0 {
				return nil
			}
			return round(new(big.Int).Mul(a, e18), b)
		}
	}
	ops := []dop{
		{"Dec.Add", func(a, b osmomath.Dec) osmomath.Dec { return a.Add(b) }, func(a, b *big.Int) *big.Int { return new(big.Int).Add(a, b) }},
		{"Dec.Sub", func(a, b osmomath.Dec) osmomath.Dec { return a.Sub(b) }, func(a, b *big.Int) *big.Int { return new(big.Int).Sub(a, b) }},
		{"Dec.Mul", func(a, b osmomath.Dec) osmomath.Dec { return a.Mul(b) }, func(a, b *big.Int) *big.Int { return divHalfEven(new(big.Int).Mul(a, b), e18) }},
		{"Dec.MulTruncate", func(a, b osmomath.Dec) osmomath.Dec { return a.MulTruncate(b) }, func(a, b *big.Int) *big.Int { return divTrunc(new(big.Int).Mul(a, b), e18) }},
		{"Dec.MulRoundUp", func(a, b osmomath.Dec) osmomath.Dec { return a.MulRoundUp(b) }, func(a, b *big.Int) *big.Int { return divCeil(new(big.Int).Mul(a, b), e18) }},
		{"Dec.QuoTruncate", func(a, b osmomath.Dec) osmomath.Dec { return a.QuoTruncate(b) }, quo(divTrunc)},
		{"Dec.QuoRoundUp", func(a, b osmomath.Dec) osmomath.Dec { return a.QuoRoundUp(b) }, quo(divCeil)},
		{"Dec.Quo", func(a, b osmomath.Dec) osmomath.Dec { return a.Quo(b) }, func(a, b *big.Int) *big.Int {
			if b.Sign() == 0 {
				return nil
			}
			return divHalfEven(divTrunc(new(big.Int).Mul(a, e36), b), e18)
		}},
	}
	c.Cases("dec18", c.N(64000, 800000), func(i int, r *vk.Rng) {
		op := ops[i%len(ops)]
		ai, bi := genScaled(r, 18, 250), genScaled(r, 18, 250)
		if r.Intn(5) == 0 {
			ai, bi = genTiePair(r, "mul18")
			if ai.BitLen() > 250 || bi.BitLen() > 250 {
				return
			}
		}
		// keep results inside LegacyDec's 315-bit bound: this part decides rounding only
		if ai.BitLen()+bi.BitLen() > 300 || ai.BitLen()+60 > 300 {
			bi = big.NewInt(r.Range(-1000, 1000))
			ai.Rsh(ai, 70)
		}
		a, b := mkDec(ai), mkDec(bi)
		c.Eval(1)
		want := op.exact(ai, bi)
		got, pan, msg := callBD(func() *big.Int { return op.f(a, b).BigInt() })
		sig := map[string]any{"method": op.name, "signA": sgn(ai), "signB": sgn(bi), "signs": signs(ai, bi)}
		if want == nil {
			if !pan {
				c.Violate("C12.div_by_zero_must_fail", sig, "%s(%s,%s) returned", op.name, ai, bi)
			}
			c.Class("%s|divzero", op.name)
			return
		}
		if pan {
			c.Violate("C12.unexpected_panic", sig, "%s(%s,%s) panicked: %s", op.name, ai, bi, msg)
			return
		}
		if got.Cmp(want) != 0 {
			c.Violate("C12.rounding", sig, "%s(%s/1e18,%s/1e18) = %s want %s", op.name, ai, bi, got, want)
		}
		if a.BigInt().Cmp(ai) != 0 || b.BigInt().Cmp(bi) != 0 {
			c.Violate("C12.operand_mutated", sig, "%s changed an operand", op.name)
		}
		c.Class("%s|%s%s", op.name, sgn(ai), sgn(bi))
	})
}


// runC12Concurrent: the decimal library is used from query goroutines while blocks execute, so calls that share
// no operand must not influence each other. Batches of operations are evaluated sequentially (the values the other
// parts of this monitor compare with exact arithmetic) and then by 8 goroutines at once; every answer must be the same.
func runC12Concurrent(c *vk.Ctx, ops []bdBinOp, uops []bdUnOp) {
	c.Cases("concurrent-callers", c.N(24, 960), func(i int, r *vk.Rng) {
		var calls []vk.Call
		for k := 0; k < 600; k++ {
			if r.Intn(4) == 0 {
				u := uops[r.Intn(len(uops))]
				ai := genScaled(r, 36, 900)
				calls = append(calls, vk.Call{Name: u.name, Fn: func() string {
					res, p, msg := callBD(func() *big.Int { return u.f(mkBD(new(big.Int).Set(ai))) })
					return fmt.Sprint(res, p, msg)
				}})
				continue
			}
			op := ops[r.Intn(len(ops))]
			ai := genScaled(r, 36, 700)
			var mk func() any
			switch op.kind {
			case "bd":
				bi := genScaled(r, 36, 400)
				mk = func() any { return mkBD(new(big.Int).Set(bi)) }
			case "dec":
				bi := genScaled(r, 18, 200)
				mk = func() any { return mkDec(new(big.Int).Set(bi)) }
			case "int":
				bi := genScaled(r, 0, 200)
				mk = func() any { return osmomath.NewBigIntFromBigInt(new(big.Int).Set(bi)) }
			default:
				v := int64(r.U64()) >> uint(r.Intn(63))
				mk = func() any { return v }
			}
			calls = append(calls, vk.Call{Name: op.name, Fn: func() string {
				res, p, msg := callBD(func() *big.Int { return bdI(op.f(mkBD(new(big.Int).Set(ai)), mk())) })
				return fmt.Sprint(res, p, msg)
			}})
		}
		c.Eval(int64(len(calls)) * 4)
		if k, alone, together := vk.ConcurrentSame(calls, 8, 3); k >= 0 {
			c.Violate("C12.concurrent_callers", map[string]any{"method": calls[k].Name}, "%s returned %s when called alone and %s when 8 goroutines were inside the decimal library at once (no operand is shared between the calls)", calls[k].Name, alone, together)
			return
		}
		c.Class("concurrent|batch-of-600|8-goroutines")
	})
}


// runC12Ownership: the value a non-mutating operation returns belongs to the caller. Changing it in place afterwards
// must leave the operands, every other value and the library's own constants alone (a result that shares storage
// with an operand or with a package-level value is an operand that is not left untouched, one step later).
func runC12Ownership(c *vk.Ctx, ops []bdBinOp) {
	type un struct {
		name string
		f    func(a osmomath.BigDec) osmomath.BigDec
	}
	uns := []un{
		{"Ceil", func(a osmomath.BigDec) osmomath.BigDec { return a.Ceil() }},
		{"TruncateDec", func(a osmomath.BigDec) osmomath.BigDec { return a.TruncateDec() }},
		{"Abs", func(a osmomath.BigDec) osmomath.BigDec { return a.Abs() }},
		{"Neg", func(a osmomath.BigDec) osmomath.BigDec { return a.Neg() }},
		{"Clone", func(a osmomath.BigDec) osmomath.BigDec { return a.Clone() }},
		{"ChopPrecision", func(a osmomath.BigDec) osmomath.BigDec { return a.ChopPrecision(18) }},
	}
	var nonMut []bdBinOp
	for _, o := range ops {
		if !o.mut && o.kind == "bd" {
			nonMut = append(nonMut, o)
		}
	}
	constantsOK := func() string {
		if !osmomath.ZeroBigDec().IsZero() {
			return fmt.Sprintf("ZeroBigDec() is now %s", osmomath.ZeroBigDec())
		}
		if osmomath.OneBigDec().BigInt().Cmp(e36) != 0 {
			return fmt.Sprintf("OneBigDec() is now %s", osmomath.OneBigDec())
		}
		if osmomath.SmallestBigDec().BigInt().Cmp(bigOne) != 0 {
			return fmt.Sprintf("SmallestBigDec() is now %s", osmomath.SmallestBigDec())
		}
		if v := mkBD(big.NewInt(5)).TruncateDec(); !v.IsZero() {
			return fmt.Sprintf("TruncateDec(5e-36) is now %s", v)
		}
		return ""
	}
	c.Cases("result-ownership", c.N(40000, 1000000), func(i int, r *vk.Rng) {
		var ai *big.Int
		switch r.Intn(5) {
		case 0:
			ai = new(big.Int).Mul(big.NewInt(r.Range(-9, 9)), e36) // whole numbers incl. 0
		case 1:
			ai = big.NewInt(r.Range(-1000, 1000)) // far below one
		default:
			ai = genScaled(r, 36, 300)
		}
		a := mkBD(ai)
		bi := genScaled(r, 36, 200)
		b := mkBD(bi)
		name := ""
		var res osmomath.BigDec
		rec, _ := vk.Guard(func() {
			if i%2 == 0 {
				u := uns[r.Intn(len(uns))]
				name = u.name
				res = u.f(a)
			} else {
				o := nonMut[r.Intn(len(nonMut))]
				name = o.name
				res = o.f(a, b)
			}
		})
		if rec != nil {
			return // overflow / division by zero: decided by the other parts
		}
		c.Eval(1)
		before := res.String()
		// the caller now works on its result in place
		res.AddMut(mkBD(new(big.Int).Mul(big.NewInt(7), e36)))
		sig := map[string]any{"method": name}
		if bdI(a).Cmp(ai) != 0 {
			c.Violate("C12.operand_mutated", sig, "%s(%s/1e36) returned %s; after the caller changed that result in place the operand reads %s", name, ai, before, a)
			return
		}
		if bdI(b).Cmp(bi) != 0 {
			c.Violate("C12.operand_mutated", sig, "%s: changing the result in place changed the second operand", name)
			return
		}
		if msg := constantsOK(); msg != "" {
			c.Violate("C12.operand_mutated", sig, "%s(%s/1e36) returned %s; after the caller changed that result in place %s", name, ai, before, msg)
			return
		}
		c.Class("owned|%s|%s", name, sgn(ai))
	})
}
