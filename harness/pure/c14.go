//go:build verif

package main

// C14 — tick/price conversions are monotone, in bounds and mutually inverse.
// Oracle: the documented geometric/additive closed form in big.Int, integer square
// roots in big.Int, and the bucket rule [sqrt(t), sqrt(t+1)) -> t.

import (
	"sync"
	"fmt"
	"math/big"

	"github.com/osmosis-labs/osmosis/osmomath"
	"github.com/osmosis-labs/osmosis/v31/zzverif/vk"
	clmath "github.com/osmosis-labs/osmosis/v31/x/concentrated-liquidity/math"
	cltypes "github.com/osmosis-labs/osmosis/v31/x/concentrated-liquidity/types"
)

const (
	c14MinV2   = int64(-270000000)
	c14MinCur2 = int64(-270000001)
	c14MinInit = int64(-108000000)
	c14MaxTick = int64(342000000)
	c14Decade  = int64(9000000)
)

var c14Pow10 = func() []*big.Int {
	p := make([]*big.Int, 90)
	for i := range p {
		p[i] = pow10(i)
	}
	return p
}()

// refPriceScaled returns price(t)·10^36 from the documented formula:
// t >= 0: 10^k·(1 + a·10^-6), k = floor(t/9e6), a = t - 9e6·k
// t <  0: 10^-k − a·10^(-k-7), k = floor(|t|/9e6), a = |t| − 9e6·k
func refPriceScaled(t int64) *big.Int {
	if t >= 0 {
		k := t / c14Decade
		a := t - k*c14Decade
		x := big.NewInt(1000000 + a)
		return x.Mul(x, c14Pow10[36+k-6])
	}
	u := -t
	k := u / c14Decade
	a := u - k*c14Decade
	x := big.NewInt(10000000 - a)
	e := 36 - k - 7
	if e < 0 { // only at t = -270000000 (a = 0): 10^7·10^-37 = 10^-30
		return x.Quo(x, c14Pow10[-e])
	}
	return x.Mul(x, c14Pow10[e])
}

// refSqrtScaled36 returns the expected TickToSqrtPrice(t)·10^36: on the launch range
// the least 18-decimal r with r² >= price (price itself has ≤ 18 decimals there), on
// the extended range the least 36-decimal r.
func refSqrtScaled36(t int64, priceScaled *big.Int) *big.Int {
	if t >= c14MinInit {
		p18 := new(big.Int).Quo(priceScaled, e18) // price at 18 decimals (truncation, as Dec())
		n := new(big.Int).Mul(p18, e18)
		r := new(big.Int).Sqrt(n)
		if new(big.Int).Mul(r, r).Cmp(n) < 0 {
			r.Add(r, bigOne)
		}
		return r.Mul(r, e18)
	}
	n := new(big.Int).Mul(priceScaled, e36)
	r := new(big.Int).Sqrt(n)
	if new(big.Int).Mul(r, r).Cmp(n) < 0 {
		r.Add(r, bigOne)
	}
	return r
}

type c14State struct {
	c          *vk.Ctx
	minSqrtV2  *big.Int
	maxSqrt    *big.Int
	prevTick   int64
	prevPrice  *big.Int
	prevSqrt   *big.Int
	havePrev   bool
	sqrtEvery  int64 // check exact sqrt every n-th tick (1 = always)
	betwEvery  int64 // between-ticks clause sampled at 1 tick in n
	roundTrips int64
}

func regime(t int64) string {
	switch {
	case t < c14MinInit:
		return "ext"
	case t < 0:
		return "neg"
	}
	return "pos"
}

// checkTick decides all per-tick clauses for tick t; consecutive calls with t = prev+1
// also decide the adjacent-pair monotonicity clauses.
func (s *c14State) checkTick(t int64, r *vk.Rng) {
	c := s.c
	c.Eval(1)
	sig := map[string]any{"regime": regime(t)}
	p, err := clmath.TickToPrice(t)
	if err != nil {
		c.Violate("C14.tick_to_price_error", sig, "TickToPrice(%d) failed: %v", t, err)
		return
	}
	want := refPriceScaled(t)
	pi := p.BigInt()
	if pi.Cmp(want) != 0 {
		c.Violate("C14.price_formula", sig, "TickToPrice(%d) = %s/1e36, closed form gives %s/1e36", t, pi, want)
	}
	sp, err := clmath.TickToSqrtPrice(t)
	if err != nil {
		c.Violate("C14.tick_to_sqrt_error", sig, "TickToSqrtPrice(%d) failed: %v", t, err)
		return
	}
	si := sp.BigInt()
	if si.Cmp(s.maxSqrt) > 0 || si.Cmp(s.minSqrtV2) < 0 {
		c.Violate("C14.sqrt_bounds", sig, "TickToSqrtPrice(%d) = %s/1e36 outside [%s, %s]", t, si, s.minSqrtV2, s.maxSqrt)
	}
	if s.sqrtEvery <= 1 || t%s.sqrtEvery == 0 {
		ws := refSqrtScaled36(t, want)
		if si.Cmp(ws) != 0 {
			c.Violate("C14.sqrt_value", sig, "TickToSqrtPrice(%d) = %s/1e36, least root with r²>=price is %s/1e36", t, si, ws)
		}
	}
	if s.havePrev && s.prevTick == t-1 {
		if pi.Cmp(s.prevPrice) <= 0 {
			c.Violate("C14.price_monotone", sig, "TickToPrice(%d) = %s <= TickToPrice(%d) = %s", t, pi, t-1, s.prevPrice)
		}
		if si.Cmp(s.prevSqrt) < 0 {
			c.Violate("C14.sqrt_monotone", sig, "TickToSqrtPrice(%d) = %s < TickToSqrtPrice(%d) = %s", t, si, t-1, s.prevSqrt)
		}
		if si.Cmp(s.prevSqrt) == 0 {
			c.Count("adjacent_equal_sqrt", 1)
		}
		// between-ticks clause on the bucket [sqrt(t-1), sqrt(t)) -> t-1
		if t-1 >= c14MinInit && si.Cmp(s.prevSqrt) > 0 && (s.betwEvery <= 1 || t%s.betwEvery == 0) {
			s.checkBucket(t-1, s.prevSqrt, si, r)
		}
	}
	// price -> tick on the exact tick price (whole range)
	if t >= c14MinV2 {
		got, err := clmath.CalculatePriceToTick(p)
		if err != nil || got != t {
			c.Violate("C14.price_to_tick", sig, "CalculatePriceToTick(TickToPrice(%d)) = %d, %v", t, got, err)
		}
	}
	// sqrt -> tick round trip on the swap-reachable range
	if t >= c14MinInit {
		got, err := clmath.CalculateSqrtPriceToTick(sp)
		s.roundTrips++
		if err != nil || got != t {
			c.Violate("C14.round_trip", sig, "CalculateSqrtPriceToTick(TickToSqrtPrice(%d) = %s) = %d, %v", t, sp, got, err)
		}
	}
	s.prevTick, s.prevPrice, s.prevSqrt, s.havePrev = t, pi, si, true
}

func (s *c14State) checkBucket(t int64, lo, hi *big.Int, r *vk.Rng) {
	c := s.c
	width := new(big.Int).Sub(hi, lo)
	cands := []*big.Int{new(big.Int).Set(lo), new(big.Int).Add(lo, bigOne), new(big.Int).Sub(hi, bigOne),
		new(big.Int).Add(lo, new(big.Int).Rsh(width, 1)), new(big.Int).Add(lo, r.BigBelow(width))}
	// 18-decimal neighbours too (the launch range works on 18-decimal roots)
	cands = append(cands, new(big.Int).Add(lo, e18), new(big.Int).Sub(hi, e18))
	for _, x := range cands {
		if x.Cmp(lo) < 0 || x.Cmp(hi) >= 0 {
			continue
		}
		c.Eval(1)
		got, err := clmath.CalculateSqrtPriceToTick(mkBD(x))
		if err != nil || got != t {
			c.Violate("C14.bucket", map[string]any{"regime": regime(t)}, "sqrt price %s/1e36 in [sqrt(%d)=%s, sqrt(%d)=%s) mapped to tick %d (%v)", x, t, lo, t+1, hi, got, err)
		}
		// the same with rounding to a spacing: the multiple of the spacing at or below the bucket's tick
		sp := []int64{1, 10, 100, 1000, 7}[r.Intn(5)]
		want := t - ((t%sp)+sp)%sp
		if want >= c14MinInit {
			g2, e2 := clmath.SqrtPriceToTickRoundDownSpacing(mkBD(x), uint64(sp))
			if e2 != nil || g2 != want {
				c.Violate("C14.bucket", map[string]any{"regime": regime(t), "spacing": true}, "SqrtPriceToTickRoundDownSpacing(%s/1e36, %d) = %d (%v); the price lies in tick %d's bucket, so the answer is %d", x, sp, g2, e2, t, want)
			}
		}
	}
	// just below the lower edge: the last representable sqrt price of the previous bucket, with every spacing
	if t-1 >= c14MinInit {
		below := new(big.Int).Sub(lo, bigOne)
		for _, sp := range []int64{10, 100, 1000} {
			want := (t - 1) - (((t-1)%sp)+sp)%sp
			if want < c14MinInit {
				continue
			}
			c.Eval(1)
			g2, e2 := clmath.SqrtPriceToTickRoundDownSpacing(mkBD(below), uint64(sp))
			if e2 != nil || g2 != want {
				c.Violate("C14.bucket", map[string]any{"regime": regime(t), "spacing": true}, "SqrtPriceToTickRoundDownSpacing(sqrt(%d) - 1e-36, %d) = %d (%v), expected %d", t, sp, g2, e2, want)
			}
		}
	}
	c.Count("bucket_points", int64(len(cands)))
}

func runC14(c *vk.Ctx) {
	c.R.Rule = "quick: every tick within ±2000 of each decade boundary (69 boundaries), of both range ends and of the regime switch at MinInitializedTick, plus seed-chosen random ticks; thorough: EVERY tick of [-270000001, 342000000] in contiguous chunks (formula, strict price monotonicity, sqrt monotonicity/bounds, price->tick on every tick; exact sqrt value on every 4th tick; sqrt->tick round trip on every tick of the swap-reachable range; between-ticks bucket clause on 1 tick in 64 with 7 points each). distinct_nontrivial counts distinct (clause family, decade index of the tick, regime) cells actually visited."
	st := &c14State{c: c}
	st.maxSqrt = cltypes.MaxSqrtPriceBigDec.BigInt()
	st.minSqrtV2 = pow10(36 - 15) // sqrt(10^-30) = 10^-15
	cell := func(fam string, t int64) {
		d := t / c14Decade
		if t < 0 {
			d = -((-t) / c14Decade) - 1
		}
		c.Class("%s|decade%d|%s", fam, d, regime(t))
	}

	if !c.Thorough() {
		st.sqrtEvery, st.betwEvery = 1, 8
		// boundary neighbourhoods
		var centers []int64
		for k := int64(-30); k <= 38; k++ {
			centers = append(centers, k*c14Decade)
		}
		centers = append(centers, c14MinInit, c14MaxTick, c14MinV2)
		c.Cases("boundaries", len(centers), func(i int, r *vk.Rng) {
			lo, hi := centers[i]-2000, centers[i]+2000
			if lo < c14MinV2 {
				lo = c14MinV2
			}
			if hi > c14MaxTick {
				hi = c14MaxTick
			}
			st.havePrev = false
			for t := lo; t <= hi; t++ {
				st.checkTick(t, r)
			}
			cell("boundary", centers[i])
		})
		c.Cases("random-ticks", 300000, func(i int, r *vk.Rng) {
			t := r.Range(c14MinV2, c14MaxTick-40)
			if r.Intn(3) == 0 {
				t = r.Range(c14MinInit, c14MaxTick-40)
			}
			st.havePrev = false
			for k := int64(0); k < 12; k++ {
				st.checkTick(t+k, r)
			}
			cell("random", t)
		})
	} else {
		st.sqrtEvery, st.betwEvery = 4, 64
		const chunk = int64(200000)
		total := c14MaxTick - c14MinV2 + 1
		n := int((total + chunk - 1) / chunk)
		c.Cases("exhaustive", n, func(i int, r *vk.Rng) {
			lo := c14MinV2 + int64(i)*chunk
			hi := lo + chunk // inclusive overlap of one tick so that every adjacent pair is compared
			if hi > c14MaxTick {
				hi = c14MaxTick
			}
			st.havePrev = false
			for t := lo; t <= hi; t++ {
				st.checkTick(t, r)
			}
			cell("chunk", lo)
			cell("chunk", hi)
		})
		c.Count("exhaustive_tick_range_lo", 0)
	}
	c.Count("round_trips", st.roundTrips)

	// the documented special case below the initialisable range
	c.Cases("min-current-tick", 1, func(i int, r *vk.Rng) {
		p, err := clmath.TickToPrice(c14MinCur2)
		c.Eval(1)
		if err != nil || !p.Equal(cltypes.MinSpotPriceV2) {
			c.Violate("C14.price_formula", map[string]any{"regime": "ext"}, "TickToPrice(MinCurrentTickV2) = %v, %v", p, err)
		}
		c.Class("min-current-tick")
	})

	// out-of-range rejection
	c.Cases("rejections", c.N(4000, 200000), func(i int, r *vk.Rng) {
		c.Eval(1)
		switch i % 5 {
		case 0:
			t := c14MaxTick + 1 + r.I64n(1<<uint(1+r.Intn(40)))
			if _, err := clmath.TickToPrice(t); err == nil {
				c.Violate("C14.reject_tick", nil, "TickToPrice(%d) accepted a tick above MaxTick", t)
			}
			if _, err := clmath.TickToSqrtPrice(t); err == nil {
				c.Violate("C14.reject_tick", nil, "TickToSqrtPrice(%d) accepted a tick above MaxTick", t)
			}
			c.Class("reject|tick-high")
		case 1:
			t := c14MinCur2 - 1 - r.I64n(1<<uint(1+r.Intn(40)))
			if _, err := clmath.TickToPrice(t); err == nil {
				c.Violate("C14.reject_tick", nil, "TickToPrice(%d) accepted a tick below MinCurrentTickV2", t)
			}
			if _, err := clmath.TickToSqrtPrice(t); err == nil {
				c.Violate("C14.reject_tick", nil, "TickToSqrtPrice(%d) accepted a tick below the minimum", t)
			}
			c.Class("reject|tick-low")
		case 2: // price above max / below min / negative
			var x *big.Int
			k := r.Intn(3)
			switch k {
			case 0:
				x = new(big.Int).Add(cltypes.MaxSpotPriceBigDec.BigInt(), r.BigMag(0, 60))
			case 1:
				x = r.BigBelow(cltypes.MinSpotPriceV2.BigInt()) // [0, 10^-30)
			default:
				x = new(big.Int).Neg(r.BigMag(0, 60))
			}
			var err error
			var got int64
			rec, _ := vk.Guard(func() { got, err = clmath.CalculatePriceToTick(mkBD(x)) })
			if rec == nil && err == nil {
				c.Violate("C14.reject_price", map[string]any{"kind": k}, "CalculatePriceToTick(%s/1e36) = %d accepted an out-of-range price", x, got)
			}
			c.Class("reject|price|%d", k)
		case 3: // sqrt price out of range
			var x *big.Int
			k := r.Intn(3)
			switch k {
			case 0:
				x = new(big.Int).Add(st.maxSqrt, r.BigMag(0, 50))
			case 1: // below the launch minimum sqrt price (swap-reachable range ends at MinCurrentTick)
				x = r.BigBelow(new(big.Int).Sub(cltypes.MinSqrtPriceBigDec.BigInt(), pow10(19)))
			default:
				x = new(big.Int).Neg(r.BigMag(0, 40))
			}
			var err error
			var got int64
			rec, _ := vk.Guard(func() { got, err = clmath.CalculateSqrtPriceToTick(mkBD(x)) })
			if rec == nil && err == nil {
				c.Violate("C14.reject_sqrt_price", map[string]any{"kind": k}, "CalculateSqrtPriceToTick(%s/1e36) = %d accepted an out-of-range sqrt price", x, got)
			}
			c.Class("reject|sqrt|%d", k)
		case 4: // RoundDownTickToSpacing
			spac := []int64{1, 10, 100, 1000}[r.Intn(4)]
			if r.Intn(3) == 0 {
				spac = 1 + r.I64n(5000)
			}
			t := r.Range(c14MinV2-3000, c14MaxTick+3000)
			if r.Intn(4) == 0 {
				t = []int64{c14MinV2, c14MaxTick, c14MinInit, 0}[r.Intn(4)] + r.Range(-1500, 1500)
			}
			got, err := clmath.RoundDownTickToSpacing(t, spac)
			// mathematical floor to the spacing
			fl := t - ((t%spac)+spac)%spac
			inRange := fl <= c14MaxTick && fl >= c14MinV2
			sig := map[string]any{"spacing_class": fmt.Sprint(spac <= 1000)}
			if inRange {
				if err != nil || got != fl || got > t || got%spac != 0 {
					c.Violate("C14.round_down_spacing", sig, "RoundDownTickToSpacing(%d,%d) = %d, %v; floor is %d", t, spac, got, err, fl)
				}
				c.Class("spacing|ok|%v|%v", t < 0, spac <= 1000)
			} else {
				if err == nil {
					c.Violate("C14.round_down_spacing", sig, "RoundDownTickToSpacing(%d,%d) = %d accepted an out-of-range result (floor %d)", t, spac, got, fl)
				}
				c.Class("spacing|reject")
			}
		}
	})
	c.Sample(map[string]any{"tick": -108000000, "price_scaled_1e36": refPriceScaled(-108000000).String(), "expected_sqrt_1e36": refSqrtScaled36(-108000000, refPriceScaled(-108000000)).String()})
	c.Sample(map[string]any{"tick": 9000001, "price_scaled_1e36": refPriceScaled(9000001).String()})
	_ = osmomath.OneBigDec
	runC14Concurrent(c)
}


// runC14Concurrent: tick / price conversions are called from query goroutines while blocks execute; calls that share
// no operand must not influence each other (no package-level scratch space, no unsynchronised caches).
func runC14Concurrent(c *vk.Ctx) {
	c.Cases("concurrent-callers", c.N(24, 960), func(i int, r *vk.Rng) {
		var calls []vk.Call
		for k := 0; k < 600; k++ {
			t := r.Range(-108000000, 342000000)
			if r.Intn(6) == 0 {
				t = r.Range(-270000000, -108000001)
			}
			switch r.Intn(4) {
			case 0:
				calls = append(calls, vk.Call{Name: "TickToSqrtPrice", Fn: func() string { v, err := clmath.TickToSqrtPrice(t); return fmt.Sprint(v, err) }})
			case 1:
				calls = append(calls, vk.Call{Name: "TickToPrice", Fn: func() string { v, err := clmath.TickToPrice(t); return fmt.Sprint(v, err) }})
			case 2:
				calls = append(calls, vk.Call{Name: "CalculateSqrtPriceToTick", Fn: func() string {
					sp, err := clmath.TickToSqrtPrice(t)
					if err != nil {
						return err.Error()
					}
					v, err := clmath.CalculateSqrtPriceToTick(sp)
					return fmt.Sprint(v, err)
				}})
			default:
				sp := []uint64{1, 10, 100, 1000}[r.Intn(4)]
				calls = append(calls, vk.Call{Name: "RoundDownTickToSpacing", Fn: func() string { v, err := clmath.RoundDownTickToSpacing(t, int64(sp)); return fmt.Sprint(v, err) }})
			}
		}
		c.Eval(int64(len(calls)) * 4)
		if k, alone, together := vk.ConcurrentSame(calls, 8, 3); k >= 0 {
			c.Violate("C14.concurrent_callers", map[string]any{"fn": calls[k].Name}, "%s returned %s when called alone and %s when 8 goroutines were inside the tick math at once", calls[k].Name, alone, together)
			return
		}
		c.Class("concurrent|batch-of-600|8-goroutines")
		// a few ticks a power of two apart, converted over and over by different goroutines (memo tables indexed by the
		// low bits of the tick would map them to one slot)
		stride := int64(1) << uint(4+r.Intn(14))
		base := r.Range(-100000000, 300000000)
		ticks := []int64{base, base + stride, base + 2*stride, base - stride}
		ref := make([]string, len(ticks))
		for k, t := range ticks {
			v, err := clmath.TickToSqrtPrice(t)
			ref[k] = fmt.Sprint(v, err)
		}
		var badMu sync.Mutex
		bad := ""
		var wg sync.WaitGroup
		for g := 0; g < 8; g++ {
			wg.Add(1)
			go func(g int) {
				defer wg.Done()
				k := g % len(ticks)
				for n := 0; n < 4000; n++ {
					v, err := clmath.TickToSqrtPrice(ticks[k])
					if got := fmt.Sprint(v, err); got != ref[k] {
						badMu.Lock()
						if bad == "" {
							bad = fmt.Sprintf("TickToSqrtPrice(%d) = %s while other goroutines convert ticks %d apart, %s when called alone", ticks[k], got, stride, ref[k])
						}
						badMu.Unlock()
						return
					}
				}
			}(g)
		}
		wg.Wait()
		c.Eval(32000)
		if bad != "" {
			c.Violate("C14.concurrent_callers", map[string]any{"fn": "TickToSqrtPrice", "colliding_ticks": true}, "%s", bad)
			return
		}
		c.Class("concurrent|power-of-two-strides")
	})
}
